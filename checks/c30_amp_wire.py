"""C30 -- AMP wire format (boxes over a split byte stream, refusal of
unrepresentable boxes) and argument-type round trips.

Three kinds of plain-data case:

 kind=boxes : a sequence of boxes (representable or not) is sent one by one
              through BinaryBoxProtocol.sendBox into a recording transport.
              Unrepresentable boxes must raise and write nothing; the bytes
              written by the others must (a) decode, with an independent
              reference decoder written from the BinaryBoxProtocol docstring,
              to exactly the representable boxes, and (b) be parsed by a
              fresh BinaryBoxProtocol to those boxes, delivered whole and
              delivered split at the generated cut points.
 kind=arg   : Argument.toStringProto / fromStringProto of one (type, value).
 kind=arghist: ONE Argument object used for a sequence of round trips and of
              decodes of cut-short / foreign strings; every round trip of a
              valid value must hold whatever the object decoded before.
 kind=cmd   : a Command with a generated argument schema: makeArguments ->
              sendBox -> split stream -> parsed box -> parseArguments.
"""
import datetime
import decimal
import struct

from hypothesis import strategies as st

from lib.core import hyp_run, enumerate_run, dumps

META = dict(
    property="C30",
    level="exploration",
    technique="Hypothesis-generated box sequences and typed argument values; serialize -> independent reference decoder + real parser under generated/enumerated stream splits; refusal oracle for unrepresentable boxes",
    level_text="Random sequences of AMP boxes (keys 1..255 bytes, values 0..65535 bytes, boundary lengths forced) mixed with unrepresentable ones (empty / 256+ byte keys, 65536+ byte values, str/int/None/float/list/tuple keys or values) are sent through BinaryBoxProtocol.sendBox; every refusal must leave the transport untouched, and the written stream must decode to the accepted boxes both with a reference decoder and with BinaryBoxProtocol fed whole, byte-wise, cut inside every length prefix, and at random cuts, and again with a box receiver that pauses the parser (pauseProducing from inside ampBoxReceived after its k-th box) and resumes it right after the delivery, before the next one, or after the last one; all single and double cuts of four fixed streams are enumerated. Every argument type round-trips generated values directly and through Command.makeArguments/parseArguments over the wire; histories on ONE (shared, schema-level) Argument object interleave valid round trips with decodes of truncated / extended / foreign strings, and each valid round trip must be independent of what the object decoded before. Sampled, not exhaustive.",
    level_note="Trusted: the reference decoder (30 lines, from the BinaryBoxProtocol docstring), Python's struct/decimal/datetime. Equality oracle: floats bitwise (NaN by class), Decimal by as_tuple, DateTime by wall-clock fields and utcoffset (sub-minute offsets: within one minute), FilePath by == and .path. Integers are kept below 2^8000 (CPython's 4300-digit int<->str limit). Sub-minute UTC offsets below -23:59 are not generated (they cannot be expressed in the wire format).",
    design_ref="§5 C30",
    rule="boxes: case = (list of boxes as key/value specs, cut mode). non-trivial = >=2 representable boxes and at least one cut strictly inside a 2-byte length prefix; distinct by (boxes, effective cut offsets). arg/cmd: non-trivial = value is special (|int|>=2^64, non-finite/-0.0/subnormal float, special or exponent-bearing Decimal, non-zero UTC offset, non-ASCII text, list nesting >=2, AmpList with >=2 rows); distinct by (spec, value). arghist: non-trivial = a valid round trip is checked after a malformed decode on the same argument object; distinct by (spec, steps).",
)

MAXK = 255
MAXV = 65535


# --------------------------------------------------------------------------
# plain-data -> objects

def mk_bytes(spec):
    """bytes | {"pat": bytes, "n": int} -> bytes;  {"nb": kind, "v": x} -> non-bytes object."""
    if isinstance(spec, (bytes, bytearray)):
        return bytes(spec)
    if "pat" in spec:
        pat, n = spec["pat"] or b"\x00", spec["n"]
        return (pat * (n // len(pat) + 1))[:n]
    kind, v = spec["nb"], spec.get("v")
    if kind == "str":
        return str(v)
    if kind == "int":
        return int(v)
    if kind == "none":
        return None
    if kind == "float":
        return float(v)
    if kind == "list":
        return [bytes(v)]
    if kind == "tuple":
        return (bytes(v),)
    raise ValueError(f"bad spec {spec!r}")


def classify(k, v):
    """None if the pair is representable, else the reason class."""
    if not isinstance(k, bytes):
        return "nonbytes"
    if not isinstance(v, bytes):
        return "nonbytes"
    if len(k) == 0:
        return "empty-key"
    if len(k) > MAXK:
        return "overlong-key"
    if len(v) > MAXV:
        return "overlong-value"
    return None


def ref_decode(data):
    """Reference decoder from the BinaryBoxProtocol docstring.

    Returns (boxes, prefix_starts, box_end_offsets) or raises ValueError."""
    boxes, cur, pos, prefixes, ends = [], {}, 0, [], []
    n = len(data)
    while pos < n:
        if pos + 2 > n:
            raise ValueError("truncated key length")
        prefixes.append(pos)
        (kl,) = struct.unpack("!H", data[pos:pos + 2])
        pos += 2
        if kl == 0:
            boxes.append(cur)
            ends.append(pos)
            cur = {}
            continue
        if kl > MAXK:
            raise ValueError(f"key length {kl} at {pos - 2}")
        if pos + kl > n:
            raise ValueError("truncated key")
        key = data[pos:pos + kl]
        pos += kl
        if pos + 2 > n:
            raise ValueError("truncated value length")
        prefixes.append(pos)
        (vl,) = struct.unpack("!H", data[pos:pos + 2])
        pos += 2
        if pos + vl > n:
            raise ValueError("truncated value")
        if key in cur:
            raise ValueError("duplicate key in one box")
        cur[key] = data[pos:pos + vl]
        pos += vl
    if cur:
        raise ValueError("stream ends inside a box")
    return boxes, prefixes, ends


class _Transport:
    disconnecting = False

    def __init__(self):
        self.chunks = []
        self.closed = 0

    def write(self, data):
        self.chunks.append(data)

    def writeSequence(self, seq):
        self.chunks.extend(seq)

    def value(self):
        return b"".join(self.chunks)

    def loseConnection(self):
        self.closed += 1
        self.disconnecting = True

    abortConnection = loseConnection

    # the parser may be paused by its consumer (it is an IPushProducer)
    def pauseProducing(self):
        self.paused = True

    def resumeProducing(self):
        self.paused = False

    def stopProducing(self):
        self.paused = True

    def getPeer(self):
        return "peer"

    def getHost(self):
        return "host"


class _Receiver:
    def __init__(self):
        self.boxes = []
        self.stopped = []

    def startReceivingBoxes(self, sender):
        pass

    def ampBoxReceived(self, box):
        self.boxes.append(box)

    def stopReceivingBoxes(self, reason):
        self.stopped.append(reason)


def effective_cuts(case, stream, prefixes):
    mode = case.get("cuts", "whole")
    n = len(stream)
    if mode == "whole":
        return []
    if mode == "bytewise":
        if n <= 6000:
            return list(range(1, n))
        # byte-wise over a long stream is quadratic in the receiver; dribble
        # the first 3000 bytes and then use 997-byte segments
        return list(range(1, 3000)) + list(range(3000, n, 997))
    if mode == "inprefix":
        return [p + 1 for p in prefixes if p + 1 < n]
    cuts = set(c for c in mode if 0 < c < n)
    for f in case.get("fcuts", ()):
        c = (f * n) // 10000
        if 0 < c < n:
            cuts.add(c)
    return sorted(cuts)


def split(stream, cuts):
    out, prev = [], 0
    for c in cuts:
        out.append(stream[prev:c])
        prev = c
    out.append(stream[prev:])
    return out


def parse_with(amp, segments):
    rcv = _Receiver()
    tr = _Transport()
    proto = amp.BinaryBoxProtocol(rcv)
    proto.makeConnection(tr)
    for seg in segments:
        proto.dataReceived(seg)
    return rcv, tr


class _PausingReceiver(_Receiver):
    """A box receiver that applies back-pressure: when it has received its
    k-th box (k in `pause_at`) it calls pauseProducing() on the protocol from
    inside ampBoxReceived."""

    def __init__(self, pause_at):
        _Receiver.__init__(self)
        self.pause_at = set(pause_at)
        self.proto = None
        self.pauses = []             # number of boxes received when each pause was requested

    def ampBoxReceived(self, box):
        self.boxes.append(box)
        n = len(self.boxes)
        if n in self.pause_at and not self.proto.paused:
            self.pause_at.discard(n)
            self.pauses.append(n)
            self.proto.pauseProducing()


def parse_paused(ctx, case, amp, segments, spec, ends):
    """Deliver `segments` to a BinaryBoxProtocol whose receiver pauses it.

    resume = "after": resumeProducing() as soon as the delivery that caused
    the pause has returned; "before": just before the next delivery; "end":
    deliveries go on while paused (the parser buffers) and the protocol is
    resumed after the last one.  Returns (receiver, transport, number of
    pauses that left >= 2 undelivered bytes of the current chunk behind)."""
    rcv = _PausingReceiver(spec["at"])
    tr = _Transport()
    proto = amp.BinaryBoxProtocol(rcv)
    rcv.proto = proto
    proto.makeConnection(tr)
    mode = spec["resume"]
    budget = [len(spec["at"]) + 3]

    def drain():
        while proto.paused:
            budget[0] -= 1
            if budget[0] < 0:
                ctx.violation("boxes-paused-receiver-never-drains", case, "still paused after every pause point was used")
            proto.resumeProducing()

    delivered = 0
    leftovers = 0
    for seg in segments:
        if mode == "before":
            drain()
        seen = len(rcv.pauses)
        delivered += len(seg)
        proto.dataReceived(seg)
        for n in rcv.pauses[seen:]:
            if n - 1 < len(ends) and delivered - ends[n - 1] >= 2:
                leftovers += 1
        if mode == "after":
            drain()
    drain()
    return rcv, tr, leftovers


def plain_boxes(boxes):
    return [dict(b) for b in boxes]


def check_stream(ctx, amp, case, stream, expected, tag):
    """stream must decode to `expected` (list of dicts) by reference, whole and split."""
    try:
        ref, prefixes, ends = ref_decode(stream)
    except ValueError as e:
        ctx.violation(f"{tag}-wire-not-decodable-by-reference", case, f"{e}; stream={stream[:200]!r}")
    if ref != expected:
        ctx.violation(f"{tag}-wire-decodes-to-other-boxes", case,
                      f"reference decoder got {str(ref)[:400]} expected {str(expected)[:400]}")
    rcv, tr = parse_with(amp, [stream] if stream else [])
    if tr.closed or rcv.stopped:
        ctx.violation(f"{tag}-receiver-closed-whole", case, f"stream={stream[:200]!r}")
    got = plain_boxes(rcv.boxes)
    if got != expected:
        ctx.violation(f"{tag}-roundtrip-differs-whole", case,
                      f"parsed {str(got)[:400]} expected {str(expected)[:400]}")
    for b in rcv.boxes:
        if not isinstance(b, amp.AmpBox) or any(type(k) is not bytes or type(v) is not bytes for k, v in b.items()):
            ctx.violation(f"{tag}-parsed-box-type", case, repr(b)[:300])
    cuts = effective_cuts(case, stream, prefixes)
    if cuts:
        rcv2, tr2 = parse_with(amp, split(stream, cuts))
        if tr2.closed or rcv2.stopped:
            ctx.violation(f"{tag}-receiver-closed-split", case, f"cuts={cuts[:20]}")
        got2 = plain_boxes(rcv2.boxes)
        if got2 != expected:
            ctx.violation(f"{tag}-roundtrip-differs-split", case,
                          f"cuts={cuts[:20]} parsed {str(got2)[:400]} expected {str(expected)[:400]}")
    if case.get("pause") and case["pause"]["at"]:
        # consumer back-pressure: pauseProducing() from inside ampBoxReceived,
        # resumeProducing() later; every box must still arrive exactly once
        segs = split(stream, cuts) if cuts else ([stream] if stream else [])
        rcv3, tr3, leftovers = parse_paused(ctx, case, amp, segs, case["pause"], ends)
        if tr3.closed or rcv3.stopped:
            ctx.violation(f"{tag}-receiver-closed-paused", case, f"cuts={cuts[:20]} pause={case['pause']}")
        got3 = plain_boxes(rcv3.boxes)
        if got3 != expected:
            ctx.violation(f"{tag}-roundtrip-differs-paused", case,
                          f"cuts={cuts[:20]} pause={case['pause']} parsed {str(got3)[:400]} expected {str(expected)[:400]}")
        if rcv3.pauses:
            ctx.count("boxes: receiver paused the parser from inside ampBoxReceived")
        if leftovers:
            ctx.count("boxes: pause left >=2 undelivered bytes of the same chunk buffered", leftovers)
    pset = set(p + 1 for p in prefixes)
    in_prefix = [c for c in cuts if c in pset]
    return cuts, in_prefix, rcv.boxes


REFUSALS = None


def run_boxes(ctx, case):
    from twisted.protocols import amp
    sender_rcv = _Receiver()
    tr = _Transport()
    sender = amp.BinaryBoxProtocol(sender_rcv)
    sender.makeConnection(tr)
    expected = []
    n_bad = 0
    for idx, items in enumerate(case["items"]):
        box = amp.AmpBox()
        reasons = []
        model = {}
        for ks, vs in items:
            k, v = mk_bytes(ks), mk_bytes(vs)
            if isinstance(k, list):
                k = tuple(k)     # keys must be hashable
            box[k] = v
            model[k] = v
        for k, v in model.items():
            r = classify(k, v)
            if r:
                reasons.append(r)
        before = len(tr.value())
        refused = None
        try:
            sender.sendBox(box)
        except (amp.AmpError, TypeError, ValueError) as e:
            refused = e
        wrote = len(tr.value()) - before
        if reasons:
            n_bad += 1
            reason = sorted(reasons)[0]
            ctx.count("unrepresentable:" + reason)
            if refused is None:
                ctx.violation(f"{reason}-not-refused", case,
                              f"box #{idx} {str(model)[:300]} was sent ({wrote} bytes written) instead of refused")
            if wrote:
                ctx.violation("refused-box-wrote-bytes", case,
                              f"box #{idx} raised {refused!r} after writing {wrote} bytes")
            if reason.startswith("overlong") and not isinstance(refused, amp.TooLong):
                ctx.violation("overlong-wrong-exception", case, f"box #{idx}: {refused!r}")
        else:
            if refused is not None:
                if not model and isinstance(refused, amp.NoEmptyBoxes) and not wrote:
                    # NoEmptyBoxes is documented as "raised when you receive
                    # or attempt to send" an empty box: accepted either way.
                    ctx.count("empty box refused")
                    continue
                ctx.violation("representable-box-refused", case, f"box #{idx} {str(model)[:300]}: {refused!r}")
            expected.append(model)
    stream = tr.value()
    if tr.closed:
        ctx.violation("sender-closed", case, "sendBox closed the transport")
    cuts, in_prefix, _ = check_stream(ctx, amp, case, stream, expected, "boxes")
    # bookkeeping
    ctx.count("boxes case")
    ctx.count(f"boxes: {min(len(expected), 4)}{'+' if len(expected) >= 4 else ''} representable")
    if n_bad:
        ctx.count("boxes: sequence contains a refused box")
    if any(len(v) > 255 for b in expected for v in b.values()):
        ctx.count("boxes: value > 255 bytes")
    if any(len(v) >= 65534 for b in expected for v in b.values()):
        ctx.count("boxes: value at 65534/65535")
    if any(len(k) >= 254 for b in expected for k in b):
        ctx.count("boxes: key at 254/255")
    if any(len(v) == 0 for b in expected for v in b.values()):
        ctx.count("boxes: empty value")
    if any(not b for b in expected):
        ctx.count("boxes: empty box")
    if in_prefix:
        ctx.count("boxes: cut inside a length prefix")
    if len(expected) >= 2 and in_prefix:
        ctx.nontrivial(("boxes", dumps(case["items"]), tuple(cuts[:64]), len(cuts)))
        ctx.count("nontrivial boxes")
        if len(stream) < 200 and len(cuts) < 10:
            ctx.sample(case)


# --------------------------------------------------------------------------
# arguments

def build_arg(amp, spec, optional=False):
    t = spec[0]
    if t == "int":
        return amp.Integer(optional=optional)
    if t == "str":
        return amp.String(optional=optional)
    if t == "uni":
        return amp.Unicode(optional=optional)
    if t == "float":
        return amp.Float(optional=optional)
    if t == "bool":
        return amp.Boolean(optional=optional)
    if t == "dec":
        return amp.Decimal(optional=optional)
    if t == "dt":
        return amp.DateTime(optional=optional)
    if t == "path":
        return amp.Path(optional=optional)
    if t == "list":
        return amp.ListOf(build_arg(amp, spec[1]), optional=optional)
    if t == "amplist":
        return amp.AmpList([(bytes(n), build_arg(amp, s, o)) for n, s, o in spec[1]], optional=optional)
    raise ValueError(spec)


def pyname(name):
    """Documented mapping of wire names to Python identifiers (dash -> underscore,
    keywords capitalised)."""
    s = name.decode("ascii").replace("-", "_")
    return s.title() if s in KEYWORDS else s


KEYWORDS = {"from", "class", "is", "in", "pass", "print", "exec", "def", "or", "not"}


def build_val(amp, spec, p):
    t = spec[0]
    if t in ("int", "str", "uni", "float", "bool"):
        return p
    if t == "dec":
        sign, digits, exp = p
        return decimal.Decimal((sign, tuple(int(c) for c in digits), exp))
    if t == "dt":
        y, mo, d, h, mi, s, us, off, tzk = p
        delta = datetime.timedelta(seconds=off)
        if tzk == "tw":
            from twisted.python._tzhelper import FixedOffsetTimeZone
            tz = FixedOffsetTimeZone(delta)
        elif tzk == "utc" and off == 0:
            tz = amp.utc
        else:
            tz = datetime.timezone(delta)
        return datetime.datetime(y, mo, d, h, mi, s, us, tzinfo=tz)
    if t == "path":
        from twisted.python.filepath import FilePath
        return FilePath(p)
    if t == "list":
        return [build_val(amp, spec[1], x) for x in p]
    if t == "amplist":
        rows = []
        for row in p:
            d = {}
            for (n, s, o), x in zip(spec[1], row):
                d[pyname(bytes(n))] = None if (o and x is None) else build_val(amp, s, x)
            rows.append(d)
        return rows
    raise ValueError(spec)


def fbits(x):
    return struct.pack("!d", x)


def same(spec, a, b):
    """None if b (decoded) equals a (encoded) in the sense of the statement,
    else (innermost type that differs, description)."""
    t = spec[0]
    r = _same(spec, a, b)
    if r is None:
        return None
    if isinstance(r, tuple):
        return r
    return (t, r)


def _same(spec, a, b):
    t = spec[0]
    if t == "int":
        return None if type(b) is int and a == b else f"int {a!r} -> {b!r}"
    if t == "str":
        return None if type(b) is bytes and a == b else f"bytes {a!r} -> {b!r}"
    if t == "uni":
        return None if type(b) is str and a == b else f"text {a!r} -> {b!r}"
    if t == "float":
        if type(b) is not float:
            return f"float -> {type(b).__name__}"
        if a != a:
            return None if b != b else f"nan -> {b!r}"
        return None if fbits(a) == fbits(b) else f"float {a!r} -> {b!r}"
    if t == "bool":
        return None if b is a else f"bool {a!r} -> {b!r}"
    if t == "dec":
        if not isinstance(b, decimal.Decimal):
            return f"Decimal -> {type(b).__name__}"
        return None if a.as_tuple() == b.as_tuple() else f"Decimal {a.as_tuple()} -> {b.as_tuple()}"
    if t == "dt":
        if not isinstance(b, datetime.datetime) or b.tzinfo is None:
            return f"datetime -> {b!r}"
        if a.replace(tzinfo=None) != b.replace(tzinfo=None):
            return f"datetime fields {a!r} -> {b!r}"
        oa, ob = a.utcoffset(), b.utcoffset()
        if oa.microseconds == 0 and oa.seconds % 60 == 0:
            return None if oa == ob else f"utcoffset {oa} -> {ob}"
        if ob.seconds % 60 or ob.microseconds:
            return f"decoded utcoffset {ob} not whole minutes"
        return None if abs(oa - ob) < datetime.timedelta(minutes=1) else f"utcoffset {oa} -> {ob}"
    if t == "path":
        if type(b) is not type(a):
            return f"FilePath -> {type(b).__name__}"
        return None if (a == b and a.path == b.path and type(b.path) is str) else f"path {a.path!r} -> {b.path!r}"
    if t == "list":
        if type(b) is not list or len(a) != len(b):
            return f"list of {len(a)} -> {str(b)[:200]}"
        for i, (x, y) in enumerate(zip(a, b)):
            r = same(spec[1], x, y)
            if r:
                return (r[0], f"[{i}] {r[1]}")
        return None
    if t == "amplist":
        if type(b) is not list or len(a) != len(b):
            return f"amplist of {len(a)} rows -> {str(b)[:200]}"
        for i, (x, y) in enumerate(zip(a, b)):
            if set(x) != set(y):
                return f"row {i} keys {sorted(x)} -> {sorted(y)}"
            for (n, s, o) in spec[1]:
                k = pyname(bytes(n))
                if x[k] is None:
                    if y[k] is not None:
                        return f"row {i}.{k}: None -> {y[k]!r}"
                    continue
                r = same(s, x[k], y[k])
                if r:
                    return (r[0], f"row {i}.{k}: {r[1]}")
        return None
    raise ValueError(spec)


def special(spec, p, depth=0):
    """Is the plain value `special` in the sense of the non-triviality rule?"""
    t = spec[0]
    if t == "int":
        return abs(p) >= 2 ** 64
    if t == "float":
        return p != p or p in (float("inf"), float("-inf")) or fbits(p) == fbits(-0.0) or (p != 0 and abs(p) < 2.3e-308)
    if t == "dec":
        return not isinstance(p[2], int) or p[2] != 0
    if t == "dt":
        return p[7] != 0
    if t in ("uni", "path"):
        return any(ord(c) > 127 for c in p)
    if t == "list":
        if depth >= 1 and len(p) > 0:
            return True
        return any(special(spec[1], x, depth + 1) for x in p)
    if t == "amplist":
        return len(p) >= 2
    return False


def tname(spec):
    t = spec[0]
    if t == "list":
        return "list<" + tname(spec[1]) + ">"
    return t


def all_types(spec, out):
    out.add(spec[0])
    if spec[0] == "list":
        all_types(spec[1], out)
    if spec[0] == "amplist":
        for n, s, o in spec[1]:
            all_types(s, out)
    return out


def run_arg(ctx, case):
    from twisted.protocols import amp
    spec, p = case["spec"], case["value"]
    arg = build_arg(amp, spec)
    obj = build_val(amp, spec, p)
    wire = arg.toStringProto(obj, None)
    if type(wire) is not bytes:
        ctx.violation(f"arg-{spec[0]}-encodes-to-nonbytes", case, repr(wire)[:200])
    back = arg.fromStringProto(wire, None)
    r = same(spec, obj, back)
    if r:
        ctx.violation(f"arg-{r[0]}-roundtrip", case, f"{r[1]}; wire={wire[:200]!r}")
    ctx.count("arg case")
    for t in sorted(all_types(spec, set())):
        ctx.count("arg type " + t)
    if special(spec, p):
        ctx.count("nontrivial arg")
        ctx.nontrivial(("arg", dumps(spec), dumps(p)))
        if len(dumps(p)) < 120:
            ctx.sample(case)


def mutate(wire, mut):
    """A malformed / foreign encoding derived from a valid one."""
    kind, x = mut
    if kind == "cut":
        return wire[:max(0, len(wire) - x)]
    if kind == "keep":
        return wire[:x]
    if kind == "append":
        return wire + bytes(x)
    if kind == "raw":
        return bytes(x)
    raise ValueError(mut)


def run_arghist(ctx, case):
    """One Argument object (they are shared, class-level schema objects) is
    used for a sequence of encodes/decodes.  Every round trip of a valid value
    must hold whatever the object was used for before -- including a decode of
    a cut-short or foreign string, whose own outcome is left unspecified."""
    from twisted.protocols import amp
    spec = case["spec"]
    arg = build_arg(amp, spec)
    junk_before = 0
    checked_after_junk = 0
    for i, step in enumerate(case["steps"]):
        obj = build_val(amp, spec, step[1])
        wire = arg.toStringProto(obj, None)
        if step[0] == "junk":
            bad = mutate(wire, step[2])
            if bad == wire:
                continue
            try:
                arg.fromStringProto(bad, None)
                ctx.count("arghist: malformed decode returned a value")
            except Exception as e:  # outcome of decoding a malformed string is not specified
                ctx.count("arghist: malformed decode raised " + type(e).__name__)
            junk_before += 1
            continue
        try:
            back = arg.fromStringProto(wire, None)
            r = same(spec, obj, back)
        except Exception as e:  # classified just below; re-raised unless history explains it
            back, r = e, ("raise", f"decoding a valid encoding raised {e!r}")
        if r:
            fresh = build_arg(amp, spec)
            r2 = same(spec, obj, fresh.fromStringProto(fresh.toStringProto(obj, None), None))
            if r2 is None:
                if r[0] == "raise":
                    r = (spec[0], r[1])
                ctx.violation(f"arg-{r[0]}-roundtrip-depends-on-history", case,
                              f"step {i} on a reused {tname(spec)} argument object: {r[1]}; a fresh object round-trips; "
                              f"{junk_before} malformed decode(s) before; wire={wire[:120]!r}")
            if isinstance(back, Exception):
                raise back
            ctx.violation(f"arg-{r[0]}-roundtrip", case, f"step {i}: {r[1]}; wire={wire[:200]!r}")
        if junk_before:
            checked_after_junk += 1
    ctx.count("arghist case")
    for t in sorted(all_types(spec, set())):
        ctx.count("arghist type " + t)
    if checked_after_junk:
        ctx.count("arghist: valid round trip after a malformed decode on the same object", checked_after_junk)
        ctx.count("nontrivial arghist")
        ctx.nontrivial(("arghist", dumps(spec), dumps(case["steps"])))


def run_cmd(ctx, case):
    from twisted.protocols import amp
    args = case["args"]
    schema = [(bytes(n), build_arg(amp, s, bool(o))) for n, s, o, p in args]
    Cmd = type(amp.Command)("GenCmd", (amp.Command,), dict(arguments=schema, commandName=b"gen"))
    objects = {}
    for n, s, o, p in args:
        if o and p is None:
            if case.get("omit_absent", True):
                continue
            objects[pyname(bytes(n))] = None
        else:
            objects[pyname(bytes(n))] = build_val(amp, s, p)
    box = Cmd.makeArguments(objects, None)
    model = dict(box)
    too_long = any(len(v) > MAXV for v in model.values())
    rcv0 = _Receiver()
    tr = _Transport()
    sender = amp.BinaryBoxProtocol(rcv0)
    sender.makeConnection(tr)
    try:
        sender.sendBox(box)
    except amp.TooLong:
        if not too_long:
            ctx.violation("cmd-representable-box-refused", case, str(model)[:300])
        if tr.value():
            ctx.violation("refused-box-wrote-bytes", case, "TooLong after writing")
        ctx.count("cmd: encoded argument too long (refused)")
        return
    if too_long:
        ctx.violation("overlong-value-not-refused", case, "argument encoding > 65535 bytes was sent")
    if not model:
        ctx.count("cmd: empty box")
    stream = tr.value()
    cuts, in_prefix, boxes = check_stream(ctx, amp, case, stream, [model], "cmd")
    back = Cmd.parseArguments(boxes[0], None)
    want_keys = set(pyname(bytes(n)) for n, s, o, p in args)
    if set(back) != want_keys:
        ctx.violation("cmd-argument-names", case, f"{sorted(back)} expected {sorted(want_keys)}")
    nt = False
    for n, s, o, p in args:
        k = pyname(bytes(n))
        if o and p is None:
            if back[k] is not None:
                ctx.violation("cmd-optional-absent-decoded", case, f"{k}: {back[k]!r}")
            ctx.count("cmd: optional argument absent")
            continue
        r = same(s, objects[k], back[k])
        if r:
            ctx.violation(f"arg-{r[0]}-roundtrip", case, f"via Command, argument {k}: {r[1]}")
        nt = nt or special(s, p)
        for t in sorted(all_types(s, set())):
            ctx.count("cmd arg type " + t)
    ctx.count("cmd case")
    if in_prefix:
        ctx.count("cmd: cut inside a length prefix")
    if nt and len(args) >= 2:
        ctx.count("nontrivial cmd")
        ctx.nontrivial(("cmd", dumps(args), tuple(cuts[:32])))


def run_case(ctx, case):
    kind = case["kind"]
    if kind == "boxes":
        return run_boxes(ctx, case)
    if kind == "arg":
        return run_arg(ctx, case)
    if kind == "cmd":
        return run_cmd(ctx, case)
    if kind == "arghist":
        return run_arghist(ctx, case)
    raise ValueError(kind)


# --------------------------------------------------------------------------
# generators

PATS = (b"\x00", b"a", b"\x00\x01", b"\xff", b"\x00\x00\x00\x01k\x00\x01v")


def fill(sizes):
    """Compact spec of a long byte string: pattern repeated up to n bytes."""
    if isinstance(sizes, (list, tuple)):
        sizes = st.sampled_from(list(sizes))
    return st.builds(lambda p, n: {"pat": p, "n": n}, st.sampled_from(PATS), sizes)


WELL_KNOWN = [b"_ask", b"_answer", b"_command", b"_error", b"_error_code", b"_error_description", b"a", b"\x00", b"\x00\x00"]

good_key = st.one_of(
    st.binary(min_size=1, max_size=6),
    st.binary(min_size=1, max_size=6),
    st.sampled_from(WELL_KNOWN),
    st.binary(min_size=1, max_size=40),
    fill([1, 2, 127, 128, 254, 255]),
)
good_value = st.one_of(
    st.binary(max_size=8),
    st.binary(max_size=8),
    st.binary(max_size=60),
    st.sampled_from([b"", b"\x00", b"\x00\x00", b"\x00\x01", b"\x00\x00\x00\x00", b"\x00\x01a\x00\x01b\x00\x00"]),
    fill([0, 1, 254, 255, 256, 257, 511, 512, 65534, 65535]),
    fill(st.integers(256, 65535)),
)
NB = st.one_of(
    st.builds(lambda v: {"nb": "str", "v": v}, st.text(alphabet="abc_é", max_size=4)),
    st.builds(lambda v: {"nb": "int", "v": v}, st.integers(0, 70000)),
    st.just({"nb": "none"}),
    st.builds(lambda v: {"nb": "float", "v": v}, st.sampled_from([0.0, 1.5])),
    st.builds(lambda v: {"nb": "list", "v": v}, st.binary(max_size=3)),
    st.builds(lambda v: {"nb": "tuple", "v": v}, st.binary(max_size=3)),
)
bad_key = st.one_of(
    st.just(b""), st.just(b""),
    fill([256, 257, 300, 65535, 65536]),
    st.binary(min_size=256, max_size=300),
    NB,
)
bad_value = st.one_of(
    fill([65536, 65537, 70000, 131072]),
    NB,
)
good_pair = st.tuples(good_key, good_value).map(list)
bad_pair = st.one_of(st.tuples(bad_key, good_value), st.tuples(good_key, bad_value)).map(list)
good_box = st.lists(good_pair, min_size=0, max_size=5)


@st.composite
def bad_box(draw):
    pre = draw(st.lists(good_pair, max_size=2))
    post = draw(st.lists(good_pair, max_size=2))
    return pre + [draw(bad_pair)] + post


def cuts_fields():
    return st.one_of(
        st.just(("whole", [])),
        st.just(("bytewise", [])),
        st.just(("inprefix", [])),
        st.tuples(st.lists(st.integers(1, 120), max_size=8), st.lists(st.integers(1, 9999), max_size=4)),
        st.tuples(st.lists(st.integers(1, 120), max_size=8), st.just([])),
    )


@st.composite
def boxes_case(draw):
    # roughly one sequence in five contains an unrepresentable box, so that
    # the search continues behind a (known) refusal defect
    with_bad = draw(st.integers(0, 4)) == 0
    items = draw(st.lists(good_box, min_size=1, max_size=5))
    if with_bad:
        pos = draw(st.integers(0, len(items)))
        items = items[:pos] + [draw(bad_box())] + items[pos:]
    cuts, fcuts = draw(cuts_fields())
    case = dict(kind="boxes", items=items, cuts=cuts)
    if fcuts:
        case["fcuts"] = fcuts
    if draw(st.integers(0, 2)) == 0:
        case["pause"] = dict(at=sorted(draw(st.sets(st.integers(1, 5), min_size=1, max_size=3))),
                             resume=draw(st.sampled_from(["after", "before", "end"])))
    return case


LEAVES = ["int", "str", "uni", "float", "bool", "dec", "dt", "path"]
NAME_ALPHABET = "abcxyz-"
NAMES = st.one_of(
    st.text(alphabet=NAME_ALPHABET, min_size=1, max_size=6).filter(lambda s: not s.startswith("-")),
    st.sampled_from(["from", "class", "is", "in", "pass", "print"]),
).map(lambda s: s.encode("ascii"))


def draw_spec(draw, depth=0, in_list=False):
    choices = list(LEAVES)
    if depth < 3:
        choices += ["list", "list"]
    if depth < 2 and not in_list:
        choices += ["amplist"]
    t = draw(st.sampled_from(choices))
    if t == "list":
        return ["list", draw_spec(draw, depth + 1, True)]
    if t == "amplist":
        names = draw(st.lists(NAMES, min_size=0, max_size=4, unique_by=lambda n: pyname(n)))
        return ["amplist", [[n, draw_spec(draw, depth + 1, False), draw(st.booleans())] for n in names]]
    return [t]


BIG = 2 ** 8000
int_values = st.one_of(
    st.integers(-1000, 1000),
    st.integers(-2 ** 70, 2 ** 70),
    st.integers(-BIG, BIG),
    st.sampled_from([0, -1, 2 ** 63, -2 ** 63, 2 ** 64, BIG, -BIG, 10 ** 2400, -10 ** 2400]),
)
float_values = st.one_of(
    st.floats(),
    st.sampled_from([float("nan"), float("inf"), float("-inf"), -0.0, 0.0, 5e-324, -5e-324,
                     2.2250738585072014e-308, 1.7976931348623157e308, 1e22, 1e16, 0.1, 1 / 3]),
)
digit_strings = st.one_of(st.text(alphabet="0123456789", min_size=1, max_size=30),
                          st.text(alphabet="0123456789", min_size=100, max_size=400))
dec_values = st.one_of(
    st.tuples(st.integers(0, 1), digit_strings,
              st.one_of(st.integers(-40, 40), st.integers(-10 ** 6, 10 ** 6), st.just(0))).map(list),
    st.tuples(st.integers(0, 1), st.just("0"), st.just("F")).map(list),
    st.tuples(st.integers(0, 1), st.one_of(st.just(""), st.text(alphabet="123456789", min_size=1, max_size=8)),
              st.sampled_from(["n", "N"])).map(list),
)


@st.composite
def dt_values(draw):
    d = draw(st.one_of(
        st.datetimes(min_value=datetime.datetime(1, 1, 1), max_value=datetime.datetime(9999, 12, 31, 23, 59, 59, 999999)),
        st.sampled_from([datetime.datetime(1, 1, 1), datetime.datetime(9999, 12, 31, 23, 59, 59, 999999),
                         datetime.datetime(2000, 2, 29, 12, 0, 0, 1), datetime.datetime(1970, 1, 1)])))
    kind = draw(st.integers(0, 9))
    if kind <= 1:
        off = 0
    elif kind <= 7:
        off = 60 * draw(st.one_of(st.integers(-1439, 1439), st.sampled_from([-1439, -60, -1, 1, 59, 60, 61, 330, 1439])))
    else:
        # sub-minute offsets: decoded "up to minute resolution".  Below
        # -23:59:00 they floor to -24:00, which no tzinfo can express.
        off = draw(st.integers(-86340, 86399))
    tzk = draw(st.sampled_from(["std", "tw", "utc"]))
    return [d.year, d.month, d.day, d.hour, d.minute, d.second, d.microsecond, off, tzk]


path_values = st.one_of(
    st.text(alphabet="ab/.é 中-_~", max_size=12),
    st.sampled_from(["/", "", ".", "..", "/a/b/", "a//b", "/tmp/é/\U0001f600", "rel/path", "/a/../b"]),
)


def draw_value(draw, spec):
    t = spec[0]
    if t == "int":
        return draw(int_values)
    if t == "str":
        return draw(st.one_of(st.binary(max_size=12), st.binary(max_size=200)))
    if t == "uni":
        return draw(st.one_of(st.text(max_size=10), st.text(alphabet="aé中\U0001f600\x00", max_size=6)))
    if t == "float":
        return draw(float_values)
    if t == "bool":
        return draw(st.booleans())
    if t == "dec":
        return draw(dec_values)
    if t == "dt":
        return draw(dt_values())
    if t == "path":
        return draw(path_values)
    if t == "list":
        n = draw(st.integers(0, 4))
        return [draw_value(draw, spec[1]) for _ in range(n)]
    if t == "amplist":
        n = draw(st.integers(0, 3))
        rows = []
        for _ in range(n):
            row = []
            for name, s, o in spec[1]:
                if o and draw(st.booleans()):
                    row.append(None)
                else:
                    row.append(draw_value(draw, s))
            rows.append(row)
        return rows
    raise ValueError(spec)


@st.composite
def arg_case(draw):
    spec = draw_spec(draw)
    return dict(kind="arg", spec=spec, value=draw_value(draw, spec))


MUTS = st.one_of(
    st.tuples(st.just("cut"), st.integers(1, 6)).map(list),
    st.tuples(st.just("keep"), st.integers(0, 12)).map(list),
    st.tuples(st.just("append"), st.one_of(st.binary(min_size=1, max_size=4),
                                           st.sampled_from([b"\x00", b"\x00\x05ab", b"\x00\x01"]))).map(list),
    st.tuples(st.just("raw"), st.binary(max_size=12)).map(list),
)


@st.composite
def arghist_case(draw):
    # containers first: they are the types that parse with helper objects
    if draw(st.integers(0, 3)) > 0:
        inner = draw_spec(draw, depth=1, in_list=draw(st.booleans()))
        spec = ["list", inner] if (inner[0] != "amplist" and draw(st.booleans())) else \
            ["amplist", [[b"a", inner, draw(st.booleans())], [b"b", ["int"], True]]]
    else:
        spec = draw_spec(draw)
    steps = []
    for _ in range(draw(st.integers(2, 5))):
        v = draw_value(draw, spec)
        if draw(st.integers(0, 4)) < 2:
            steps.append(["junk", v, draw(MUTS)])
        else:
            steps.append(["rt", v])
    return dict(kind="arghist", spec=spec, steps=steps)


@st.composite
def cmd_case(draw):
    names = draw(st.lists(NAMES, min_size=0, max_size=5, unique_by=lambda n: pyname(n)))
    args = []
    for n in names:
        spec = draw_spec(draw, depth=1)
        o = draw(st.booleans())
        p = None if (o and draw(st.integers(0, 2)) == 0) else draw_value(draw, spec)
        args.append([n, spec, o, p])
    cuts, fcuts = draw(cuts_fields())
    case = dict(kind="cmd", args=args, cuts=cuts, omit_absent=draw(st.booleans()))
    if fcuts:
        case["fcuts"] = fcuts
    return case


# fixed streams whose single and double cuts are enumerated completely
FIXED = [
    [[[b"a", b"b"]], [[b"_ask", b"1"], [b"_command", b"x"]], [[b"k", b""]]],
    [[], [[b"\x00", b"\x00\x00"]], [[b"ab", b"\x00\x01z\x00\x01y\x00\x00"]]],
    [[[b"k", {"pat": b"v", "n": 256}]], [[b"z", b"1"]]],
    [[[{"pat": b"K", "n": 255}, b"v"], [b"b", b"c"]], [], [[b"q", b"r"]]],
]


def _enum_cases(ctx):
    for items in FIXED:
        n = 0
        for box in items:
            for ks, vs in box:
                n += 4 + len(mk_bytes(ks)) + len(mk_bytes(vs))
            n += 2
        limit = ctx.pick(48, 400)
        singles = list(range(1, n))
        for c in singles:
            yield dict(kind="boxes", items=items, cuts=[c])
        # consumer back-pressure: pause after the k-th box, every resume
        # policy, stream whole and with every single cut
        for k in range(1, len(items) + 1):
            for mode in ("after", "before", "end"):
                yield dict(kind="boxes", items=items, cuts="whole", pause=dict(at=[k], resume=mode))
                for c in singles[:ctx.pick(60, 400)]:
                    yield dict(kind="boxes", items=items, cuts=[c], pause=dict(at=[k], resume=mode))
        yield dict(kind="boxes", items=items, cuts="whole", pause=dict(at=list(range(1, len(items) + 1)), resume="end"))
        head = [c for c in singles if c <= limit or c >= n - 8]
        for i, a in enumerate(head):
            for b in head[i + 1:]:
                yield dict(kind="boxes", items=items, cuts=[a, b])


def _hyp_shard(sub, i):
    hyp_run(sub, boxes_case(), run_case, 6000, label=f"boxes{i}")
    if sub.has_violation():
        return
    hyp_run(sub, arg_case(), run_case, 10000, label=f"arg{i}")
    if sub.has_violation():
        return
    hyp_run(sub, cmd_case(), run_case, 4000, label=f"cmd{i}")
    if sub.has_violation():
        return
    hyp_run(sub, arghist_case(), run_case, 6000, label=f"arghist{i}")


def run(ctx):
    enumerate_run(ctx, _enum_cases(ctx), run_case)
    ctx.extra["enumerated_fixed_streams"] = len(FIXED)
    if ctx.has_violation():
        return
    if ctx.thorough:
        ctx.shards(_hyp_shard, list(range(16)))
        return
    hyp_run(ctx, boxes_case(), run_case, 1500, label="boxes")
    if ctx.has_violation():
        return
    hyp_run(ctx, arg_case(), run_case, 3000, label="arg")
    if ctx.has_violation():
        return
    hyp_run(ctx, cmd_case(), run_case, 1000, label="cmd")
    if ctx.has_violation():
        return
    hyp_run(ctx, arghist_case(), run_case, 1200, label="arghist")
