"""C31 -- AMP call/answer matching under interleaving, late answers, errors
and connection loss at every byte boundary.

Two real `amp.AMP` peers are joined by a harness-owned wire.  A case is a
history (a plain list of operations) interpreted by `Harness`:

  ["call", side, cmd, behaviour, pad, chain]   callRemote from side A or B
  ["deliver", from_side, k]                    hand k bytes (0 = all) to the peer as one chunk
  ["dribble", from_side]                       hand everything over one byte at a time
  ["fire", side, j, outcome]                   resolve the j-th pending responder Deferred on `side`
  ["lose", side, kind]                         connectionLost(ConnectionDone|ConnectionLost) on one side
  ["resume", side]                             resumeProducing() on a side whose protocol was paused by a
                                               call with chain "pause" (in its result callback) or "rpause"
                                               (in its responder)

plus `loss_at = [n, who]`: connection loss injected when exactly n bytes (both
directions together) have been delivered.  `enum = True` runs the history once
without injected loss and then once per byte boundary and per victim.

The oracle does not look into BoxDispatcher.  It decodes the two recorded byte
streams with a reference decoder, pairs every command box with the call that
produced it, finds the answer/error box carrying that call's `_ask` tag, and
from the delivery timeline (which the harness owns) computes, for every call,
the step at which it must fire and what it must fire with.
"""
import struct

from hypothesis import strategies as st

from lib.core import hyp_run, enumerate_run, dumps

META = dict(
    property="C31",
    level="fault_enumeration",
    technique="op-list histories over two real AMP peers on a harness-owned wire; timeline oracle computed from the decoded wire; connection loss enumerated at every byte boundary of fixed and generated histories",
    level_text="Generated histories (calls of 5 command kinds from both peers, one of them a ProtocolSwitchCommand that completes, fails or stays pending while other calls are outstanding; responders that answer at once, later in any order, never, with declared, fatal-declared or undeclared errors, and with exceptions that are (direct or indirect) SUBCLASSES of a declared / fatal-declared error, which must reach the caller as that declared error; re-entrant follow-up calls from result callbacks; application back-pressure (pauseProducing on the AMP protocol from inside a responder or a result callback while more boxes of the same chunk are buffered, resumeProducing later with or without further bytes); chunked / byte-wise delivery; loss of either side at any op) are run against two real amp.AMP instances. For fixed scenario histories and for a sample of generated ones the loss is additionally injected at EVERY byte boundary of the whole exchange, for victim A, B and both. For each call the oracle derives from the recorded wire and delivery timeline the exact step and value it must fire with: own answer / own declared error / UnknownRemoteError / UnhandledCommand, else the loss reason object of its side at the loss step; calls after loss must have fired before callRemote returns. Responder invocations are checked the same way (exactly once, at the step the command box became complete).",
    level_note="Trusted: the in-memory transport (modelled on abstract.FileDescriptor: loseConnection stops reading, flushes, then both sides get ConnectionDone), the 25-line reference box decoder, the test-double responders. Protocol switching: only the fate of callRemote Deferreds is asserted (a side that is switching / has switched cannot send boxes, so calls it leaves unanswered must fail with the loss reason); callRemote on a locked side (documented to raise ProtocolSwitched) is not exercised, nor is the inner protocol's data. Not covered: TLS, responders returning unserialisable values, real sockets. Loss is enumerated per byte boundary of delivered data, not inside a single dataReceived call.",
    design_ref="§5 C31",
    rule="case = op list (+ loss point). non-trivial = at some step >=3 calls of one history were in flight, the answers reached a caller in an order different from the order of its calls, and a connection loss failed at least one pending call; distinct by (ops, loss_at).",
)

# --------------------------------------------------------------------------


def ref_decode(data):
    """[(box dict, end offset)], leftover -- from the BinaryBoxProtocol docstring."""
    out, cur, pos, n = [], {}, 0, len(data)
    while pos + 2 <= n:
        (kl,) = struct.unpack("!H", data[pos:pos + 2])
        if kl == 0:
            pos += 2
            out.append((cur, pos))
            cur = {}
            continue
        if kl > 255 or pos + 2 + kl + 2 > n:
            raise ValueError(f"bad key at {pos}")
        key = data[pos + 2:pos + 2 + kl]
        p = pos + 2 + kl
        (vl,) = struct.unpack("!H", data[p:p + 2])
        if p + 2 + vl > n:
            raise ValueError(f"truncated value at {p}")
        cur[key] = data[p + 2:p + 2 + vl]
        pos = p + 2 + vl
    if cur or pos != n:
        raise ValueError("stream ends inside a box")
    return out


_K = {}


def kit():
    """Commands and the peer protocol class (built once per process)."""
    if _K:
        return _K
    from twisted.protocols import amp

    class DeclaredA(Exception):
        pass

    class DeclaredB(Exception):
        pass

    class FatalE(Exception):
        pass

    class Boom(Exception):
        pass

    # Raising an instance of a SUBCLASS of a declared error is raising that
    # declared error (Failure.trap semantics; Command.errors docstring).
    class SubA(DeclaredA):
        pass

    class _MidB(DeclaredB):
        pass

    class SubB(_MidB):
        pass

    class SubFatal(FatalE):
        pass

    class Echo(amp.Command):
        commandName = b"echo"
        arguments = [(b"id", amp.Integer()), (b"pad", amp.String())]
        response = [(b"id", amp.Integer()), (b"who", amp.String())]
        errors = {DeclaredA: b"DECL_A", DeclaredB: b"DECL_B"}
        fatalErrors = {FatalE: b"FATAL"}

    class _OtherOnlyFatal(Exception):
        pass

    class _OtherBase(amp.Command):
        # round 4 (C31-7): Other INHERITS its FatalE declaration from a base Command and
        # declares a further fatal error of its own (Command error tables accumulate
        # along the class hierarchy: _CommandMeta / accumulateClassDict)
        fatalErrors = {FatalE: b"FATAL"}

    class Other(_OtherBase):
        commandName = b"other"
        arguments = [(b"id", amp.Integer()), (b"pad", amp.String())]
        response = [(b"val", amp.Unicode())]
        errors = {DeclaredA: b"OTHER_A", DeclaredB: b"DECL_B"}
        fatalErrors = {_OtherOnlyFatal: b"FATAL_OTHER"}

    class Quiet(amp.Command):
        commandName = b"quiet"
        arguments = [(b"id", amp.Integer()), (b"pad", amp.String())]
        response = []
        requiresAnswer = False

    class Unknown(amp.Command):
        commandName = b"nobody-home"
        arguments = [(b"id", amp.Integer()), (b"pad", amp.String())]
        response = [(b"id", amp.Integer())]

    from twisted.internet.protocol import Protocol

    class Inner(Protocol):
        """What a connection is switched to: records, never writes."""

        def __init__(self):
            self.received = []
            self.lost = []

        def dataReceived(self, data):
            self.received.append(data)

        def connectionLost(self, reason):
            self.lost.append(reason)

    class SwitchFactory:
        def __init__(self):
            self.events = []

        def buildProtocol(self, addr):
            self.events.append("build")
            return Inner()

        def clientConnectionFailed(self, connector, reason):
            self.events.append("failed")

        def clientConnectionLost(self, connector, reason):
            self.events.append("lost")

    class Switch(amp.ProtocolSwitchCommand):
        commandName = b"switch"
        arguments = [(b"id", amp.Integer()), (b"pad", amp.String())]
        errors = {DeclaredA: b"SW_A"}

    class Peer(amp.AMP):
        def __init__(self, h, side):
            amp.AMP.__init__(self)
            self.h = h
            self.side = side

        @Echo.responder
        def r_echo(self, id, pad):
            return self.h.responder(self.side, "echo", id, pad)

        @Other.responder
        def r_other(self, id, pad):
            return self.h.responder(self.side, "other", id, pad)

        @Quiet.responder
        def r_quiet(self, id, pad):
            return self.h.responder(self.side, "quiet", id, pad)

        @Switch.responder
        def r_switch(self, id, pad):
            return self.h.responder(self.side, "switch", id, pad)

    _K.update(amp=amp, DeclaredA=DeclaredA, DeclaredB=DeclaredB, FatalE=FatalE, Boom=Boom,
              SubA=SubA, SubB=SubB, SubFatal=SubFatal,
              Inner=Inner, SwitchFactory=SwitchFactory,
              cmds=dict(echo=Echo, other=Other, quiet=Quiet, unknown=Unknown, switch=Switch), Peer=Peer)
    return _K


OTHER = {"A": "B", "B": "A"}
# outcome -> (declared outcome it counts as, class the CALLER must see)
DECLARED = {"declA": ("declA", "DeclaredA"), "declB": ("declB", "DeclaredB"), "fatal": ("fatal", "FatalE"),
            "subA": ("declA", "DeclaredA"), "subB": ("declB", "DeclaredB"), "subFatal": ("fatal", "FatalE")}
ERR_CODES = {("echo", "declA"): b"DECL_A", ("echo", "declB"): b"DECL_B", ("echo", "fatal"): b"FATAL",
             ("other", "declA"): b"OTHER_A", ("other", "declB"): b"DECL_B", ("other", "fatal"): b"FATAL",
             ("switch", "declA"): b"SW_A"}


class _Transport:
    def __init__(self, h, side):
        self.h = h
        self.side = side
        self.disconnecting = False

    def write(self, data):
        s = self.h.sides[self.side]
        if s.lost:
            return
        s.out += data

    def writeSequence(self, seq):
        for d in seq:
            self.write(d)

    def loseConnection(self):
        s = self.h.sides[self.side]
        if not s.lost:
            s.closing = True
            self.disconnecting = True

    def abortConnection(self):
        self.loseConnection()

    # the AMP protocol is an IPushProducer: pausing it pauses the transport
    def pauseProducing(self):
        pass

    def resumeProducing(self):
        pass

    def stopProducing(self):
        pass

    def getPeer(self):
        return "peer-of-" + self.side

    def getHost(self):
        return self.side


class _Side:
    def __init__(self):
        self.out = bytearray()       # everything this side wrote
        self.sent = 0                # bytes of `out` handed to the peer
        self.timeline = []           # (step, sent) after each chunk
        # what the PEER has processed of `out`: (step, sent, pause trigger) after
        # every pass of the peer's parser (a delivery or a resumeProducing)
        self.proc_events = []
        self.paused = False          # this side's protocol was paused by its application
        self.lost = False
        self.lost_t = None
        self.lost_exc = None
        self.closing = False
        self.proto = None
        self.pending = []            # call ids whose responder returned an unfired Deferred
        # Protocol switching.  A side is `locked` (may not send AMP boxes: its
        # answers are dropped, callRemote raises ProtocolSwitched) from the
        # moment it asks for a switch until that request fails, and for good
        # once it has sent / received a successful switch answer.
        self.locked = False
        self.switched = False
        self.lock_log = []           # (event number, step, locked?)


class Call:
    __slots__ = ("id", "side", "cmd", "beh", "pad", "chain", "t", "after_loss", "fired",
                 "sync", "outcome", "resolved_t", "resolved_ev", "deferred", "is_chain")

    def __init__(self, **kw):
        for k in self.__slots__:
            setattr(self, k, kw.get(k))


class Harness:
    def __init__(self, case):
        self.k = kit()
        self.case = case
        self.t = 0
        self.sides = {"A": _Side(), "B": _Side()}
        self.calls = []
        self.by_id = {}
        self.invocations = []        # (step, side, cmd, id, pad)
        self.total_delivered = 0
        la = case.get("loss_at")
        self.loss_at = list(la) if la else None
        self.max_inflight = 0
        self.cb_errors = []
        self.ev = 0                  # finer clock than `t`: orders events inside one step
        self.pass_side = None        # side whose parser is running right now
        self.pass_trigger = None     # ("cmd"|"ans", call id) of the box whose processing paused it
        self.used_pause = False
        self.used_switch = False
        self.resume_steps = set()
        self.skipped_locked = 0
        for name in "AB":
            p = self.k["Peer"](self, name)
            self.sides[name].proto = p
            p.makeConnection(_Transport(self, name))

    # -- responders ---------------------------------------------------------
    def result_for(self, call, outcome):
        """What the responder of `call` returns / raises for `outcome`."""
        k = self.k
        if outcome == "ok":
            if call.cmd == "echo":
                return dict(id=call.id, who=OTHER[call.side].encode())
            if call.cmd == "other":
                return dict(val="r%d" % call.id)
            if call.cmd == "switch":
                return k["Inner"]()
            return {}
        if outcome == "declA":
            return k["DeclaredA"]("decl-a-%d" % call.id)
        if outcome == "declB":
            return k["DeclaredB"]("decl-b-%d" % call.id)
        if outcome == "fatal":
            return k["FatalE"]("fatal-%d" % call.id)
        if outcome == "subA":
            return k["SubA"]("sub-a-%d" % call.id)
        if outcome == "subB":
            return k["SubB"]("sub-b-%d" % call.id)
        if outcome == "subFatal":
            return k["SubFatal"]("sub-fatal-%d" % call.id)
        if outcome == "boom":
            return k["Boom"]("boom-%d" % call.id)
        raise ValueError(outcome)

    def responder(self, side, cmd, id, pad):
        try:
            self.invocations.append((self.t, side, cmd, id, pad))
            call = self.by_id.get(id)
            if call is None or call.cmd != cmd or call.deferred is not None or call.outcome is not None:
                return {}                   # the oracle reports the stray / repeated invocation
            if call.chain == "rpause":
                self.do_pause(side, "cmd", call)
            if call.beh in ("later", "never"):
                from twisted.internet.defer import Deferred
                call.deferred = Deferred()
                self.sides[side].pending.append(call.id)
                return call.deferred
            call.outcome = call.beh
            call.resolved_t = self.t
            call.resolved_ev = self.tick()
            r = self.result_for(call, call.beh)
            self.note_switch_answer(side, call, call.beh)
        except Exception as e:  # harness bug: must not vanish inside maybeDeferred
            self.cb_errors.append(e)
            raise
        if isinstance(r, Exception):
            raise r
        return r

    # -- operations ---------------------------------------------------------
    def step(self):
        self.t += 1

    def tick(self):
        self.ev += 1
        return self.ev

    def set_lock(self, side, state):
        s = self.sides[side]
        s.locked = state
        s.lock_log.append((self.tick(), self.t, state))

    def note_switch_answer(self, side, call, outcome):
        """The responder side switches as soon as it has sent a successful
        switch answer -- which it can only do while it may still send boxes."""
        s = self.sides[side]
        if call.cmd == "switch" and outcome == "ok" and not s.locked and not s.lost:
            s.switched = True
            self.set_lock(side, True)

    def do_call(self, side, cmd, beh, pad, chain, is_chain=False):
        s = self.sides[side]
        if s.locked and (not s.lost or cmd == "switch"):
            # callRemote is documented to raise ProtocolSwitched here (and a
            # second switch request on an already switched connection fails
            # with ProtocolSwitched even after the loss); that is not part of
            # this property, so such calls are simply not made.
            self.skipped_locked += 1
            return
        if cmd == "switch":
            if self.used_pause:
                # pausing and protocol switching are kept apart: data buffered
                # by a paused parser would be handed to the switched-to protocol
                self.skipped_locked += 1
                return
            self.used_switch = True
        call = Call(id=len(self.calls) + 1, side=side, cmd=cmd, beh=beh, pad=pad, chain=chain,
                    t=self.t, after_loss=s.lost, fired=[], is_chain=is_chain)
        self.calls.append(call)
        self.by_id[call.id] = call
        padb = (b"p%d." % call.id) * (pad // 3 + 1)
        if cmd == "switch":
            d = s.proto.callRemote(self.k["cmds"][cmd], self.k["SwitchFactory"](), id=call.id, pad=padb[:pad])
            if not s.lost:
                self.set_lock(side, True)
        else:
            d = s.proto.callRemote(self.k["cmds"][cmd], id=call.id, pad=padb[:pad])
        if cmd == "quiet":
            call.sync = d
            return
        call.sync = None

        def ok(res, call=call):
            call.fired.append((self.t, "ok", res))
            if call.cmd == "switch":
                self.sides[call.side].switched = True      # and it stays locked
            self.follow(call)

        def err(f, call=call):
            call.fired.append((self.t, "err", f))
            if call.cmd == "switch" and not call.after_loss:
                self.set_lock(call.side, False)            # a failed request unlocks
            self.follow(call)
        # (follow() keeps exceptions out of the Deferred: see cb_errors)

        d.addCallbacks(ok, err)
        call.sync = len(call.fired)
        inflight = sum(1 for c in self.calls if c.cmd != "quiet" and not c.fired)
        self.max_inflight = max(self.max_inflight, inflight)

    def do_pause(self, side, kind, call):
        """Application back-pressure: pauseProducing() on this side's AMP
        protocol from inside the processing of a box (a responder invocation
        or a result callback)."""
        s = self.sides[side]
        if s.lost or s.paused or self.used_switch or self.pass_side != side:
            return
        self.used_pause = True
        s.paused = True
        s.proto.pauseProducing()
        if self.pass_trigger is None:
            self.pass_trigger = (kind, call.id)

    def do_resume(self, side):
        s = self.sides[side]
        if not s.paused or s.lost:
            return
        sender = self.sides[OTHER[side]]
        self.step()
        self.resume_steps.add(self.t)
        s.paused = False
        self.pass_side, self.pass_trigger = side, None
        s.proto.resumeProducing()
        sender.proc_events.append((self.t, sender.sent, self.pass_trigger))
        self.pass_side = None
        self.settle()

    def follow(self, call):
        if call.chain == "pause" and len(call.fired) == 1:
            try:
                self.do_pause(call.side, "ans", call)
            except Exception as e:  # re-raised in run()
                self.cb_errors.append(e)
            return
        if call.chain == "echo" and len(call.fired) == 1:
            # An exception here would be swallowed by the Deferred we are
            # running in; keep it and re-raise it at the end of the history.
            try:
                self.do_call(call.side, "echo", "ok", 0, None, is_chain=True)
            except Exception as e:  # re-raised in run()
                self.cb_errors.append(e)

    def chunk(self, frm, n):
        """Hand n bytes of frm's output to the peer as one dataReceived."""
        s = self.sides[frm]
        r = self.sides[OTHER[frm]]
        data = bytes(s.out[s.sent:s.sent + n])
        self.step()
        s.sent += len(data)
        self.total_delivered += len(data)
        s.timeline.append((self.t, s.sent))
        self.pass_side, self.pass_trigger = OTHER[frm], None
        r.proto.dataReceived(data)
        s.proc_events.append((self.t, s.sent, self.pass_trigger))
        self.pass_side = None
        self.settle()

    def deliverable(self, frm):
        s = self.sides[frm]
        r = self.sides[OTHER[frm]]
        if r.lost or r.closing or r.paused:
            return 0
        return len(s.out) - s.sent

    def do_deliver(self, frm, k, bytewise=False):
        while True:
            self.maybe_inject()
            avail = self.deliverable(frm)
            if avail <= 0:
                return
            n = 1 if bytewise else (avail if k == 0 else min(k, avail))
            if self.loss_at is not None and self.total_delivered + n > self.loss_at[0]:
                n = self.loss_at[0] - self.total_delivered
            self.chunk(frm, n)
            if not bytewise:
                if k:
                    k -= n
                    if k <= 0:
                        self.maybe_inject()
                        return
                # k == 0: loop until everything deliverable has been handed over

    def maybe_inject(self):
        if self.loss_at is not None and self.total_delivered >= self.loss_at[0]:
            who = self.loss_at[1]
            self.loss_at = None
            for side in who:
                self.do_lose(side, "lost")

    def do_lose(self, side, kind):
        s = self.sides[side]
        if s.lost:
            return
        from twisted.internet import error
        from twisted.python.failure import Failure
        exc = error.ConnectionDone("done-" + side) if kind == "done" else error.ConnectionLost("lost-" + side)
        self.step()
        s.lost = True
        s.lost_t = self.t
        s.lost_exc = exc
        s.proto.connectionLost(Failure(exc))
        self.settle()

    def settle(self):
        """A side that asked to close is closed once its output is flushed (or
        can never be flushed); its peer then sees the connection end too."""
        for name in "AB":
            s = self.sides[name]
            peer = self.sides[OTHER[name]]
            if s.closing and not s.lost and (s.sent >= len(s.out) or peer.lost):
                self.do_lose(name, "done")
                self.do_lose(OTHER[name], "done")

    def do_fire(self, side, j, outcome):
        s = self.sides[side]
        if not s.pending:
            return
        cid = s.pending.pop(j % len(s.pending))
        call = self.by_id[cid]
        if call.cmd == "quiet" and outcome in DECLARED:
            outcome = "boom"
        if call.cmd == "switch" and outcome in DECLARED:
            outcome = "declA"
        self.step()
        call.outcome = outcome
        call.resolved_t = self.t
        call.resolved_ev = self.tick()
        r = self.result_for(call, outcome)
        self.note_switch_answer(side, call, outcome)
        if isinstance(r, Exception):
            call.deferred.errback(r)
        else:
            call.deferred.callback(r)
        self.settle()

    def run(self):
        for op in self.case["ops"]:
            self.maybe_inject()
            kind = op[0]
            if kind == "call":
                _, side, cmd, beh, pad, chain = op
                if cmd in ("quiet", "unknown") and beh in DECLARED:
                    beh = "boom" if cmd == "quiet" else "ok"
                if cmd == "switch" and beh in DECLARED:
                    beh = "declA"
                self.step()
                self.do_call(side, cmd, beh, pad, chain)
                self.settle()
            elif kind == "deliver":
                self.do_deliver(op[1], op[2])
            elif kind == "dribble":
                self.do_deliver(op[1], 0, bytewise=True)
            elif kind == "fire":
                self.do_fire(op[1], op[2], op[3])
            elif kind == "lose":
                self.do_lose(op[1], op[2])
            elif kind == "resume":
                self.do_resume(op[1])
            else:
                raise ValueError(op)
        self.maybe_inject()
        self.loss_at = None
        # the history always ends with both sides losing the connection
        self.do_lose("A", "lost")
        self.do_lose("B", "lost")
        if self.cb_errors:
            raise self.cb_errors[0]


# --------------------------------------------------------------------------
# oracle

def first_reaching(timeline, offset):
    for t, sent in timeline:
        if sent >= offset:
            return t
    return None


def describe(k, kind, val):
    """Classify an observed callRemote result."""
    amp = k["amp"]
    if kind == "ok":
        return ("ok", val)
    v = val.value
    for name in ("DeclaredA", "DeclaredB", "FatalE"):
        if type(v) is k[name]:
            return (name, v.args)
    if type(v) is amp.UnknownRemoteError:
        return ("UnknownRemoteError", v.description)
    if type(v) is amp.UnhandledCommand:
        return ("UnhandledCommand", None)
    return ("exc", v)


def locked_at(side, ev):
    state = False
    for e, t, st_ in side.lock_log:
        if e <= ev:
            state = st_
    return state


def judge(ctx, case, h):
    k = h.k
    V = ctx.violation
    streams = {}
    for name in "AB":
        try:
            streams[name] = ref_decode(bytes(h.sides[name].out))
        except ValueError as e:
            V("wire-not-decodable", case, f"side {name}: {e}")
    answers_seen = {"A": [], "B": []}        # order in which answers reached each caller
    # Where each call's command box and answer box end on the wire, then, per
    # direction, how far the receiving parser had got after each of its passes:
    # a pass that was paused from inside the processing of a box stops there.
    cmd_end, ans_end = {}, {}
    for X in "AB":
        boxes = [(b, e) for b, e in streams[X] if b"_command" in b]
        live_ = [c for c in h.calls if c.side == X and not c.after_loss]
        for c, (b, e) in zip(live_, boxes):
            cmd_end[c.id] = e
            tg = b.get(b"_ask")
            if tg is not None:
                for b2, e2 in streams[OTHER[X]]:
                    if b2.get(b"_answer") == tg or b2.get(b"_error") == tg:
                        ans_end.setdefault(c.id, e2)
    proc = {}
    for X in "AB":
        proc[X] = []
        for t, sent, trig in h.sides[X].proc_events:
            upto = sent
            if trig is not None:
                upto = (cmd_end if trig[0] == "cmd" else ans_end).get(trig[1], sent)
            proc[X].append((t, upto))
    for X in "AB":
        Y = OTHER[X]
        sx, sy = h.sides[X], h.sides[Y]
        cmd_boxes = [(b, e) for b, e in streams[X] if b"_command" in b]
        mine = [c for c in h.calls if c.side == X]
        live = [c for c in mine if not c.after_loss]
        # calls made after the loss: nothing written, failed before callRemote returned
        for c in mine:
            if c.after_loss and c.cmd != "quiet":
                if c.sync != 1 or len(c.fired) != 1:
                    V("call-after-loss-not-immediate", case,
                      f"call {c.id} from {X} after its connectionLost: fired {len(c.fired)} time(s), {c.sync} before callRemote returned")
                kind, val = c.fired[0][1], c.fired[0][2]
                if kind != "err" or val.value is not sx.lost_exc:
                    V("call-after-loss-wrong-reason", case, f"call {c.id}: {describe(k, kind, val)} instead of {sx.lost_exc!r}")
            if c.after_loss and c.cmd == "quiet" and c.sync is not None:
                V("quiet-call-returned-something", case, repr(c.sync))
        if len(cmd_boxes) != len(live):
            V("command-box-count", case, f"side {X}: {len(live)} calls while connected, {len(cmd_boxes)} command boxes on the wire")
        tags = {}
        for c, (box, end) in zip(live, cmd_boxes):
            name = k["cmds"][c.cmd].commandName
            if box.get(b"_command") != name or box.get(b"id") != b"%d" % c.id or len(box.get(b"pad", b"")) != c.pad:
                V("command-box-content", case, f"call {c.id} ({c.cmd}) went out as {box}")
            if c.cmd == "quiet":
                if b"_ask" in box:
                    V("ask-on-no-answer-command", case, str(box))
            else:
                tag = box.get(b"_ask")
                if tag is None:
                    V("ask-missing", case, str(box))
                if tag in tags:
                    V("ask-tag-reused", case, f"calls {tags[tag]} and {c.id} from {X} both use _ask={tag!r}")
                tags[tag] = c.id
            # responder
            ta = first_reaching(proc[X], end)
            inv = [i for i in h.invocations if i[3] == c.id]
            want_inv = [] if (ta is None or c.cmd == "unknown") else [(ta, Y, c.cmd, c.id, box.get(b"pad"))]
            if inv != want_inv:
                V("responder-invocation", case, f"call {c.id} ({c.cmd}): responder invocations {inv}, expected {want_inv}")
            if c.cmd == "quiet":
                continue
            # when and how was it answered?
            if c.cmd == "unknown":
                outcome, tr = ("unhandled", ta)
            else:
                outcome, tr = c.outcome, c.resolved_t
            alive = tr is not None and (sy.lost_t is None or tr < sy.lost_t)
            ans = [(b, e) for b, e in streams[Y] if b.get(b"_answer") == tag or b.get(b"_error") == tag]
            if c.cmd == "unknown":
                # no harness event marks the moment of this answer: if Y's
                # right to send boxes changed during that very step, either
                # outcome is accepted and the wire decides
                if alive and any(t == ta for e, t, st_ in sy.lock_log):
                    if len(ans) > 1:
                        V("answer-box-count", case, f"call {c.id}: {len(ans)} answers")
                    answered = bool(ans)
                else:
                    before = [st_ for e, t, st_ in sy.lock_log if t < (ta or 0)]
                    answered = alive and not (before[-1] if before else False)
            else:
                # a side that is switching / has switched protocols cannot send boxes
                answered = alive and not locked_at(sy, c.resolved_ev)
            if len(ans) != (1 if answered else 0):
                V("answer-box-count", case,
                  f"call {c.id} tag {tag!r}: {len(ans)} answer/error boxes from {Y}, expected {1 if answered else 0} (outcome {outcome} at step {tr}, {Y} lost at {sy.lost_t})")
            tb = None
            if answered:
                abox, aend = ans[0]
                if outcome == "ok":
                    good = b"_answer" in abox and b"_error" not in abox
                elif outcome == "boom":
                    good = abox.get(b"_error_code") == b"UNKNOWN"
                elif outcome == "unhandled":
                    good = abox.get(b"_error_code") == b"UNHANDLED"
                else:
                    good = abox.get(b"_error_code") == ERR_CODES[(c.cmd, DECLARED[outcome][0])]
                if not good:
                    V("answer-box-content", case, f"call {c.id} outcome {outcome}: box {abox}")
                tb = first_reaching(proc[Y], aend)
            # expected firing
            if tb is not None:
                if outcome == "ok":
                    res = h.result_for(c, "ok")
                    if c.cmd == "echo":
                        res = dict(id=res["id"], who=res["who"])
                    if c.cmd == "switch":
                        res = {}
                    want = ("ok", res)
                elif outcome in DECLARED:
                    want = (DECLARED[outcome][1],
                            h.result_for(c, outcome).args)
                elif outcome == "boom":
                    want = ("UnknownRemoteError", "Unknown Error")
                else:
                    want = ("UnhandledCommand", None)
                want_t = tb
                answers_seen[X].append((tb, aend, c.id))
            else:
                want = ("loss", sx.lost_exc)
                want_t = sx.lost_t
            if len(c.fired) == 0:
                V("call-never-fired", case, f"call {c.id} ({c.cmd}/{c.beh}) from {X}: expected {want[0]} at step {want_t}")
            if len(c.fired) > 1:
                V("call-fired-twice", case, f"call {c.id}: {[(t, describe(k, a, b)[0]) for t, a, b in c.fired]}")
            ft, fkind, fval = c.fired[0]
            got = describe(k, fkind, fval)
            if want[0] == "loss":
                if not (fkind == "err" and fval.value is want[1]):
                    V(f"call-result:loss->{got[0]}", case,
                      f"call {c.id} ({c.cmd}) from {X} was unanswered at the loss of {X}; got {got} instead of {want[1]!r}")
            elif got[0] != want[0]:
                other = got[0] if not (fkind == "err" and fval.value in (sx.lost_exc, sy.lost_exc)) else "loss"
                V(f"call-result:{want[0]}->{other}", case, f"call {c.id} ({c.cmd}) from {X}: got {got}, expected {want}")
            elif got[1] != want[1]:
                V("call-got-foreign-payload", case, f"call {c.id} ({c.cmd}) from {X}: got {got}, expected {want}")
            if ft != want_t:
                V("call-fired-at-wrong-step", case, f"call {c.id}: fired at step {ft}, expected step {want_t} ({want[0]})")
            if c.sync:
                V("call-fired-synchronously", case, f"call {c.id} had fired before callRemote returned")
        # answer boxes that answer nothing
        for b, e in streams[Y]:
            t = b.get(b"_answer", b.get(b"_error"))
            if t is not None and t not in tags:
                V("answer-to-nothing", case, f"{Y} sent {b}")
    for b, e in streams["A"] + streams["B"]:
        if not (b"_command" in b or b"_answer" in b or b"_error" in b):
            V("unclassifiable-box", case, str(b))
    stray = [i for i in h.invocations if i[3] not in h.by_id]
    if stray:
        V("responder-invocation", case, f"invocations for unknown ids {stray}")
    return answers_seen


def one_run(ctx, case, count=True):
    h = Harness(case)
    h.run()
    seen = judge(ctx, case, h)
    if not count:
        return h
    # bookkeeping
    ctx.count("runs")
    live = [c for c in h.calls if c.cmd != "quiet"]
    out_of_order = False
    for X in "AB":
        order = [cid for _, _, cid in sorted(seen[X])]
        if order != sorted(order):
            out_of_order = True
    loss_failed = [c for c in live if not c.after_loss and c.fired and c.fired[0][1] == "err"
                   and c.fired[0][2].value is h.sides[c.side].lost_exc]
    if out_of_order:
        ctx.count("answers out of call order")
    if loss_failed:
        ctx.count("loss failed >=1 pending call")
    if any(c.after_loss for c in h.calls):
        ctx.count("call after loss")
    if any(c.is_chain for c in h.calls):
        ctx.count("re-entrant follow-up call")
    if any(c.is_chain and c.after_loss for c in h.calls):
        ctx.count("re-entrant call from a loss errback")
    if h.max_inflight >= 3:
        ctx.count("in flight >= 3")
    for c in live:
        if c.fired:
            d = describe(h.k, c.fired[0][1], c.fired[0][2])[0]
            if c.fired[0][1] == "err" and c.fired[0][2].value in (h.sides["A"].lost_exc, h.sides["B"].lost_exc):
                d = "loss"
            ctx.count("result " + d)
    if any(c.cmd == "switch" for c in h.calls):
        ctx.count("runs with a protocol switch request")
    done = [c for c in h.calls if c.cmd == "switch" and c.fired and c.fired[0][1] == "ok"]
    if done or any(s.switched for s in h.sides.values()):
        ctx.count("runs with a completed protocol switch")
        stranded = [c for c in loss_failed if any(c.t <= sw.fired[0][0] for sw in done) or not done]
        if stranded:
            ctx.count("runs: calls outstanding across a completed switch, failed by the loss")
            ctx.count("calls outstanding across a completed switch, failed by the loss", len(stranded))
    if h.skipped_locked:
        ctx.count("calls not made because the side was locked by a switch", h.skipped_locked)
    if h.used_pause:
        ctx.count("runs where the application paused an AMP protocol from inside box processing")
        late = [c for c in h.calls if c.fired and c.fired[0][0] in h.resume_steps and c.fired[0][1] is not None
                and not (c.fired[0][1] == "err" and c.fired[0][2].value in (h.sides["A"].lost_exc, h.sides["B"].lost_exc))]
        inv_late = [i for i in h.invocations if i[0] in h.resume_steps]
        if late or inv_late:
            ctx.count("runs where buffered boxes were processed by resumeProducing alone")
            ctx.count("answers / commands processed by resumeProducing alone", len(late) + len(inv_late))
    nsub = sum(1 for c in live if c.outcome in ("subA", "subB", "subFatal"))
    if nsub:
        ctx.count("runs with a responder raising a subclass of a declared error")
        ctx.count("subclass-of-declared errors raised", nsub)
        ctx.count("subclass-of-declared errors delivered to the caller",
                  sum(1 for c in live if c.outcome in ("subA", "subB", "subFatal") and c.fired
                      and c.fired[0][1] == "err" and type(c.fired[0][2].value).__name__ in ("DeclaredA", "DeclaredB", "FatalE")))
    if any(s.closing for s in h.sides.values()):
        ctx.count("a peer closed the connection itself (QuitBox / unhandledError)")
    ctx.count("calls", len(h.calls))
    if h.max_inflight >= 3 and out_of_order and loss_failed:
        ctx.count("nontrivial")
        ctx.nontrivial(dumps([case["ops"], case.get("loss_at")]))
        if len(case["ops"]) <= 14:
            ctx.sample(case)
    return h


def run_case(ctx, case):
    if not case.get("enum"):
        one_run(ctx, case)
        return
    base = dict(ops=case["ops"])
    h = one_run(ctx, base)
    total = h.total_delivered
    ctx.count("histories with loss at every byte boundary")
    for n in range(0, total + 1):
        for who in ("A", "B", "AB"):
            ctx.case()
            ctx.count("injected-loss runs")
            one_run(ctx, dict(ops=case["ops"], loss_at=[n, who]))


# --------------------------------------------------------------------------
# generators

SIDES = st.sampled_from(["A", "B"])
CMDS = st.sampled_from(["echo", "echo", "echo", "other", "other", "other", "quiet", "unknown", "switch"])
BEHS = st.sampled_from(["ok", "ok", "later", "later", "later", "never", "declA", "declB", "fatal", "boom",
                        "subA", "subB", "subFatal"])
OUTCOMES = st.sampled_from(["ok", "ok", "ok", "declA", "declB", "fatal", "boom", "subA", "subB", "subFatal"])
PADS = st.one_of(st.integers(0, 12), st.sampled_from([0, 1, 40, 300]))
CHAIN = st.sampled_from([None, None, None, None, None, None, "echo", "echo", "pause", "rpause"])

call_op = st.tuples(st.just("call"), SIDES, CMDS, BEHS, PADS, CHAIN).map(list)
deliver_op = st.one_of(
    st.tuples(st.just("deliver"), SIDES, st.sampled_from([0, 0, 0, 1, 2, 3, 5, 8, 13, 21, 34, 55])).map(list),
    st.tuples(st.just("deliver"), SIDES, st.integers(1, 120)).map(list),
    st.tuples(st.just("dribble"), SIDES).map(list),
)
fire_op = st.tuples(st.just("fire"), SIDES, st.integers(0, 5), OUTCOMES).map(list)
lose_op = st.tuples(st.just("lose"), SIDES, st.sampled_from(["done", "lost"])).map(list)
resume_op = st.tuples(st.just("resume"), SIDES).map(list)


@st.composite
def burst(draw):
    """n calls from one side answered later in a generated order."""
    side = draw(SIDES)
    n = draw(st.integers(2, 5))
    ops = []
    for _ in range(n):
        ops.append(["call", side, draw(st.sampled_from(["echo", "other"])),
                    draw(st.sampled_from(["later", "later", "later", "ok", "never", "declA", "subA"])),
                    draw(PADS), draw(CHAIN)])
        if draw(st.integers(0, 3)) == 0:
            ops.append(["call", OTHER[side], "echo", draw(BEHS), draw(PADS), None])
    ops.append(["deliver", side, 0])
    for _ in range(draw(st.integers(0, n))):
        ops.append(["fire", OTHER[side], draw(st.integers(0, 5)), draw(OUTCOMES)])
        if draw(st.integers(0, 2)) == 0:
            ops.append(draw(deliver_op))
    ops.append(draw(st.sampled_from([["deliver", OTHER[side], 0], ["dribble", OTHER[side]],
                                     ["deliver", OTHER[side], 30], ["lose", side, "lost"]])))
    return ops


@st.composite
def switch_scene(draw):
    """Calls left outstanding in both directions, then a protocol switch."""
    side = draw(SIDES)
    ops = []
    for _ in range(draw(st.integers(1, 3))):
        ops.append(["call", draw(SIDES), draw(st.sampled_from(["echo", "other"])),
                    draw(st.sampled_from(["later", "later", "never", "ok"])), draw(PADS), draw(CHAIN)])
    if draw(st.booleans()):
        ops += [["deliver", "A", 0], ["deliver", "B", 0]]
    ops.append(["call", side, "switch", draw(st.sampled_from(["ok", "ok", "later", "declA", "boom", "never"])),
                draw(PADS), draw(CHAIN)])
    ops.append(draw(st.sampled_from([["deliver", side, 0], ["dribble", side], ["deliver", side, 40]])))
    for _ in range(draw(st.integers(0, 3))):
        ops.append(draw(st.one_of(fire_op, deliver_op, call_op)))
    ops.append(draw(st.sampled_from([["deliver", OTHER[side], 0], ["dribble", OTHER[side]], ["lose", side, "lost"],
                                     ["lose", OTHER[side], "done"]])))
    return ops


@st.composite
def pause_scene(draw):
    """Several commands / answers arrive in one chunk; the application pauses
    the receiving AMP protocol while one of them is being processed (in the
    responder, or in the result callback) and resumes it later."""
    side = draw(SIDES)
    n = draw(st.integers(2, 4))
    where = draw(st.integers(0, n - 1))
    how = draw(st.sampled_from(["pause", "pause", "rpause"]))
    ops = []
    for i in range(n):
        ops.append(["call", side, draw(st.sampled_from(["echo", "other", "echo", "quiet", "unknown"])),
                    draw(st.sampled_from(["ok", "ok", "ok", "declA", "later"])), draw(PADS),
                    how if i == where else draw(st.sampled_from([None, None, "echo"]))])
    if draw(st.integers(0, 3)) == 0:
        ops.append(["call", OTHER[side], "echo", "ok", draw(PADS), draw(st.sampled_from([None, "rpause", "pause"]))])
    ops.append(draw(st.sampled_from([["deliver", side, 0], ["deliver", side, 0], ["dribble", side]])))
    tail = [["resume", OTHER[side]], ["deliver", side, 0], ["deliver", OTHER[side], 0], ["resume", side],
            ["deliver", OTHER[side], 0], ["resume", side], ["deliver", side, 0]]
    for o in tail:
        if draw(st.integers(0, 5)) > 0:
            ops.append(o)
    if draw(st.integers(0, 3)) == 0:
        ops.append(draw(st.one_of(lose_op, fire_op, call_op)))
    return ops


fragment = st.one_of(
    call_op.map(lambda o: [o]), call_op.map(lambda o: [o]),
    deliver_op.map(lambda o: [o]), deliver_op.map(lambda o: [o]),
    fire_op.map(lambda o: [o]),
    burst(), burst(),
    switch_scene(),
    pause_scene(), pause_scene(),
    resume_op.map(lambda o: [o]),
    lose_op.map(lambda o: [o]),
)


@st.composite
def history(draw, max_frag=8, with_loss=True):
    frags = draw(st.lists(fragment, min_size=1, max_size=max_frag))
    ops = [o for f in frags for o in f]
    case = dict(ops=ops)
    if with_loss and draw(st.integers(0, 2)) > 0:
        case["loss_at"] = [draw(st.one_of(st.integers(0, 400), st.integers(0, 60))),
                           draw(st.sampled_from(["A", "B", "AB", "BA"]))]
    return case


@st.composite
def enum_history(draw):
    frags = draw(st.lists(st.one_of(burst(), call_op.map(lambda o: [o]), deliver_op.map(lambda o: [o]),
                                    fire_op.map(lambda o: [o]), pause_scene(), resume_op.map(lambda o: [o])),
                          min_size=1, max_size=3))
    ops = [o for f in frags for o in f]
    ops = [(o[:4] + [min(o[4], 12), o[5]]) if o[0] == "call" else o for o in ops]
    return dict(ops=ops, enum=True)


def _c(side, cmd, beh, pad=0, chain=None):
    return ["call", side, cmd, beh, pad, chain]


FIXED = [
    # three calls in flight, answered in reverse order
    [_c("A", "echo", "later"), _c("A", "other", "later", 5), _c("A", "echo", "later", 2),
     ["deliver", "A", 0], ["fire", "B", 2, "ok"], ["fire", "B", 1, "declA"], ["fire", "B", 0, "ok"],
     ["deliver", "B", 0]],
    # both directions at once, immediate answers and every error kind
    [_c("A", "echo", "ok", 3), _c("B", "echo", "declB"), _c("A", "other", "boom"), _c("B", "other", "ok", 1),
     ["deliver", "A", 0], ["deliver", "B", 0], ["deliver", "A", 0], ["deliver", "B", 0]],
    # fatal declared error and an unknown command, re-entrant follow-ups
    [_c("A", "unknown", "ok", 0, "echo"), _c("A", "echo", "fatal", 0, "echo"), _c("B", "echo", "never", 0, "echo"),
     ["deliver", "A", 0], ["deliver", "B", 0], ["deliver", "A", 0], ["deliver", "B", 0]],
    # fire-and-forget commands mixed in, byte-wise delivery
    [_c("A", "quiet", "ok"), _c("A", "echo", "later", 1), _c("A", "quiet", "later"), _c("A", "echo", "ok"),
     ["dribble", "A"], ["fire", "B", 0, "ok"], ["dribble", "B"], ["fire", "B", 0, "boom"]],
    # answers produced after the asker is gone / responder side closing
    [_c("A", "echo", "later"), _c("B", "other", "later", 4), ["deliver", "A", 0], ["deliver", "B", 0],
     ["fire", "A", 0, "boom"], ["fire", "B", 0, "ok"], ["deliver", "A", 0], ["deliver", "B", 0],
     _c("A", "echo", "ok"), _c("B", "echo", "ok")],
]


FIXED.append(
    # responders failing with SUBCLASSES of declared errors (at once and later)
    # while other calls are outstanding in both directions
    [_c("A", "echo", "later", 1), _c("A", "other", "later"), _c("A", "echo", "subB"), _c("B", "echo", "later"),
     ["deliver", "A", 0], ["deliver", "B", 0], ["fire", "B", 1, "subA"], ["deliver", "B", 0],
     ["fire", "B", 0, "ok"], ["fire", "A", 0, "subFatal"], ["deliver", "B", 0], ["deliver", "A", 0]])


FIXED.append(
    # calls outstanding in both directions when a protocol switch completes
    [_c("A", "echo", "later", 1), _c("B", "other", "later"), _c("A", "other", "ok"), ["deliver", "A", 0], ["deliver", "B", 0],
     _c("A", "switch", "later"), ["deliver", "A", 0], ["fire", "B", 1, "ok"], ["deliver", "B", 0],
     ["fire", "B", 0, "ok"], ["fire", "A", 0, "ok"], ["deliver", "B", 0], ["deliver", "A", 0]])


FIXED.append(
    # back-pressure: the caller pauses its protocol in the callback of the first
    # of three answers that arrive in one chunk, the responder side pauses in a
    # responder; both are resumed with no further bytes arriving
    [_c("A", "echo", "ok", 0, "pause"), _c("A", "other", "ok", 2), _c("A", "echo", "declA"), _c("B", "echo", "ok", 0, "rpause"),
     _c("B", "other", "ok"), ["deliver", "A", 0], ["deliver", "B", 0], ["resume", "A"], ["resume", "B"],
     ["deliver", "A", 0], ["deliver", "B", 0], ["resume", "A"]])


def _enum_fixed(ctx):
    for ops in FIXED:
        yield dict(ops=ops, enum=True)


def _shard(sub, i):
    hyp_run(sub, history(max_frag=10), run_case, 12000, label=f"hist{i}")
    if sub.has_violation():
        return
    hyp_run(sub, enum_history(), run_case, 100, label=f"enum{i}")


def run(ctx):
    enumerate_run(ctx, _enum_fixed(ctx), run_case)
    ctx.extra["fixed_histories_with_loss_at_every_byte_boundary"] = len(FIXED)
    if ctx.has_violation():
        return
    if ctx.thorough:
        ctx.shards(_shard, list(range(16)))
        return
    hyp_run(ctx, history(), run_case, 2500, label="hist")
    if ctx.has_violation():
        return
    hyp_run(ctx, enum_history(), run_case, 12, label="enum")
