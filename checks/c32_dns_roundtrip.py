"""C32 — DNS messages round-trip through the wire format.

Three oracles per generated message:
  * twisted decode(encode(m)) equals m (twisted's own ==, plus a per-record walk);
  * an independent RFC 1035/2874/2782/2915/4255/6891/2845 decoder (class Ref, written
    from the RFCs, shares no code with dns.py) reads the content the case describes;
  * size limits: output <= limit, TC set, both decoders read a prefix of the records.
Plus: names that cannot be represented on the wire must be refused by toStr().

The case is plain data (see message_cases()); twisted objects are built from it in
run_case.  C33 imports message_cases/encode_case/Ref from here.
"""
import socket

from hypothesis import strategies as st

from lib.core import enumerate_run, hyp_run

META = dict(
    property="C32",
    level="exploration",
    technique="Hypothesis-generated DNS messages (all Record_* classes, OPT, _EDNSMessage, compression stress, >16 KiB messages, size limits, unrepresentable names): twisted round trip + independent RFC 1035 decoder",
    level_text="Random structured messages, 1 500 (quick) or 160 000 (thorough, 16 processes); every record class, name pools with shared suffixes / case variants / 63-byte labels / 255-octet names, messages whose compression targets lie beyond offset 0x3FFF, absolute and relative size limits >= 12, and four classes of unrepresentable names. Sampling only; no exhaustive scope.",
    level_note="Trusted: the reference decoder Ref in this file (written from RFC 1035 4.1, RFC 2874 3.1, RFC 2782, RFC 2915, RFC 4255, RFC 6891 6.1.2, RFC 2845 2.3) stands in for dnspython, which is unavailable. Names are compared case-insensitively (twisted's Name.__eq__, RFC 4343); maxSize is not on the wire and is excluded from Message equality; RRHeader.auth is generated equal to the message's AA bit and payload.ttl equal to the header TTL (that is what decoding reconstructs). Trailing-dot names, str (IDNA) names, payload-less RRHeaders, maxSize 1..11 and _EDNSMessage encodings over 512 octets (its inner Message always truncates at 512) are outside the generated domain.",
    design_ref="§5 C32",
    rule="case = plain description of one message (header fields, queries, three record sections, size limit) or of one unrepresentable name / one A6 record. non-trivial = the encoded message contains compression pointers used from at least two different questions/records (>= 2 records sharing a compressed suffix), or it was truncated with at least one record surviving; distinct by encoded wire bytes.",
)

# --------------------------------------------------------------------------
# Record type table (numbers from the RFCs / IANA, not from dns.py)

TYPE_NUM = {
    "A": 1, "NS": 2, "MD": 3, "MF": 4, "CNAME": 5, "SOA": 6, "MB": 7, "MG": 8, "MR": 9,
    "NULL": 10, "WKS": 11, "PTR": 12, "HINFO": 13, "MINFO": 14, "MX": 15, "TXT": 16,
    "RP": 17, "AFSDB": 18, "AAAA": 28, "SRV": 33, "NAPTR": 35, "A6": 38, "DNAME": 39,
    "OPT": 41, "SSHFP": 44, "SPF": 99, "TSIG": 250,
}
SINGLE_NAME = ("NS", "MD", "MF", "CNAME", "MB", "MG", "MR", "PTR", "DNAME")
UNKNOWN_TYPES = [19, 20, 24, 25, 27, 29, 37, 43, 46, 47, 48, 52, 65, 100, 249, 256, 257, 32769, 65280, 65535]
BIG_RDATA = 1000          # NULL payloads at least this long are "padding" for the >16 KiB sibling


def labels_of(name):
    return tuple(name.split(b".")) if name else ()


def low(labels):
    return tuple(l.lower() for l in labels)


def wire_len(name):
    return sum(len(l) + 1 for l in labels_of(name)) + 1


# --------------------------------------------------------------------------
# Independent decoder

class RefError(Exception):
    """The bytes are not a well-formed RFC 1035 message.  .code is a stable
    class name for signatures, str() the human detail."""
    code = "malformed"

    def __init__(self, detail, code=None):
        super().__init__(detail)
        if code:
            self.code = code


class RefEOF(RefError):
    """Ran off the end of the message."""
    code = "runs-off-the-end"


class Ref:
    """RFC 1035 §4.1 message reader.  Records the positions of structural
    fields in .marks (C33 uses them to aim its mutations)."""

    def __init__(self, data):
        self.d = bytes(data)
        self.hops = 0              # compression pointers followed
        self.entries_with_ptr = 0  # questions/records in which a pointer was followed
        self.marks = dict(label=[], ptr=[], rdlen=[], name=[])
        self.complete = False
        self._entry_hops = 0
        self.end = 0
        self.header = None
        self.items = []            # [(section, tuple)] in wire order

    # -- primitives
    def _u(self, pos, n):
        if pos + n > len(self.d):
            raise RefEOF(f"need {n} octets at {pos}")
        return int.from_bytes(self.d[pos:pos + n], "big")

    def name(self, pos):
        """-> (labels, position after the name in the main stream)."""
        d = self.d
        self.marks["name"].append(pos)
        labels = []
        after = None
        total = 1
        hops = 0
        here = pos
        while True:
            if here >= len(d):
                raise RefEOF("name runs off the end")
            b = d[here]
            if b == 0:
                here += 1
                break
            kind = b & 0xC0
            if kind == 0xC0:
                if here + 1 >= len(d):
                    raise RefEOF("pointer runs off the end")
                target = ((b & 0x3F) << 8) | d[here + 1]
                self.marks["ptr"].append(here)
                if after is None:
                    after = here + 2
                if target >= here:
                    raise RefError(f"compression pointer at {here} to {target} does not point to a prior occurrence", "pointer-not-backwards")
                hops += 1
                if hops > 255:
                    raise RefError("compression pointer loop", "pointer-loop")
                here = target
                continue
            if kind != 0:
                raise RefError("reserved label type 0x%02x at %d" % (b, here), "reserved-label-type")
            if here + 1 + b > len(d):
                raise RefEOF("label runs off the end")
            self.marks["label"].append(here)
            labels.append(d[here + 1:here + 1 + b])
            total += b + 1
            if total > 255:
                raise RefError("name longer than 255 octets", "name-over-255")
            here += 1 + b
        self.hops += hops
        self._entry_hops += hops
        return tuple(labels), (here if after is None else after)

    # -- rdata by type
    def rdata(self, typ, p, end):
        d = self.d
        cur = [p]

        def take(n):
            if n < 0 or cur[0] + n > end:
                raise RefError(f"type {typ}: field overruns RDLENGTH", "rdata-overruns-rdlength")
            b = d[cur[0]:cur[0] + n]
            cur[0] += n
            return b

        def u(n):
            return int.from_bytes(take(n), "big")

        def nm():
            labels, nxt = self.name(cur[0])
            if nxt > end:
                raise RefError(f"type {typ}: name overruns RDLENGTH", "rdata-overruns-rdlength")
            cur[0] = nxt
            return low(labels)

        def cs():
            return take(u(1))

        def rest():
            return take(end - cur[0])

        if typ == 1:
            out = (take(4),)
        elif typ in (2, 3, 4, 5, 7, 8, 9, 12, 39):
            out = (nm(),)
        elif typ == 6:
            out = (nm(), nm(), u(4), u(4), u(4), u(4), u(4))
        elif typ == 11:
            out = (take(4), u(1), rest())
        elif typ == 13:
            out = (cs(), cs())
        elif typ in (14, 17):
            out = (nm(), nm())
        elif typ in (15, 18):
            out = (u(2), nm())
        elif typ in (16, 99):
            strings = []
            while cur[0] < end:
                strings.append(cs())
            out = (tuple(strings),)
        elif typ == 28:
            out = (take(16),)
        elif typ == 33:
            out = (u(2), u(2), u(2), nm())
        elif typ == 35:
            out = (u(2), u(2), cs(), cs(), cs(), nm())
        elif typ == 38:
            # RFC 2874 §3.1: prefix length octet; suffix of exactly enough octets
            # for 128-plen bits (0..7 leading pad bits); prefix name unless plen == 0
            plen = u(1)
            if plen > 128:
                raise RefError("A6 prefix length > 128", "a6-prefix-length")
            suffix = take((128 - plen + 7) // 8)
            out = (plen, suffix, nm() if plen else None)
        elif typ == 41:
            opts = []
            while cur[0] < end:
                code = u(2)
                opts.append((code, take(u(2))))
            out = (tuple(opts),)
        elif typ == 44:
            out = (u(1), u(1), rest())
        elif typ == 250:
            alg = nm()
            out = (alg, u(6), u(2), take(u(2)), u(2), u(2), take(u(2)))
        else:
            out = (rest(),)
        if cur[0] != end:
            raise RefError(f"type {typ}: RDATA is {cur[0] - p} octets, RDLENGTH says {end - p}", "rdata-shorter-than-rdlength")
        return out

    # -- message
    def parse(self, lenient=False):
        """Fill .header and .items.  lenient: stop quietly where the message
        runs out (a truncated message); otherwise RefEOF propagates."""
        if len(self.d) < 12:
            raise RefEOF("short header")
        w = self._u(2, 2)
        self.header = dict(
            id=self._u(0, 2), qr=w >> 15 & 1, opcode=w >> 11 & 15, aa=w >> 10 & 1, tc=w >> 9 & 1,
            rd=w >> 8 & 1, ra=w >> 7 & 1, z=w >> 6 & 1, ad=w >> 5 & 1, cd=w >> 4 & 1, rcode=w & 15,
            counts=(self._u(4, 2), self._u(6, 2), self._u(8, 2), self._u(10, 2)))
        pos = 12
        try:
            for sec, n in zip(("q", "an", "ns", "ar"), self.header["counts"]):
                for _ in range(n):
                    self._entry_hops = 0
                    labels, p = self.name(pos)
                    if sec == "q":
                        item = (low(labels), self._u(p, 2), self._u(p + 2, 2))
                        p += 4
                    else:
                        typ, cls, ttl, rdlen = self._u(p, 2), self._u(p + 2, 2), self._u(p + 4, 4), self._u(p + 8, 2)
                        self.marks["rdlen"].append(p + 8)
                        p += 10
                        if p + rdlen > len(self.d):
                            raise RefEOF("RDATA runs off the end")
                        item = (low(labels), typ, cls, ttl, self.rdata(typ, p, p + rdlen))
                        p += rdlen
                    self.items.append((sec, item))
                    if self._entry_hops:
                        self.entries_with_ptr += 1
                    pos = p
            self.complete = True
        except RefEOF:
            if not lenient:
                raise
        self.end = pos
        return self


# --------------------------------------------------------------------------
# case -> expected content (what any RFC decoder should read)

def a6_suffix_octets(plen, suffix16):
    n = (128 - plen + 7) // 8
    return suffix16[16 - n:] if n else b""


def exp_rdata(tname, f):
    if tname in ("A", "AAAA"):
        return (f[0],)
    if tname in SINGLE_NAME:
        return (low(labels_of(f[0])),)
    if tname == "SOA":
        return (low(labels_of(f[0])), low(labels_of(f[1])), f[2], f[3], f[4], f[5], f[6])
    if tname == "NULL":
        return (f[0] * f[1],)
    if tname == "WKS":
        return (f[0], f[1], f[2])
    if tname == "HINFO":
        return (f[0], f[1])
    if tname in ("MINFO", "RP"):
        return (low(labels_of(f[0])), low(labels_of(f[1])))
    if tname in ("MX", "AFSDB"):
        return (f[0], low(labels_of(f[1])))
    if tname in ("TXT", "SPF"):
        return (tuple(f[0]),)
    if tname == "SRV":
        return (f[0], f[1], f[2], low(labels_of(f[3])))
    if tname == "NAPTR":
        return (f[0], f[1], f[2], f[3], f[4], low(labels_of(f[5])))
    if tname == "A6":
        return (f[0], a6_suffix_octets(f[0], f[1]), low(labels_of(f[2])) if f[0] else None)
    if tname == "SSHFP":
        return (f[0], f[1], f[2])
    if tname == "TSIG":
        return (low(labels_of(f[0])), f[1], f[2], f[3], f[4], f[5], f[6])
    if tname == "OPT":
        return (tuple((c, dta) for c, dta in f[4]),)
    if tname == "UNKNOWN":
        return (f[1],)
    raise AssertionError(tname)


def exp_rr(rr):
    name, cls, ttl, tname, f = rr
    if tname == "OPT":
        udp, ext, ver, do, _opts = f
        return ((), 41, udp, ext << 24 | ver << 16 | do << 15, exp_rdata(tname, f))
    typ = f[0] if tname == "UNKNOWN" else TYPE_NUM[tname]
    return (low(labels_of(name)), typ, cls, ttl, exp_rdata(tname, f))


def exp_items(case):
    out = [("q", (low(labels_of(n)), t, c)) for n, t, c in case["q"]]
    for sec in ("an", "ns", "ar"):
        out += [(sec, exp_rr(rr)) for rr in case[sec]]
    return out


def exp_header(case):
    h = case["hdr"]
    return dict(id=h["id"], qr=h["answer"], opcode=h["opCode"], aa=h["auth"], tc=h["trunc"],
                rd=h["recDes"], ra=h["recAv"], z=0, ad=h["authenticData"], cd=h["checkingDisabled"],
                rcode=h["rCode"] & 15,
                counts=(len(case["q"]), len(case["an"]), len(case["ns"]), len(case["ar"])))


# --------------------------------------------------------------------------
# case -> twisted objects

def build_payload(dns, tname, f, ttl):
    if tname == "A":
        return dns.Record_A(socket.inet_ntoa(f[0]), ttl=ttl)
    if tname == "AAAA":
        return dns.Record_AAAA(socket.inet_ntop(socket.AF_INET6, f[0]), ttl=ttl)
    if tname in SINGLE_NAME:
        return getattr(dns, "Record_" + tname)(f[0], ttl=ttl)
    if tname == "SOA":
        return dns.Record_SOA(mname=f[0], rname=f[1], serial=f[2], refresh=f[3], retry=f[4],
                              expire=f[5], minimum=f[6], ttl=ttl)
    if tname == "NULL":
        return dns.Record_NULL(f[0] * f[1], ttl=ttl)
    if tname == "WKS":
        return dns.Record_WKS(socket.inet_ntoa(f[0]), f[1], f[2], ttl=ttl)
    if tname == "HINFO":
        return dns.Record_HINFO(f[0], f[1], ttl=ttl)
    if tname == "MINFO":
        return dns.Record_MINFO(f[0], f[1], ttl=ttl)
    if tname == "RP":
        return dns.Record_RP(f[0], f[1], ttl=ttl)
    if tname == "MX":
        return dns.Record_MX(f[0], f[1], ttl=ttl)
    if tname == "AFSDB":
        return dns.Record_AFSDB(f[0], f[1], ttl=ttl)
    if tname == "TXT":
        return dns.Record_TXT(*f[0], ttl=ttl)
    if tname == "SPF":
        return dns.Record_SPF(*f[0], ttl=ttl)
    if tname == "SRV":
        return dns.Record_SRV(f[0], f[1], f[2], f[3], ttl=ttl)
    if tname == "NAPTR":
        return dns.Record_NAPTR(f[0], f[1], f[2], f[3], f[4], f[5], ttl=ttl)
    if tname == "A6":
        return dns.Record_A6(f[0], socket.inet_ntop(socket.AF_INET6, f[1]), f[2], ttl=ttl)
    if tname == "SSHFP":
        return dns.Record_SSHFP(f[0], f[1], f[2], ttl=ttl)
    if tname == "TSIG":
        return dns.Record_TSIG(algorithm=f[0], timeSigned=f[1], fudge=f[2], MAC=f[3],
                               originalID=f[4], error=f[5], otherData=f[6], ttl=ttl)
    if tname == "UNKNOWN":
        return dns.UnknownRecord(f[1], ttl=ttl)
    raise AssertionError(tname)


def build_rr(dns, rr, auth):
    name, cls, ttl, tname, f = rr
    if tname == "OPT":
        udp, ext, ver, do, opts = f
        return dns._OPTHeader(udpPayloadSize=udp, extendedRCODE=ext, version=ver, dnssecOK=bool(do),
                              options=[dns._OPTVariableOption(c, dta) for c, dta in opts])
    typ = f[0] if tname == "UNKNOWN" else TYPE_NUM[tname]
    return dns.RRHeader(name, typ, cls, ttl, build_payload(dns, tname, f, ttl), auth=bool(auth))


def build_message(dns, case, max_size):
    h = case["hdr"]
    m = dns.Message(id=h["id"], answer=h["answer"], opCode=h["opCode"], recDes=h["recDes"],
                    recAv=h["recAv"], auth=h["auth"], rCode=h["rCode"], trunc=h["trunc"],
                    maxSize=max_size, authenticData=h["authenticData"],
                    checkingDisabled=h["checkingDisabled"])
    m.queries = [dns.Query(n, t, c) for n, t, c in case["q"]]
    m.answers = [build_rr(dns, rr, h["auth"]) for rr in case["an"]]
    m.authority = [build_rr(dns, rr, h["auth"]) for rr in case["ns"]]
    m.additional = [build_rr(dns, rr, h["auth"]) for rr in case["ar"]]
    return m


def edns_as_plain(case):
    """The plain-Message description of an 'edns' case (OPT appended)."""
    e = case["edns"]
    c = dict(case, kind="msg", limit=["abs", 0])
    c["hdr"] = dict(case["hdr"], rCode=case["hdr"]["rCode"] & 15)
    if e["version"] is not None:
        c["ar"] = list(case["ar"]) + [[b"", 0, 0, "OPT",
                                       [e["udp"], case["hdr"]["rCode"] >> 4, e["version"], e["do"], []]]]
    return c


def build_edns(dns, case):
    h, e = case["hdr"], case["edns"]
    return dns._EDNSMessage(
        id=h["id"], answer=bool(h["answer"]), opCode=h["opCode"], auth=bool(h["auth"]),
        trunc=bool(h["trunc"]), recDes=bool(h["recDes"]), recAv=bool(h["recAv"]), rCode=h["rCode"],
        ednsVersion=e["version"], dnssecOK=bool(e["do"]), authenticData=bool(h["authenticData"]),
        checkingDisabled=bool(h["checkingDisabled"]), maxSize=e["udp"],
        queries=[dns.Query(n, t, c) for n, t, c in case["q"]],
        answers=[build_rr(dns, rr, h["auth"]) for rr in case["an"]],
        authority=[build_rr(dns, rr, h["auth"]) for rr in case["ns"]],
        additional=[build_rr(dns, rr, h["auth"]) for rr in case["ar"]])


def resolve_limit(limit, full_len):
    how, v = limit
    if how == "abs":
        return v
    if how == "under":                         # v octets less than the message needs (0: exact fit)
        return max(12, full_len - v)
    return 12 + (full_len - 12) * v // 16     # "frac": v sixteenths of the body


def encode_case(case):
    """Wire bytes twisted produces for a 'msg' or 'edns' case (used by C33)."""
    from twisted.names import dns
    if case["kind"] == "edns":
        return build_edns(dns, case).toStr()
    full = build_message(dns, case, 0).toStr()
    lim = resolve_limit(case["limit"], len(full))
    if lim and len(full) > lim:
        return build_message(dns, case, lim).toStr()
    return full


# --------------------------------------------------------------------------
# the oracle

HDR_ATTRS = ("id", "answer", "opCode", "recDes", "recAv", "auth", "rCode", "trunc",
             "authenticData", "checkingDisabled")


def _type_label(item):
    return "question" if len(item) == 3 else "type%d" % item[1]


def _first_diff(exp, got):
    """Name the first place two (section, item) lists differ."""
    for i, (e, g) in enumerate(zip(exp, got)):
        if e != g:
            if e[0] != g[0]:
                return "section", f"entry {i}: expected in {e[0]}, read in {g[0]}"
            ei, gi = e[1], g[1]
            if len(ei) == 3 or len(gi) == 3:
                return "question", f"entry {i}: expected {ei!r}, read {gi!r}"
            if ei[:4] != gi[:4]:
                return "rr-header", f"entry {i}: expected {ei[:4]!r}, read {gi[:4]!r}"
            return "rdata-" + _type_label(ei), f"entry {i}: expected {ei[4]!r}, read {gi[4]!r}"
    return "count", f"expected {len(exp)} entries, read {len(got)}"


def _tw_same(dns, orig, dec):
    if isinstance(orig, dns._OPTHeader):
        return dec.type == 41 and dec.name == orig.name and dns._OPTHeader.fromRRHeader(dec) == orig
    return bool(dec == orig) and not bool(dec != orig)


def check_msg(ctx, case, stats):
    """All assertions for one plain message.  Returns [(signature, detail)]."""
    from twisted.names import dns
    full = build_message(dns, case, 0).toStr()
    limit = resolve_limit(case["limit"], len(full))
    truncating = bool(limit) and len(full) > limit
    m = build_message(dns, case, limit)
    wire = m.toStr()
    stats["wire"] = wire
    stats["truncating"] = truncating
    stats["full_len"] = len(full)
    expected = exp_items(case)
    eh = exp_header(case)
    div = []

    ref = Ref(wire)
    try:
        ref.parse(lenient=truncating)
    except RefError as e:
        return [("independent-decoder-rejects:" + e.code, f"{e} (wire {len(wire)} octets)")]
    stats["ref"] = ref

    m2 = dns.Message()
    m2.fromStr(wire)
    orig_flat = ([("q", x) for x in m.queries] + [("an", x) for x in m.answers]
                 + [("ns", x) for x in m.authority] + [("ar", x) for x in m.additional])
    dec_flat = ([("q", x) for x in m2.queries] + [("an", x) for x in m2.answers]
                + [("ns", x) for x in m2.authority] + [("ar", x) for x in m2.additional])
    stats["decoded"] = len(dec_flat)

    if not truncating:
        if len(wire) != len(full) or ref.end != len(wire):
            div.append(("encoding-has-trailing-or-missing-octets",
                        f"independent decoder stopped at {ref.end} of {len(wire)}"))
        rh = dict(ref.header)
        if rh != eh:
            bad = sorted(k for k in eh if eh[k] != rh[k])
            div.append(("independent-decoder-reads-different-header:" + bad[0], f"expected {eh}, read {rh}"))
        if ref.items != expected:
            what, detail = _first_diff(expected, ref.items)
            div.append(("independent-decoder-reads-different-" + what, detail))
        for a in HDR_ATTRS:
            if getattr(m2, a) != case["hdr"][a]:
                div.append(("roundtrip-unequal-header:" + a, f"{a}: sent {case['hdr'][a]!r}, decoded {getattr(m2, a)!r}"))
        if len(dec_flat) != len(orig_flat):
            div.append(("roundtrip-unequal-record-count",
                        f"sent {len(orig_flat)} questions+records, decoded {len(dec_flat)}"))
        for i, ((so, o), (sd, d)) in enumerate(zip(orig_flat, dec_flat)):
            if so != sd or not _tw_same(dns, o, d):
                tname = "question" if so == "q" else ("OPT" if isinstance(o, dns._OPTHeader) else dns.QUERY_TYPES.get(o.type, "UNKNOWN"))
                div.append(("roundtrip-unequal-" + tname, f"entry {i} (section {so}) of type {tname} decoded into section {sd} as something unequal: expected {expected[i][1]!r}"[:1500]))
                break
        if not div and not any(rr[3] == "OPT" for rr in case["ar"] + case["an"] + case["ns"]):
            m2.maxSize = m.maxSize          # not on the wire
            if not (m2 == m) or (m2 != m):
                div.append(("roundtrip-message-eq-false", "every header field and record compares equal but Message.__eq__ is false"))
        return div

    # ---- truncated
    if len(wire) > limit:
        div.append(("truncation-exceeds-limit", f"limit {limit}, encoded {len(wire)}"))
    if ref.header["tc"] != 1 or not m2.trunc:
        div.append(("truncation-tc-not-set", f"TC bit on the wire {ref.header['tc']}, decoded trunc {m2.trunc!r}"))
    rh = dict(ref.header)
    for k in eh:
        if k not in ("tc", "counts") and eh[k] != rh[k]:
            div.append(("independent-decoder-reads-different-header:" + k, f"expected {eh}, read {rh}"))
            break
    for a in HDR_ATTRS:
        if a != "trunc" and getattr(m2, a) != case["hdr"][a]:
            div.append(("roundtrip-unequal-header:" + a, f"{a}: sent {case['hdr'][a]!r}, decoded {getattr(m2, a)!r}"))
    if ref.items != expected[:len(ref.items)]:
        what, detail = _first_diff(expected, ref.items)
        div.append(("truncated-independent-decoder-not-a-prefix-" + what, detail))
    if len(dec_flat) > len(orig_flat):
        div.append(("truncated-decode-not-a-prefix", f"decoded {len(dec_flat)} of {len(orig_flat)}"))
    else:
        for i, ((so, o), (sd, d)) in enumerate(zip(orig_flat, dec_flat)):
            if so != sd or not _tw_same(dns, o, d):
                div.append(("truncated-decode-not-a-prefix", f"entry {i} (section {so}) decoded into section {sd} as something unequal: expected {expected[i][1]!r}"[:1500]))
                break
    if len(dec_flat) != len(ref.items):
        div.append(("truncated-decoders-disagree",
                    f"twisted kept {len(dec_flat)} entries, the independent decoder finds {len(ref.items)} complete ones in {len(wire)} octets"))
    return div


def concretize(case):
    """Resolve 'pad_to': size the padding record an[at] so that whatever follows
    it starts at offset 0x4000 + delta (measured on what precedes it, which
    later records cannot influence)."""
    from twisted.names import dns
    at, delta = case["pad_to"]
    c = dict(case)
    del c["pad_to"]
    head = dict(c, an=c["an"][:at + 1], ns=[], ar=[], limit=["abs", 0])
    l0 = len(build_message(dns, head, 0).toStr())
    an = list(c["an"])
    an[at] = an[at][:4] + [[b"\xaa", max(0, 0x4000 + delta - l0)]]
    c["an"] = an
    return c


def pad_to_end(case):
    """Sibling of a big case: the same records, padding records moved behind
    everything else so that every name occurs below offset 0x4000."""
    def is_pad(rr):
        return rr[3] == "NULL" and len(rr[4][0]) * rr[4][1] >= BIG_RDATA
    pads = []
    c = dict(case)
    for sec in ("an", "ns", "ar"):
        pads += [rr for rr in case[sec] if is_pad(rr)]
        c[sec] = [rr for rr in case[sec] if not is_pad(rr)]
    c["ar"] = c["ar"] + pads
    return c, len(pads)


def name_labels(name):
    """Labels of a name in twisted's dotted-bytes form.  b"" and b"." are the
    root; exactly one trailing dot only marks the name as fully qualified."""
    if name in (b"", b"."):
        return []
    return (name[:-1] if name.endswith(b".") else name).split(b".")


def name_defect(name):
    labs = name_labels(name)
    if any(len(l) > 255 for l in labs):
        return "label-over-255"
    if any(len(l) > 63 for l in labs):
        return "label-64-to-255"
    if any(len(l) == 0 for l in labs):
        return "empty-label"
    if sum(len(l) + 1 for l in labs) + 1 > 255:
        return "name-over-255"
    return None


def empty_label_positions(name):
    labs = name_labels(name)
    pos = set()
    for i, l in enumerate(labs):
        if not l:
            # a run of empty labels reaching the end is "trailing" (two or more trailing dots)
            if all(not x for x in labs[i:]):
                pos.add("trailing")
            elif all(not x for x in labs[:i + 1]):
                pos.add("leading")
            else:
                pos.add("interior")
    return sorted(pos)


def dot_pattern_names(max_len=6):
    """Every byte string over {a, .} up to max_len that is NOT representable
    (has an empty label at the front, inside or at the end)."""
    import itertools
    for n in range(1, max_len + 1):
        for t in itertools.product((b"a", b"."), repeat=n):
            name = b"".join(t)
            if name_defect(name) == "empty-label":
                yield name


def run_case(ctx, case):
    from twisted.names import dns
    kind = case["kind"]
    ctx.count("kind=" + kind)

    if kind == "badname":
        name, where = case["name"], case["where"]
        defect = name_defect(name)
        if defect is None:
            raise AssertionError("generator produced a representable name")
        m = dns.Message(maxSize=0)
        if where == "query":
            m.queries.append(dns.Query(name, 1, 1))
        elif where == "owner":
            m.answers.append(dns.RRHeader(name, 1, 1, 0, dns.Record_A("1.2.3.4", ttl=0)))
        elif where == "rdata-NS":
            m.answers.append(dns.RRHeader(b"ok.example", 2, 1, 0, dns.Record_NS(name, ttl=0)))
        else:
            m.answers.append(dns.RRHeader(b"ok.example", 33, 1, 0, dns.Record_SRV(1, 2, 3, name, ttl=0)))
        ctx.count("badname:" + defect)
        if defect == "empty-label":
            for pos in empty_label_positions(name):
                ctx.count("badname:empty-label:" + pos)
        ctx.nontrivial(("badname", where, name))
        try:
            wire = m.toStr()
        except Exception as e:       # the statement does not name the refusal's type
            ctx.count("refused:" + type(e).__name__)
            return
        ctx.violation("unrepresentable-name-encoded:" + defect, case,
                      f"{defect} name of {len(name)} bytes ({wire_len(name)} octets on the wire, longest label "
                      f"{max(len(l) for l in name.split(b'.'))}) in {where} was encoded into {len(wire)} octets instead of being refused")

    if kind == "a6":
        plen = case["rr"][4][0]
        c = dict(kind="msg", hdr=case["hdr"], limit=["abs", 0], q=[], an=[case["rr"]], ns=[], ar=[])
        stats = {}
        div = check_msg(ctx, c, stats)
        ctx.count("a6:plen%8=" + ("0" if plen % 8 == 0 else "nonzero"))
        ctx.nontrivial(("a6", stats.get("wire")))
        if div:
            sig, detail = div[0]
            if plen % 8 and (sig.startswith("independent-decoder") or sig == "roundtrip-unequal-A6"):
                sig = "a6-suffix-octets-rounded-down"
                detail = f"prefixLen={plen}: RFC 2874 wants {(128 - plen + 7) // 8} suffix octets, twisted wrote {(128 - plen) // 8}; " + detail
            ctx.violation(sig, case, detail)
        return

    if kind == "edns":
        plain = edns_as_plain(case)
        full = build_message(dns, plain, 0).toStr()
        if len(full) > 512:
            ctx.count("edns:over-512-not-asserted")
            return
        m = build_edns(dns, case)
        wire = m.toStr()
        ref = Ref(wire)
        try:
            ref.parse()
        except RefError as e:
            ctx.violation("edns-independent-decoder-rejects", case, str(e))
        if ref.header != exp_header(plain) or ref.items != exp_items(plain) or ref.end != len(wire):
            what, detail = (("header", f"expected {exp_header(plain)}, read {ref.header}") if ref.header != exp_header(plain)
                            else _first_diff(exp_items(plain), ref.items))
            ctx.violation("edns-independent-decoder-reads-different-" + what, case, detail)
        m2 = dns._EDNSMessage()
        m2.fromStr(wire)
        for a in dns._EDNSMessage.compareAttributes:
            if getattr(m2, a) != getattr(m, a):
                ctx.violation("edns-roundtrip-unequal:" + a, case, f"attribute {a} differs after _EDNSMessage.fromStr(toStr())" + ("" if a in ("queries", "answers", "authority", "additional") else f": sent {getattr(m, a)!r}, decoded {getattr(m2, a)!r}"))
        if not (m2 == m):
            ctx.violation("edns-roundtrip-eq-false", case, "every compared attribute is equal but _EDNSMessage.__eq__ is false")
        ctx.count("edns:version=" + ("none" if case["edns"]["version"] is None else "set"))
        if case["hdr"]["rCode"] > 15:
            ctx.count("edns:extended-rcode")
        if ref.entries_with_ptr >= 2:
            ctx.nontrivial(wire)
            ctx.count("nontrivial")
        return

    # ---- kind == "msg"
    if case.get("pad_to") is not None:
        case = concretize(case)
    stats = {}
    div = check_msg(ctx, case, stats)
    wire, ref = stats.get("wire", b""), stats.get("ref")
    if case.get("tag"):
        ctx.count(case["tag"])
    for sec in ("an", "ns", "ar"):
        for rr in case[sec]:
            ctx.count("rr=" + rr[3])
    ctx.count("questions", len(case["q"]))
    if stats.get("full_len", 0) > 0x4000:
        ctx.count("msg:over-16KiB")
    if stats.get("truncating"):
        ctx.count("msg:truncated")
        ctx.count("msg:truncated-kept-%s" % ("0" if not stats.get("decoded") else "some"))
    names = [n for n, _t, _c in case["q"]] + [rr[0] for s in ("an", "ns", "ar") for rr in case[s]]
    if any(len(l) == 63 for n in names for l in labels_of(n)):
        ctx.count("name:label-63")
    if any(wire_len(n) >= 250 for n in names):
        ctx.count("name:250..255-octets")
    if any(n != n.lower() and n.lower() in names for n in names):
        ctx.count("name:case-variant-of-another")
    if ref is not None:
        if ref.hops:
            ctx.count("msg:uses-compression")
        if ref.entries_with_ptr >= 2 or (stats.get("truncating") and stats.get("decoded")):
            ctx.nontrivial(wire)
            ctx.count("nontrivial")
            if len(wire) < 400:
                ctx.sample(case)
    if div:
        sig, detail = div[0]
        if stats.get("full_len", 0) > 0x4000:
            sib, npads = pad_to_end(case)
            if npads and not check_msg(ctx, sib, {}):
                detail = ("fails only while names are first written at offsets >= 0x4000 (the same records with the "
                          "padding moved to the end round-trip): " + detail)
                sig = "name-compression-offset-beyond-0x3fff"
        ctx.violation(sig, case, detail)


# --------------------------------------------------------------------------
# generators (plain data only)

u8 = st.integers(0, 255)
u16 = st.one_of(st.integers(0, 65535), st.sampled_from([0, 1, 255, 256, 65535]))
u32 = st.one_of(st.integers(0, 2 ** 32 - 1), st.sampled_from([0, 1, 2 ** 31 - 1, 2 ** 31, 2 ** 32 - 1]))
i31 = st.one_of(st.integers(0, 2 ** 31 - 1), st.sampled_from([0, 1, 2 ** 31 - 1]))
bit = st.integers(0, 1)
short_bytes = st.binary(max_size=24)
charstr = st.one_of(st.binary(max_size=12), st.binary(max_size=3), st.sampled_from([b"", b"INTEL-386", b"v=spf1 -all"]),
                    st.binary(min_size=250, max_size=255))

label = st.one_of(
    st.sampled_from([b"www", b"example", b"com", b"org", b"net", b"a", b"b", b"_tcp", b"ns1", b"mail"]),
    st.sampled_from([b"www", b"example", b"com", b"x", b"y", b"0", b"L" * 63, b"M" * 62, b"xn--nxasmq6b"]),
    st.text(alphabet="abcxyz019-", min_size=1, max_size=8).map(lambda s: s.encode()),
    st.sampled_from([b"Example", b"EXAMPLE", b"COM", b"Www", b"A", b"l" * 63]),
    st.binary(min_size=1, max_size=12).map(lambda b: b.replace(b".", b"-")),
    st.binary(min_size=1, max_size=3).map(lambda b: b.replace(b".", b"-")),
    st.binary(min_size=63, max_size=63).map(lambda b: b.replace(b".", b"-")),
)


def fit(labs):
    """Drop leading labels until the name fits 255 octets."""
    labs = list(labs)
    while labs and sum(len(l) + 1 for l in labs) + 1 > 255:
        labs.pop(0)
    return b".".join(labs)


def _variant(b, how):
    return (b.upper(), b.lower(), b.swapcase(), b.title())[how]


# Names are drawn as *specs* relative to a per-message pool and resolved after
# drawing, so that every strategy below is built once (fast) while names within
# one message still share suffixes, differ only in case, or repeat exactly.

pool_entry = st.one_of(
    st.lists(label, min_size=1, max_size=4).map(lambda l: ("new", l)),
    st.lists(label, min_size=1, max_size=4).map(lambda l: ("new", l)),
    st.tuples(st.lists(label, min_size=1, max_size=2), st.integers(0, 7)).map(lambda t: ("sub", t[0], t[1])),
    st.tuples(st.lists(label, min_size=1, max_size=2), st.integers(0, 7)).map(lambda t: ("sub", t[0], t[1])),
    st.tuples(st.integers(0, 7), st.integers(0, 3)).map(lambda t: ("var", t[0], t[1])),
    st.tuples(st.lists(label, min_size=4, max_size=12), st.integers(0, 7)).map(lambda t: ("fill", t[0], t[1])),
    st.just(("max",)),
)
pool_spec = st.lists(pool_entry, min_size=1, max_size=5)

name_spec = st.one_of(
    st.integers(0, 7).map(lambda i: ("pool", i)),
    st.integers(0, 7).map(lambda i: ("pool", i)),
    st.integers(0, 7).map(lambda i: ("pool", i)),
    st.tuples(st.lists(label, min_size=1, max_size=2), st.integers(0, 7)).map(lambda t: ("sub", t[0], t[1])),
    st.tuples(st.integers(0, 7), st.integers(0, 3)).map(lambda t: ("var", t[0], t[1])),
    st.lists(label, min_size=1, max_size=3).map(lambda l: ("new", l)),
    st.just(("root",)),
)


def resolve_pool(spec):
    pool = []
    for e in spec:
        k = e[0] if pool or e[0] in ("new", "max") else "new0"
        if k == "new":
            labs = e[1]
        elif k == "new0":
            labs = [b"example", b"com"]
        elif k == "sub":
            labs = list(e[1]) + list(labels_of(pool[e[2] % len(pool)]))
        elif k == "var":
            labs = list(labels_of(_variant(pool[e[1] % len(pool)], e[2])))
        elif k == "fill":     # fill the 255 octets
            labs = list(e[1]) + [b"f" * 63] * 3 + list(labels_of(pool[e[2] % len(pool)]))
        else:                 # exactly 255 octets
            labs = [b"e" * 63] * 3 + [b"g" * 61]
        pool.append(fit(labs))
    return pool


def resolve_name(spec, pool):
    k = spec[0]
    if k == "pool":
        return pool[spec[1] % len(pool)]
    if k == "sub":
        return fit(list(spec[1]) + list(labels_of(pool[spec[2] % len(pool)])))
    if k == "var":
        return _variant(pool[spec[1] % len(pool)], spec[2])
    if k == "new":
        return fit(spec[1])
    return b""


NAME_FIELDS = {"SOA": (0, 1), "MINFO": (0, 1), "RP": (0, 1), "MX": (1,), "AFSDB": (1,), "SRV": (3,),
               "NAPTR": (5,), "A6": (2,), "TSIG": (0,)}
NAME_FIELDS.update({t: (0,) for t in SINGLE_NAME})


def resolve_rr(rr, pool):
    name, cls, ttl, tname, f = rr
    f = list(f)
    for i in NAME_FIELDS.get(tname, ()):
        f[i] = resolve_name(f[i], pool)
    if tname == "A6" and f[0] == 0:
        f[2] = b""            # RFC 2874: no prefix name when the prefix length is zero
    return [resolve_name(name, pool), cls, ttl, tname, f]


def _a6_fields(t):
    plen8, suffix, prefix = t
    plen = plen8 * 8          # octet-aligned here; other lengths are the 'a6' kind
    v = int.from_bytes(suffix, "big") & ((1 << (128 - plen)) - 1)
    return (plen, v.to_bytes(16, "big"), prefix)


def _rdata_strategies(nm):
    ip4 = st.binary(min_size=4, max_size=4)
    ip6 = st.binary(min_size=16, max_size=16)
    txt = st.lists(charstr, max_size=4)
    d = {
        "A": st.tuples(ip4),
        "AAAA": st.tuples(ip6),
        "SOA": st.tuples(nm, nm, u32, i31, i31, i31, u32),
        "NULL": st.tuples(st.binary(max_size=40), st.integers(0, 3)),
        "WKS": st.tuples(ip4, u8, short_bytes),
        "HINFO": st.tuples(charstr, charstr),
        "MINFO": st.tuples(nm, nm),
        "RP": st.tuples(nm, nm),
        "MX": st.tuples(u16, nm),
        "AFSDB": st.tuples(u16, nm),
        "TXT": st.tuples(txt),
        "SPF": st.tuples(txt),
        "SRV": st.tuples(u16, u16, u16, nm),
        "NAPTR": st.tuples(u16, u16, charstr, charstr, charstr, nm),
        "A6": st.tuples(st.integers(0, 16), ip6, nm).map(_a6_fields),
        "SSHFP": st.tuples(u8, u8, st.binary(max_size=32)),
        "TSIG": st.tuples(nm, st.one_of(st.integers(0, 2 ** 48 - 1), st.just(2 ** 48 - 1)), u16, short_bytes,
                          u16, u16, short_bytes),
        "UNKNOWN": st.tuples(st.sampled_from(UNKNOWN_TYPES), short_bytes),
    }
    for t in SINGLE_NAME:
        d[t] = st.tuples(nm)
    return d


_typed = st.one_of(*[st.tuples(st.just(t), s) for t, s in sorted(_rdata_strategies(name_spec).items())])
_cls = st.one_of(st.sampled_from([1, 1, 1, 3, 4, 255]), u16)
rr_spec = st.tuples(name_spec, _cls, u32, _typed).map(lambda t: (t[0], t[1], t[2], t[3][0], t[3][1]))
q_spec = st.tuples(name_spec, st.one_of(st.sampled_from([1, 2, 15, 28, 255, 252]), u16),
                   st.one_of(st.sampled_from([1, 255]), u16))

header = st.fixed_dictionaries(dict(
    id=u16, answer=bit, opCode=st.integers(0, 15), recDes=bit, recAv=bit, auth=bit,
    rCode=st.integers(0, 15), trunc=bit, authenticData=bit, checkingDisabled=bit))

opt_rr = st.tuples(u16, u8, u8, bit, st.lists(st.tuples(u16, short_bytes).map(list), max_size=3)).map(
    lambda f: [b"", 0, 0, "OPT", list(f)])

limits = st.one_of(
    st.sampled_from([["abs", 0], ["abs", 0], ["abs", 512], ["abs", 512], ["abs", 12], ["abs", 13], ["abs", 65535]]),
    st.integers(12, 700).map(lambda n: ["abs", n]),
    st.integers(0, 17).map(lambda n: ["frac", n]),
    st.integers(0, 3).map(lambda n: ["under", n]),
    st.sampled_from([["abs", 0], ["abs", 65535], ["abs", 4096]]),
    st.just(["abs", 0]),
)


def _finish_msg(t):
    pool_s, hdr, q, an, ns, ar, opt, limit, pad = t
    pool = resolve_pool(pool_s)
    q = [[resolve_name(n, pool), ty, c] for n, ty, c in q]
    an, ns, ar = ([resolve_rr(rr, pool) for rr in sec] for sec in (an, ns, ar))
    if opt is not None:
        ar.insert(opt[0] % (len(ar) + 1), opt[1])
    if pad is not None:
        # one padding record of a little over 16 KiB in front of (nearly) all other records,
        # so that names first written after it lie beyond offset 0x3FFF
        owner, delta, at, late_labels = pad
        at = min(at, len(an))
        an.insert(at, [resolve_name(owner, pool), 1, 0, "NULL", [b"\xaa", 0]])
        if late_labels is not None:
            # a name first written exactly where the padding ends, used again further on
            late = fit([b"late"] + late_labels)
            an.insert(at + 1, [late, 1, 0, "A", [b"\x7f\x00\x00\x01"]])
            ar.append([late, 1, 0, "MX", [10, fit([b"mx", b"late"] + late_labels)]])
        return dict(kind="msg", hdr=hdr, limit=["abs", 0], q=q, an=an, ns=ns, ar=ar, pad_to=[at, delta])
    return dict(kind="msg", hdr=hdr, limit=limit, q=q, an=an, ns=ns, ar=ar)


def msg_case(big=False):
    opt = st.one_of(st.none(), st.none(), st.none(), st.none(), st.tuples(st.integers(0, 3), opt_rr))
    # the record after the padding starts at offset 0x4000 + delta
    delta = st.one_of(st.sampled_from([-2, -1, 0, 1, 2]), st.integers(-8, 8), st.integers(-3, 600), st.integers(-12000, 600))
    late = st.one_of(st.none(), st.lists(label, max_size=2), st.lists(label, max_size=2))
    pad = st.tuples(name_spec, delta, st.integers(0, 1), late) if big else st.none()
    return st.tuples(pool_spec, header, st.lists(q_spec, max_size=3), st.lists(rr_spec, max_size=5),
                     st.lists(rr_spec, max_size=3), st.lists(rr_spec, max_size=3), opt, limits, pad).map(_finish_msg)


_edns_part = st.one_of(
    st.just((None, 0, 512, None)),
    st.tuples(st.one_of(st.just(0), u8), bit, st.one_of(st.sampled_from([512, 1232, 4096]), u16),
              st.one_of(st.integers(0, 15), st.integers(0, 4095), st.just(4095))),
    st.tuples(st.one_of(st.just(0), u8), bit, st.one_of(st.sampled_from([512, 1232, 4096]), u16),
              st.one_of(st.integers(0, 15), st.integers(0, 4095), st.just(4095))),
)


def _finish_edns(t):
    pool_s, hdr, e, q, an, ns, ar = t
    pool = resolve_pool(pool_s)
    version, do, udp, rcode = e
    if rcode is not None:
        hdr = dict(hdr, rCode=rcode)
    return dict(kind="edns", hdr=hdr, edns=dict(version=version, do=do, udp=udp),
                q=[[resolve_name(n, pool), ty, c] for n, ty, c in q],
                an=[resolve_rr(rr, pool) for rr in an], ns=[resolve_rr(rr, pool) for rr in ns],
                ar=[resolve_rr(rr, pool) for rr in ar])


def edns_case():
    # few records: an _EDNSMessage is only asserted while it fits 512 octets
    return st.tuples(pool_spec, header, _edns_part, st.lists(q_spec, max_size=2), st.lists(rr_spec, max_size=2),
                     st.lists(rr_spec, max_size=1), st.lists(rr_spec, max_size=1)).map(_finish_edns)


_ok = st.lists(st.sampled_from([b"a", b"bb", b"example", b"com"]), max_size=2)


@st.composite
def badname_case(draw):
    which = draw(st.integers(0, 3))
    pre, post = draw(_ok), draw(_ok)
    if which == 0:      # a label of 64..255 bytes, the whole name still within 255 octets where possible
        n = draw(st.one_of(st.sampled_from([64, 65, 127, 128, 191, 192, 193, 200, 255]), st.integers(64, 255)))
        big = bytes([draw(st.sampled_from([0x61, 0x78, 0xC0]))]) * n
        labs = pre + [big] + post
        if sum(len(l) + 1 for l in labs) + 1 > 255:
            labs = [big]
    elif which == 1:    # a label longer than a length octet can say
        labs = pre + [b"h" * draw(st.integers(256, 300))] + post
    elif which == 2:    # legal labels, more than 255 octets in all
        k = draw(st.integers(1, 63))
        count = (255 - 1) // (k + 1) + draw(st.integers(1, 3))
        labs = [b"n" * k] * count + post
        if k == 63 and draw(bit):
            labs = [b"n" * 63] * 3 + [b"n" * draw(st.integers(62, 63))]   # 255 + 0/1: the boundary
            if wire_len(b".".join(labs)) <= 255:
                labs.append(b"z")
    else:               # empty labels in front, inside and/or at the end (two or more trailing dots)
        labs = [l for l in pre + draw(_ok) + post] or [b"a"]
        for _ in range(draw(st.integers(1, 3))):
            labs.insert(draw(st.integers(0, len(labs))), b"")
        name = b".".join(labs)
        if draw(bit):
            name += b"."     # one more dot: the only empty label that would be fine is a single final one
        while name_defect(name) != "empty-label":     # e.g. b"a." (fully qualified) or b"." (the root)
            name += b"."
        return dict(kind="badname", name=name,
                    where=draw(st.sampled_from(["query", "owner", "rdata-NS", "rdata-SRV"])))
    return dict(kind="badname", name=b".".join(labs),
                where=draw(st.sampled_from(["query", "owner", "rdata-NS", "rdata-SRV"])))


@st.composite
def a6_case(draw):
    plen = draw(st.one_of(st.integers(0, 128), st.sampled_from([0, 1, 7, 8, 9, 63, 64, 65, 120, 121, 127, 128])))
    v = int.from_bytes(draw(st.binary(min_size=16, max_size=16)), "big") & ((1 << (128 - plen)) - 1)
    nm = draw(st.lists(label, min_size=1, max_size=3).map(fit))
    prefix = draw(st.lists(label, min_size=1, max_size=3).map(fit)) if plen else b""
    return dict(kind="a6", hdr=draw(header), rr=[nm, 1, draw(u32), "A6", [plen, v.to_bytes(16, "big"), prefix]])


def message_cases():
    """Well-formed message descriptions only (for C33's seed corpus)."""
    return st.one_of(msg_case(), msg_case(), msg_case(), edns_case())


def all_cases():
    # distinct strategy objects: one_of() would merge repeats of the same object
    return st.one_of(*([msg_case() for _ in range(13)] + [edns_case(), edns_case(), badname_case(), badname_case(),
                                                          a6_case(), msg_case(big=True)]))


def _shard(sub, i):
    # several short Hypothesis runs: one long run keeps every example in its choice tree
    # (hundreds of MB per worker for these large cases) and slows down as it grows
    for j in range(5):
        if not hyp_run(sub, all_cases(), run_case, 2000, label=f"shard{i}.{j}"):
            return


# One sample record of every type, for the complete truncation scope.
TRUNC_SAMPLES = {
    "A": [b"\x01\x02\x03\x04"], "AAAA": [bytes(range(16))], "NULL": [b"null", 2], "WKS": [b"\x01\x02\x03\x04", 6, b"\x00\x20\x01"],
    "HINFO": [b"cpu", b"os"], "TXT": [[b"ab", b"", b"cde"]], "SPF": [[b"v=spf1", b"-all"]], "SSHFP": [1, 2, b"\x11" * 6],
    "SOA": [b"ns.s.test", b"who.s.test", 1, 2, 3, 4, 5], "MINFO": [b"r.s.test", b"e.s.test"], "RP": [b"m.s.test", b"t.s.test"],
    "MX": [10, b"mx.s.test"], "AFSDB": [1, b"afs.s.test"], "SRV": [1, 2, 3, b"srv.s.test"],
    "NAPTR": [1, 2, b"u", b"sip", b"!.!", b"rep.s.test"], "A6": [8, bytes([0] + [7] * 15), b"pre.s.test"],
    "TSIG": [b"hmac.s.test", 123456, 300, b"mac!", 7, 0, b"oth"], "UNKNOWN": [65280, b"blob!"],
    "OPT": [4096, 1, 0, 1, [[3, b"nsid"], [10, b"cookie12"]]],
}
for _t in SINGLE_NAME:
    TRUNC_SAMPLES[_t] = [b"host.s.test"]


def truncation_scope():
    """For one record of every type: a message [question, A, that record, A] under
    EVERY size limit from 12 up to its full length, so the cut falls at every
    octet of the record's owner name, fixed header and RDATA (and of the records
    around it).  Each case is tagged with where the cut lands."""
    hdr = dict(id=0x4321, answer=1, opCode=0, recDes=1, recAv=1, auth=1, rCode=0, trunc=0, authenticData=0, checkingDisabled=0)
    a = [b"a.s.test", 1, 60, "A", [b"\x0a\x00\x00\x01"]]
    for tname in sorted(TRUNC_SAMPLES):
        rr = [b"" if tname == "OPT" else b"o.s.test", 1, 60, tname, TRUNC_SAMPLES[tname]]
        base = dict(kind="msg", hdr=hdr, q=[[b"s.test", 255, 1]], an=[a] if tname == "OPT" else [a, rr, a],
                    ns=[], ar=[rr, a] if tname == "OPT" else [])
        full = encode_case(dict(base, limit=["abs", 0]))
        ref = Ref(full)
        try:
            ref.parse()
        except RefError:
            pass                                        # a broken encoder: run_case will say so
        ok = ref.complete and len(ref.marks["rdlen"]) >= 2
        rl = ref.marks["rdlen"][1] if ok else 0         # RDLENGTH field of the sampled record
        rdlen = int.from_bytes(full[rl:rl + 2], "big")
        rr_start = ref.marks["rdlen"][0] + 2 + 4 if ok else 0   # the first A record ends here
        for limit in range(12, len(full) + 1):
            if not ok:
                where = "untagged"
            elif limit < rr_start:
                where = "before-the-record"
            elif limit < rl + 2:
                where = "in-owner-or-fixed-header"
            elif limit < rl + 2 + rdlen:
                where = "in-rdata"                      # includes 'exactly at the start of RDATA'
            elif limit < len(full):
                where = "after-the-record"
            else:
                where = "fits"
            yield dict(base, limit=["abs", limit], tag=f"cut:{where}:{tname}" if where == "in-rdata" else f"cut:{where}")


def run(ctx):
    # complete small scope: every size limit for one record of every type
    enumerate_run(ctx, truncation_scope(), run_case)
    if ctx.has_violation():
        return
    # complete small scope: every unrepresentable dot pattern up to 6 bytes, in every place a name is encoded
    enumerate_run(ctx, [dict(kind="badname", name=n, where=w) for n in dot_pattern_names()
                        for w in ("query", "owner", "rdata-NS", "rdata-SRV")], run_case)
    # the boundaries themselves, deterministically: 64-byte label, 256-octet name, and a name first
    # written at offset 0x4000 + d (d = -2..2) that is used again later
    edge = [dict(kind="badname", name=n, where=w)
            for n in (b"b" * 64, b"x." + b"b" * 64 + b".y", b".".join([b"n" * 63] * 3 + [b"n" * 62]))
            for w in ("query", "owner", "rdata-NS", "rdata-SRV")]
    hdr0 = dict(id=1, answer=1, opCode=0, recDes=0, recAv=0, auth=0, rCode=0, trunc=0, authenticData=0, checkingDisabled=0)
    for d in (-2, -1, 0, 1, 2):
        edge.append(dict(kind="msg", hdr=hdr0, limit=["abs", 0], q=[[b"q.example", 1, 1]],
                         an=[[b"pad.example", 1, 0, "NULL", [b"\xaa", 0]], [b"late.zone", 1, 0, "A", [b"\x7f\x00\x00\x01"]]],
                         ns=[], ar=[[b"late.zone", 1, 0, "MX", [10, b"mx.late.zone"]]], pad_to=[0, d]))
    enumerate_run(ctx, edge, run_case)
    ctx.extra["small_scope"] = "every size limit 12..full length for [question, A, one sample record of each of 28 types, A] (the cut lands on every octet of every record type's RDATA); all byte strings over {a, .} up to 6 bytes with an empty label in front, inside or at the end (single trailing dot and the root excluded: representable), as query name, owner, compressed and uncompressed rdata name"
    if ctx.has_violation():
        return
    if ctx.thorough:
        ctx.shards(_shard, list(range(16)))
    else:
        hyp_run(ctx, all_cases(), run_case, 1500, label="messages")
