"""C33 — decoding arbitrary bytes as a DNS message is total and terminates.

case = {"data": bytes}.  The bytes are decoded the way the DNS protocols do it
(Message.fromStr, _EDNSMessage.fromStr, DNSDatagramProtocol.datagramReceived,
DNSProtocol.dataReceived with a complete frame).  Oracle: the call returns, or
raises EOFError / ValueError; nothing else, and within a step budget counted on
dns.readPrecisely calls (every loop of the decoders reads through it).

Inputs: valid encodings from the C32 generator, mutated with structure-aware
operations aimed with the C32 reference decoder's field positions (pointer
rewrites incl. cycles / forward / self pointers, RDLENGTH lies, count lies,
record-type swaps, label-length rewrites) and blind ones (bit flips, byte sets,
truncation, insertion, deletion, duplication); plus raw garbage behind plausible
headers.  A complete small scope is enumerated as well: for one sample record of
every type, every prefix of its message, every RDLENGTH lie and every type swap,
and a set of hand-written compression-pointer cycles.
Thorough tier additionally runs an atheris (libFuzzer) campaign with the same
oracle inside the target.
"""
import os
import struct
import subprocess
import sys

from hypothesis import strategies as st

from lib import harness
from lib.core import enumerate_run, hyp_run
from checks.c32_dns_roundtrip import (TYPE_NUM, UNKNOWN_TYPES, Ref, RefError, encode_case, message_cases)

META = dict(
    property="C33",
    level="exploration",
    technique="structure-aware mutation fuzzing (Hypothesis) of valid DNS encodings + complete enumeration of prefixes / RDLENGTH lies / type swaps for one record of every type + pointer-cycle corpus; step-counted termination; atheris campaign in the thorough tier",
    level_text="Sampling of the byte-string domain near valid messages (<= 4 KiB) plus a complete small scope (every prefix, every listed RDLENGTH lie and every type swap of 28 single-record messages). Termination is decided by a deterministic budget on readPrecisely calls (2 000 000 per decode for inputs <= 1 KiB, 10 000 000 above; a legitimate decode of such an input needs a few thousand), not by wall clock. Not exhaustive over byte strings.",
    level_note="The step counter replaces the module global dns.readPrecisely from outside (no edit to twisted); a loop that does not read would escape it (there is none in the decoders: every loop iteration of Name.decode, Record_TXT.decode, parseRecords and _OPTHeader.fromRRHeader reads). The C32 reference decoder is used only to aim mutations. atheris 3.x (from /verif/.deps) is used only in the thorough tier; if it cannot be imported the campaign is skipped with a note.",
    design_ref="§5 C33",
    rule="case = one byte string. non-trivial = it has a complete 12-octet header and a non-zero section count, i.e. decoding goes past the header into names/records; distinct by the bytes.",
)

ALLOWED = (EOFError, ValueError)


class StepLimit(BaseException):
    """Raised from the counting readPrecisely; BaseException so that no
    'except EOFError'/'except Exception' in the code under test absorbs it."""


_steps = {"n": 0, "cap": 0}


def install_counter():
    from twisted.names import dns
    if getattr(dns.readPrecisely, "_c33_counter", False):
        return
    orig = dns.readPrecisely

    def readPrecisely(file, l):
        _steps["n"] += 1
        if _steps["n"] > _steps["cap"]:
            raise StepLimit()
        return orig(file, l)

    readPrecisely._c33_counter = True
    dns.readPrecisely = readPrecisely


def step_cap(n):
    return 2_000_000 if n <= 1024 else 10_000_000


class _Controller:
    def __init__(self):
        self.got = []

    def messageReceived(self, m, proto, addr=None):
        self.got.append(m)

    def connectionMade(self, proto):
        pass

    def connectionLost(self, proto):
        pass


def _decode(ctx, case, label, fn, data):
    """Run fn(); -> 'ok' | 'EOFError' | 'ValueError'.  Anything else escapes to
    the runner (exc:<Type>@<file>:<func>), except the step limit."""
    _steps["n"] = 0
    _steps["cap"] = step_cap(len(data))
    try:
        fn()
    except ALLOWED as e:
        return "EOFError" if isinstance(e, EOFError) else "ValueError"
    except StepLimit:
        ctx.violation("decode-does-not-terminate:" + label, case,
                      f"{label} on {len(data)} octets made more than {_steps['cap']} reads (compression pointer loop?)")
    finally:
        _steps["cap"] = 1 << 62
    return "ok"


def run_case(ctx, case):
    from twisted.internet import task
    from twisted.names import dns
    from twisted.internet.testing import StringTransport
    install_counter()
    data = case["data"]

    m = dns.Message()
    out = _decode(ctx, case, "Message.fromStr", lambda: m.fromStr(data), data)
    steps = _steps["n"]
    e = dns._EDNSMessage()
    out_e = _decode(ctx, case, "_EDNSMessage.fromStr", lambda: e.fromStr(data), data)
    ctx.count("Message.fromStr:" + out)
    ctx.count("_EDNSMessage.fromStr:" + out_e)

    # UDP: malformed datagrams are logged and dropped, never "Unexpected decoding error"
    ctl = _Controller()
    udp = dns.DNSDatagramProtocol(ctl, reactor=task.Clock())
    udp.startProtocol()
    with harness.captured_log() as events:
        _decode(ctx, case, "DNSDatagramProtocol.datagramReceived",
                lambda: udp.datagramReceived(data, ("192.0.2.1", 53)), data)
    bad = harness.log_errors(events)
    if bad:
        f = bad[0].get("log_failure")
        ctx.violation("udp-unexpected-decoding-error:" + (f.type.__name__ if f is not None else "logged-error"), case,
                      f"datagramReceived logged an error instead of treating the datagram as malformed: {f.getTraceback()[-1500:] if f is not None else bad[0]!r}")
    if (out == "ok") != (len(ctl.got) == 1):
        ctx.violation("udp-delivery-differs-from-decode", case,
                      f"Message.fromStr: {out}; messages delivered to the controller: {len(ctl.got)}")

    # TCP: one complete length-prefixed frame
    if len(data) <= 0xFFFF:
        ctl = _Controller()
        tcp = dns.DNSProtocol(ctl, reactor=task.Clock())
        tcp.makeConnection(StringTransport())
        out_t = _decode(ctx, case, "DNSProtocol.dataReceived",
                        lambda: tcp.dataReceived(struct.pack("!H", len(data)) + data), data)
        if len(data) and out_t != out:
            ctx.violation("tcp-outcome-differs-from-decode", case, f"Message.fromStr: {out}; dataReceived: {out_t}")

    if len(data) >= 12 and any(data[4:12]):
        ctx.nontrivial(data)
        ctx.count("nontrivial")
        if out == "ok" and (m.queries or m.answers or m.authority or m.additional):
            ctx.count("decoded-some-entries")
            if len(data) < 120:
                ctx.sample(case)
    if case.get("shape"):
        sh = case["shape"]
        ctx.count("ptrgraph:" + sh)
        if "cycle" in sh or "self" in sh:
            ctx.count("ptrgraph:cyclic tail=%s cycle=%s" % (min(case["hops"] - case["cycle"], 3), min(case["cycle"], 4)))
    ctx.count("steps<=100" if steps <= 100 else "steps<=1000" if steps <= 1000 else "steps>1000")


# --------------------------------------------------------------------------
# mutations (pure functions of (data, op))

KNOWN_TYPES = sorted(set(TYPE_NUM.values()))


def marks_of(data):
    r = Ref(data)
    try:
        r.parse(lenient=True)
    except RefError:
        pass
    return r.marks


def _pick(seq, i):
    return seq[i % len(seq)] if seq else None


def mutate(data, op):
    kind = op[0]
    n = len(data)
    if kind == "trunc":
        return data[:op[1] % (n + 1)]
    if kind == "ins":
        p = op[1] % (n + 1)
        return data[:p] + op[2] + data[p:]
    if kind == "hdr":               # replace / prepend a header with chosen counts
        return struct.pack("!HHHHHH", op[1], op[2], *op[3]) + data[12 if op[4] else 0:]
    if n == 0:
        return data
    b = bytearray(data)
    if kind == "flip":
        b[op[1] % n] ^= 1 << op[2]
    elif kind == "set":
        b[op[1] % n] = op[2]
    elif kind == "del":
        p = op[1] % n
        del b[p:p + op[2]]
    elif kind == "dup":
        p, q = sorted((op[1] % n, op[2] % n))
        b[q:q] = b[p:q]
    elif kind == "count":
        if n >= 12:
            off = 4 + 2 * op[1]
            old = int.from_bytes(b[off:off + 2], "big")
            new = {"abs": op[3], "inc": old + 1, "dec": old - 1, "max": 65535, "zero": 0}[op[2]] & 0xFFFF
            b[off:off + 2] = new.to_bytes(2, "big")
    else:
        mk = marks_of(data)
        if kind == "ptr":
            # write a compression pointer over a name start / label / existing pointer
            where = _pick(sorted(set(mk["name"] + mk["label"] + mk["ptr"])), op[1])
            if where is not None and where + 2 <= n:
                mode = op[2]
                ptrs = sorted(set(mk["ptr"] + [where]))
                if mode == "self":
                    target = where
                elif mode == "prev-ptr":            # pointer to (another) pointer: chains and 2-cycles
                    target = _pick(ptrs, op[3])
                elif mode == "label-before":        # back to a label that runs into this pointer: loop with growth
                    cands = [x for x in mk["label"] if x < where]
                    target = _pick(cands, op[3]) if cands else where
                elif mode == "forward":
                    target = min(0x3FFF, where + 2 + op[3] % 64)
                elif mode == "beyond":
                    target = min(0x3FFF, n + op[3] % 64)
                else:
                    target = op[3] % 0x4000
                b[where:where + 2] = (0xC000 | target).to_bytes(2, "big")
        elif kind == "rdlen":
            where = _pick(mk["rdlen"], op[1])
            if where is not None and where + 2 <= n:
                old = int.from_bytes(b[where:where + 2], "big")
                new = {"abs": op[3], "inc": old + 1, "dec": old - 1, "max": 65535, "zero": 0,
                       "half": old // 2}[op[2]] & 0xFFFF
                b[where:where + 2] = new.to_bytes(2, "big")
        elif kind == "type":
            where = _pick(mk["rdlen"], op[1])
            if where is not None and where >= 8:
                b[where - 8:where - 6] = op[2].to_bytes(2, "big")
        elif kind == "lenbyte":
            where = _pick(mk["label"], op[1])
            if where is not None:
                b[where] = op[2]
    return bytes(b)


def apply_ops(data, ops):
    for op in ops:
        data = mutate(data, op)
    return data[:4096]


_pos = st.integers(0, 4095)
_idx = st.integers(0, 63)
_u16 = st.one_of(st.integers(0, 65535), st.sampled_from([0, 1, 2, 255, 256, 65535]))
_how = st.sampled_from(["abs", "inc", "dec", "max", "zero", "half"])
_counts = st.tuples(*[st.one_of(st.integers(0, 3), st.sampled_from([0, 1, 65535]))] * 4)

op = st.one_of(
    st.tuples(st.just("flip"), _pos, st.integers(0, 7)),
    st.tuples(st.just("set"), _pos, st.one_of(st.integers(0, 255), st.sampled_from([0, 0xC0, 0xFF, 0x3F, 0x40]))),
    st.tuples(st.just("trunc"), _pos),
    st.tuples(st.just("trunc"), st.integers(0, 40)),
    st.tuples(st.just("del"), _pos, st.integers(1, 8)),
    st.tuples(st.just("ins"), _pos, st.binary(min_size=1, max_size=6)),
    st.tuples(st.just("dup"), _pos, _pos),
    st.tuples(st.just("count"), st.integers(0, 3), st.sampled_from(["abs", "inc", "dec", "max", "zero"]), _u16),
    st.tuples(st.just("ptr"), _idx, st.sampled_from(["self", "prev-ptr", "label-before", "forward", "beyond", "any"]), _u16),
    st.tuples(st.just("ptr"), _idx, st.sampled_from(["self", "prev-ptr", "label-before"]), _idx),
    st.tuples(st.just("rdlen"), _idx, _how, _u16),
    st.tuples(st.just("type"), _idx, st.one_of(st.sampled_from(KNOWN_TYPES), st.sampled_from(UNKNOWN_TYPES), _u16)),
    st.tuples(st.just("lenbyte"), _idx, st.one_of(st.integers(0, 255), st.sampled_from([0, 63, 64, 0xC0, 0xFF]))),
)

_valid = message_cases().map(encode_case)

mutated = st.tuples(_valid, st.lists(op, min_size=1, max_size=4)).map(lambda t: dict(data=apply_ops(*t)))
garbage = st.tuples(_u16, _u16, _counts, st.binary(max_size=80)).map(
    lambda t: dict(data=struct.pack("!HHHHHH", t[0], t[1], *t[2]) + t[3]))
raw = st.binary(max_size=40).map(lambda b: dict(data=b))
spliced = st.tuples(_valid, _valid, _pos, _pos).map(
    lambda t: dict(data=(t[0][:t[2] % (len(t[0]) + 1)] + t[1][t[3] % (len(t[1]) + 1):])[:4096]))


def byte_cases():
    return st.one_of(mutated, mutated, mutated, mutated, mutated, garbage, raw, spliced)


# --------------------------------------------------------------------------
# complete small scope

SAMPLE_FIELDS = {
    "A": [b"\x01\x02\x03\x04"], "AAAA": [bytes(range(16))], "NULL": [b"nul", 2], "WKS": [b"\x01\x02\x03\x04", 6, b"\x00\x20"],
    "HINFO": [b"cpu", b"os"], "TXT": [[b"ab", b"", b"c"]], "SPF": [[b"v=spf1"]], "SSHFP": [1, 2, b"\x11" * 4],
    "SOA": [b"ns.s.test", b"who.s.test", 1, 2, 3, 4, 5], "MINFO": [b"r.s.test", b"e.s.test"], "RP": [b"m.s.test", b"t.s.test"],
    "MX": [10, b"mx.s.test"], "AFSDB": [1, b"afs.s.test"], "SRV": [1, 2, 3, b"srv.s.test"],
    "NAPTR": [1, 2, b"u", b"sip", b"!.!", b"rep.s.test"], "A6": [8, bytes([0] + [7] * 15), b"pre.s.test"],
    "TSIG": [b"hmac.s.test", 123456, 300, b"mac", 7, 0, b"oth"], "UNKNOWN": [65280, b"blob"],
    "OPT": [4096, 1, 0, 1, [[3, b"nsid"], [10, b"cookie12"]]],
}
for _t in ("NS", "MD", "MF", "CNAME", "MB", "MG", "MR", "PTR", "DNAME"):
    SAMPLE_FIELDS[_t] = [b"host.s.test"]

_HDR0 = dict(id=0x1234, answer=1, opCode=0, recDes=1, recAv=1, auth=0, rCode=0, trunc=0, authenticData=0, checkingDisabled=0)


def sample_message(tname):
    rr = [b"" if tname == "OPT" else b"o.s.test", 1, 60, tname, SAMPLE_FIELDS[tname]]
    return encode_case(dict(kind="msg", hdr=_HDR0, limit=["abs", 0], q=[[b"s.test", 255, 1]],
                            an=[] if tname == "OPT" else [rr], ns=[], ar=[rr] if tname == "OPT" else []))


def pointer_cycles():
    h1 = struct.pack("!HHHHHH", 1, 0, 1, 0, 0, 0)
    hrr = struct.pack("!HHHHHH", 1, 0x8000, 0, 1, 0, 0)
    tail_q = b"\x00\x01\x00\x01"
    out = [
        h1 + b"\xc0\x0c" + tail_q,                                   # pointer to itself
        h1 + b"\xc0\x0e\xc0\x0c" + tail_q,                           # two pointers at each other
        h1 + b"\x01a\xc0\x0c" + tail_q,                              # label, then back to the label
        h1 + b"\x01a\x01b\xc0\x0e" + tail_q,                         # back into the middle
        h1 + b"\xc0\x0e\xc0\x10\xc0\x12\xc0\x0c" + tail_q,           # 4-cycle
        h1 + b"\xc0\x10" + tail_q + b"\xc0\x0c",                     # forward then back
        h1 + b"\xff\xff" + tail_q,                                   # pointer far beyond the end
        hrr + b"\x01a\x00" + struct.pack("!HHIH", 2, 1, 0, 2) + b"\xc0\x17",      # NS rdata pointing at itself
        hrr + b"\x01a\x00" + struct.pack("!HHIH", 6, 1, 0, 4) + b"\xc0\x0c\xc0\x19",  # SOA rname -> itself
        hrr + b"\x01a\x00" + struct.pack("!HHIH", 15, 1, 0, 4) + b"\x00\x05\xc0\x19",  # MX exchange -> itself
        hrr + b"\xc0\x0c" + struct.pack("!HHIH", 1, 1, 0, 4) + b"\x01\x02\x03\x04",  # owner name loop
    ]
    # a long chain of pointers each to the next, the last back to the first
    chain = b"".join((0xC000 | (12 + 2 * (i + 1))).to_bytes(2, "big") for i in range(200)) + b"\xc0\x0c"
    out.append(h1 + chain + tail_q)
    # many labels then a pointer back to the first: the name grows on every lap
    out.append(h1 + b"\x01x" * 100 + b"\xc0\x0c" + tail_q)
    return out


def graph_shape(slots, start=0, first_target=None):
    """Classify the walk a name decoder makes through `slots` from `start`.
    slots[i] is ("p", j) pointer to slot j, ("l",) a one-octet label that falls
    through to slot i+1, or ("0",) the root label.  first_target: the target of a
    pointer already followed to get here.  -> (shape, pointer hops, hops inside the cycle)."""
    order = []           # slots in visiting order
    hops_at = {}         # slot -> pointer hops made before reaching it
    i, hops = start, 0
    while True:
        if i >= len(slots):
            return "runs-into-tail", hops, 0
        if i in hops_at:
            cyc = order[order.index(i):]
            if len(cyc) == 1 and hops == 1 and first_target == i and start == i:
                return "self-pointer", hops, 1
            return (("cycle-through-first-target" if first_target in cyc else "rho-cycle-avoids-first-target"),
                    hops, hops - hops_at[i])
        hops_at[i] = hops
        order.append(i)
        kind = slots[i][0]
        if kind == "0":
            return "terminates", hops, 0
        if kind == "l":
            i += 1
            continue
        if first_target is None:
            first_target = slots[i][1]
        hops += 1
        i = slots[i][1]


def pointer_graphs():
    """Every arrangement of k two-octet slots starting at offset 12, each slot a
    compression pointer to any of the k slots, a one-octet label, or the root
    label: all functional graphs (tails of every length leading into cycles of
    every length, with and without labels on the way) for k <= 4, pointers/root
    only for k = 5; plus, for k = 3, the same region entered through an earlier
    pointer from the question name at every slot.  Yields (bytes, shape)."""
    import itertools
    tail = b"\x00\x01\x00\x01" + b"\x00" * 12

    def render(slots, base):
        out = b""
        for sl in slots:
            if sl[0] == "p":
                out += (0xC000 | (base + 2 * sl[1])).to_bytes(2, "big")
            elif sl[0] == "l":
                out += b"\x01x"
            else:
                out += b"\x00\x00"
        return out

    for k in (1, 2, 3, 4, 5):
        alphabet = [("p", j) for j in range(k)] + [("0",)] + ([("l",)] if k <= 4 else [])
        for slots in itertools.product(alphabet, repeat=k):
            shape, hops, cyc = graph_shape(slots)
            yield (struct.pack("!HHHHHH", 7, 0, 1, 1, 0, 0) + render(slots, 12) + tail, shape, hops, cyc)
    k = 3
    alphabet = [("p", j) for j in range(k)] + [("0",), ("l",)]
    for slots in itertools.product(alphabet, repeat=k):
        for entry in range(k):
            shape, hops, cyc = graph_shape(slots, entry, first_target=entry)
            # question name = pointer to slot `entry`; the slot region follows the question
            d = (struct.pack("!HHHHHH", 7, 0x8000, 1, 1, 0, 0) + (0xC000 | (18 + 2 * entry)).to_bytes(2, "big")
                 + b"\x00\x01\x00\x01" + render(slots, 18) + tail)
            yield (d, "entered-by-pointer:" + shape, hops + 1, cyc)


def small_scope():
    seen = set()
    for d, shape, hops, cyc in pointer_graphs():
        if d not in seen:
            seen.add(d)
            yield dict(data=d, shape=shape, hops=hops, cycle=cyc)

    def emit(d):
        if d not in seen:
            seen.add(d)
            yield dict(data=d)

    for d in pointer_cycles():
        yield from emit(d)
    for tname in sorted(SAMPLE_FIELDS):
        w = sample_message(tname)
        for cut in range(len(w) + 1):
            yield from emit(w[:cut])
        mk = marks_of(w)
        rl = mk["rdlen"][0]
        old = int.from_bytes(w[rl:rl + 2], "big")
        for new in sorted({0, 1, 2, 3, 4, 5, old - 2, old - 1, old + 1, old + 2, 255, 256, 65535} - {old, -1, -2}):
            yield from emit(w[:rl] + new.to_bytes(2, "big") + w[rl + 2:])
        for typ in KNOWN_TYPES + [65280]:
            yield from emit(w[:rl - 8] + typ.to_bytes(2, "big") + w[rl - 6:])
            # and the same with the record cut short inside its RDATA
            for cut in (rl + 2, rl + 3, rl + 2 + old // 2, len(w) - 1):
                yield from emit((w[:rl - 8] + typ.to_bytes(2, "big") + w[rl - 6:])[:cut])


# --------------------------------------------------------------------------
# atheris campaign (thorough tier only).  atheris.Fuzz() never returns, so it
# runs in a child process: `python c33_dns_decode_total.py --atheris corpus out runs seed`.
# The target runs the same oracle; a failing input is written to `out` (hex, one
# per line) and the parent replays it through run_case -> ctx.violation.

def _atheris_child(corpus, out, runs, seed):
    import atheris
    from lib.core import Ctx, KnownFindingSkip, PropertyViolation, guarded, _quiet_twisted_logging
    _quiet_twisted_logging()
    ctx = Ctx("C33", "thorough", int(seed), META, worker=True)

    def target(data):
        data = bytes(data[:4096])
        try:
            guarded(ctx, run_case, dict(data=data))
        except KnownFindingSkip:
            return
        except PropertyViolation:
            with open(out, "a") as f:
                f.write(data.hex() + "\n")
            raise

    with atheris.instrument_imports(include=["twisted.names.dns"]):
        import twisted.names.dns  # noqa: F401  (first import: gets coverage instrumentation)
    atheris.Setup([sys.argv[0], corpus, f"-runs={runs}", f"-seed={seed}", "-max_len=4096", "-timeout=120",
                   "-print_final_stats=1", "-verbosity=0"], target)
    atheris.Fuzz()


def _atheris_shard(sub, i):
    from lib.core import VERIF
    with harness.scratch_dir("C33") as d:
        corpus = os.path.join(d, "corpus")
        os.makedirs(corpus)
        if i % 2 == 0:      # half the shards start from valid encodings, half from empty
            for k, tname in enumerate(sorted(SAMPLE_FIELDS)):
                with open(os.path.join(corpus, f"seed{k}"), "wb") as f:
                    f.write(sample_message(tname))
            for k, w in enumerate(pointer_cycles()):
                with open(os.path.join(corpus, f"cyc{k}"), "wb") as f:
                    f.write(w)
        out = os.path.join(d, "failures.txt")
        runs = int(os.environ.get("C33_ATHERIS_RUNS", "40000"))
        env = dict(os.environ, PYTHONPATH=os.pathsep.join(
            [VERIF, os.path.join(VERIF, ".deps")] + ([os.path.join(os.environ["VERIF_REPO"], "src")] if os.environ.get("VERIF_REPO") else [])))
        r = subprocess.run([sys.executable, os.path.abspath(__file__), "--atheris", corpus, out, str(runs),
                            str(sub.seed * 100 + i + 1)], env=env, capture_output=True, text=True, cwd=VERIF)
        failures = [bytes.fromhex(l.strip()) for l in open(out)] if os.path.exists(out) else []
        done = 0
        for line in r.stderr.splitlines():
            if line.startswith("stat::number_of_executed_units:"):
                done = int(line.split()[-1])
        sub.extra["atheris_executions"] = sub.extra.get("atheris_executions", 0) + done
        sub.case(done)
        sub.count("atheris executions (same oracle inside the target)", done)
        if not failures and r.returncode != 0:
            raise RuntimeError(f"atheris child failed without reporting an input (exit {r.returncode}):\n{r.stderr[-2000:]}")
        if failures:
            enumerate_run(sub, [dict(data=f) for f in failures], run_case)


def _hyp_shard(sub, i):
    # several short runs rather than one long one (Hypothesis' choice tree grows with every example)
    for j in range(5):
        if not hyp_run(sub, byte_cases(), run_case, 2000, label=f"shard{i}.{j}"):
            return


def run(ctx):
    enumerate_run(ctx, small_scope(), run_case)
    ctx.extra["small_scope"] = "every pointer graph on k<=5 slots (pointer to any slot | label | root; labels only for k<=4), k=3 also entered through a prior pointer at each slot; hand-written long cycles; for one sample record of each of 28 types: every prefix, 12 RDLENGTH lies, every known type code swapped in (whole and cut at 4 places)"
    if ctx.has_violation():
        return
    if not ctx.thorough:
        hyp_run(ctx, byte_cases(), run_case, 1500, label="bytes")
        return
    ctx.shards(_hyp_shard, list(range(16)))
    if ctx.has_violation():
        return
    try:
        import atheris  # noqa: F401
    except ImportError as e:
        ctx.note(f"atheris campaign skipped: {e}")
        return
    ctx.shards(_atheris_shard, list(range(8)), procs=8)


if __name__ == "__main__" and len(sys.argv) >= 6 and sys.argv[1] == "--atheris":
    _atheris_child(*sys.argv[2:6])
