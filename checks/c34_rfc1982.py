"""C34 — RFC 1982 serial number arithmetic vs a reference written from §3.1/§3.2."""
from hypothesis import strategies as st

from lib.core import hyp_run, enumerate_run

META = dict(
    property="C34",
    level="exploration",
    technique="exhaustive enumeration of all pairs for small widths + Hypothesis random pairs for wide rings, against an RFC 1982 reference",
    level_text="All (width, a, b) for widths 1..8 (quick) / 1..10 (thorough) are enumerated completely against a modular-integer reference of RFC 1982 §3.1-3.2; widths 11..128 are sampled with Hypothesis biased to the half-ring and wrap boundaries. Not the proof the quantifier mentions: exhaustive for small widths, sampled beyond.",
    level_note="Reference model (ref_cmp/ref_add) written from RFC 1982, trusted. Python int arithmetic trusted.",
    design_ref="§5 C34",
    rule="case = (bits, a, b, n). small widths: every (a, b) pair and every addend n in 0..2^bits-1. non-trivial = pair is unequal and (half a ring apart, or the numeric order and the serial order disagree (wrap), or n is at the maxAdd boundary); distinct by (bits, a, b, n).",
)


def ref_cmp(bits, a, b):
    """RFC 1982 §3.2: 'lt', 'gt', 'eq' or 'undef'."""
    m = 1 << bits
    d = (b - a) % m
    if d == 0:
        return "eq"
    if d == m // 2:
        return "undef"
    return "lt" if d < m // 2 else "gt"


def run_case(ctx, case):
    from twisted.names._rfc1982 import SerialNumber
    bits, a, b, n = case["bits"], case["a"], case["b"], case["n"]
    A = SerialNumber(a, bits)
    B = SerialNumber(b, bits)
    m = 1 << bits
    exp = ref_cmp(bits, a % m, b % m)
    got = dict(lt=bool(A < B), gt=bool(A > B), eq=bool(A == B), le=bool(A <= B),
               ge=bool(A >= B), ne=bool(A != B))
    want = dict(lt=exp == "lt", gt=exp == "gt", eq=exp == "eq",
                le=exp in ("lt", "eq"), ge=exp in ("gt", "eq"), ne=exp != "eq")
    for k in want:
        if got[k] != want[k]:
            ctx.violation(f"compare-{k}", case, f"bits={bits} a={a} b={b}: {k} is {got[k]}, RFC says {want[k]} ({exp})")
    # symmetric view
    if bool(B > A) != want["lt"] or bool(B < A) != want["gt"]:
        ctx.violation("compare-asymmetric", case, f"bits={bits} a={a} b={b}")
    if int(A) != a % m:
        ctx.violation("value", case, f"int() gives {int(A)}")
    # addition
    max_add = (1 << (bits - 1)) - 1
    N = SerialNumber(n, bits)
    nn = n % m
    try:
        S = A + N
    except ArithmeticError:
        S = None
    if nn <= max_add:
        if S is None:
            ctx.violation("add-refused-in-range", case, f"bits={bits} s={a} n={n}")
        if int(S) != (a + nn) % m or S._serialBits != bits:
            ctx.violation("add-wrong-sum", case, f"bits={bits} s={a} n={n}: {int(S)}")
        if nn > 0 and not (S > A and A < S and not (S == A) and S >= A and not (S <= A)):
            ctx.violation("add-not-greater", case, f"bits={bits} s={a} n={n}")
        if nn == 0 and not (S == A):
            ctx.violation("add-zero-changed", case, f"bits={bits} s={a}")
    else:
        if S is not None:
            ctx.violation("add-accepted-out-of-range", case, f"bits={bits} s={a} n={n}: {int(S)}")
    # bookkeeping
    am, bm = a % m, b % m
    nt = am != bm and (exp == "undef" or (am < bm) != (exp == "lt")) or nn in (max_add, max_add + 1)
    if nt:
        ctx.nontrivial((bits, am, bm, nn))
        ctx.count("nontrivial")
    ctx.count("cmp=" + exp)
    if len(ctx.samples) < 5 and nt and (am * 7 + bm) % 11 == 3:
        ctx.sample(case)


def _enum_width(ctx, bits):
    m = 1 << bits

    def cases():
        for a in range(m):
            for b in range(m):
                # the addend runs through the whole ring as b does
                yield dict(bits=bits, a=a, b=b, n=b)
    enumerate_run(ctx, cases(), run_case)


def run(ctx):
    widths = list(range(1, ctx.pick(9, 11)))
    ctx.shards(_enum_width, widths)
    ctx.extra["exhaustive_widths"] = widths
    ctx.exhaustive = False  # the property quantifies over all widths; only these are complete
    if ctx.has_violation():
        return

    @st.composite
    def wide(draw):
        bits = draw(st.one_of(st.sampled_from([16, 32, 64, 128]), st.integers(11, 128)))
        m = 1 << bits
        half = m >> 1
        a = draw(st.one_of(st.integers(0, m - 1), st.sampled_from([0, 1, half - 1, half, half + 1, m - 1])))
        delta = draw(st.one_of(
            st.integers(0, m - 1),
            st.sampled_from([0, 1, 2, half - 2, half - 1, half, half + 1, half + 2, m - 2, m - 1])))
        b = (a + delta) % m
        n = draw(st.one_of(st.integers(0, m - 1),
                           st.sampled_from([0, 1, half - 2, half - 1, half, half + 1, m - 1])))
        return dict(bits=bits, a=a, b=b, n=n)

    hyp_run(ctx, wide(), run_case, ctx.pick(4000, 200000), label="wide")
