"""C35 — SSH binary packet transport: payloads arrive intact and in order under
every cipher x MAC x compression the transport offers and any segmentation
(incl. pre-version banner lines); a tampered MAC-protected packet is never
delivered and causes a disconnect.

Harness: a real SSHServerTransport <-> SSHClientTransport pair over in-memory
byte queues, real curve25519/ed25519 key exchange per case (no crypto is
mocked).  The oracle looks only at *delivered payloads* and at *disconnects*,
never at ciphertext (key-exchange randomness is not under our control); a
corruption offset is taken relative to the recorded wire bytes of that run.
"""
import hashlib

from hypothesis import strategies as st

from lib.core import hyp_run, enumerate_run, HarnessError

META = dict(
    property="C35",
    level="exploration",
    technique="metamorphic segmentation invariance + single-byte fault injection on a real in-memory SSH transport pair (real KEX), complete cipher x MAC x compression matrix, complete per-byte tamper sweep of one packet per combination",
    level_text="Every offered cipher x MAC x compression combination (7 x 5 x 2 on this cryptography build; 3des-ctr is not offered) is exercised in both directions; random payload sequences (0..40 KiB, message numbers 50..255), random segmentations of the handshake and of the data stream (incl. byte-wise), generated banner lines before the server's version line, optional re-key (either side) in mid-stream, and one XOR-ed byte at a generated offset of one generated packet. Per combination one short packet is tampered at every byte offset (complete sweep). In a third of the random cases and once per combination client and server offer different preference lists (the RFC 4253 7.1 choice must be made identically by both sides). Exploration, not proof.",
    level_note="Trusted: cryptography/OpenSSL, zlib, the in-memory wire double (stops delivering to a side after it called loseConnection, like a TCP transport). sendPacket is observed through a pass-through probe on the instance (original method runs unchanged). Banner lines are sent by the server only (RFC 4253 4.2) and kept small enough that banner+version+KEXINIT < 4096 bytes in every segmentation (the 4 KiB pre-version guard is not part of the statement). Tampering is injected on the data direction only.",
    design_ref="§5 C35",
    rule="case = (cipher, mac, compression [or a preference list of each per side, negotiated per RFC 4253 7.1], direction, banner lines, handshake segment sizes, op list [send(num,payload) | rekey(side) | deliver(n) | back(n)], data segment sizes, optional (write index, offset, xor mask)). non-trivial = a payload packet spanning >= 3 cipher blocks reached the receiver in >= 3 segments, or a tamper that hit a written packet; distinct by the whole case.",
)

CIPHERS = None
MACS = None
COMPS = None

HOSTKEY_SEED = bytes.fromhex(
    "9d61b19deffd5a60ba844af492ec2cc44449c5697b326919703bac031cae7f60")

MSG_IGNORE = 2
MAX_FILLER = (1 << 20) + (160 << 10)


def _offered():
    global CIPHERS, MACS, COMPS
    if CIPHERS is None:
        from twisted.conch.ssh import transport
        B = transport.SSHTransportBase
        CIPHERS = [c.decode() for c in B.supportedCiphers]
        MACS = [m.decode() for m in B.supportedMACs]
        COMPS = [c.decode() for c in B.supportedCompressions]
    return CIPHERS, MACS, COMPS


class Wire:
    """One direction's byte queue + the transport double of its writer."""
    disconnecting = False

    def __init__(self, prefix=b""):
        self.writes = []          # every write, in order
        self.pending = bytearray()
        self.prefix = prefix
        self.lost = False
        self.corrupt = None       # (absolute write index, off, mask)
        self.corrupted_at = None  # (write index, stream offset of altered byte, stream end of that write)
        self.total = 0            # bytes ever written
        self.delivered = 0        # bytes handed to the peer

    def write(self, data):
        data = bytes(data)
        if self.prefix:
            data, self.prefix = self.prefix + data, b""
        idx = len(self.writes)
        if self.corrupt is not None and idx == self.corrupt[0] and data:
            off = self.corrupt[1] % len(data)
            b = bytearray(data)
            b[off] ^= self.corrupt[2]
            data = bytes(b)
            self.corrupted_at = (idx, self.total + off, self.total + len(data), off, len(data))
        self.writes.append(data)
        self.pending += data
        self.total += len(data)

    def writeSequence(self, seq):
        self.write(b"".join(seq))

    def loseConnection(self):
        self.lost = True

    def getPeer(self):
        return None

    def getHost(self):
        return None

    def logPrefix(self):
        return "c35"

    def take(self, n):
        chunk = bytes(self.pending[:n])
        del self.pending[:n]
        self.delivered += len(chunk)
        return chunk


_CLS = None


def _classes():
    global _CLS
    if _CLS is not None:
        return _CLS
    from twisted.conch.ssh import transport, factory, keys, service
    from twisted.internet import defer
    from cryptography.hazmat.primitives.asymmetric.ed25519 import Ed25519PrivateKey

    hostkey = keys.Key(Ed25519PrivateKey.from_private_bytes(HOSTKEY_SEED))

    class Recorder(service.SSHService):
        name = b"ssh-userauth"

        def __init__(self):
            self.got = []

        def packetReceived(self, num, payload):
            self.got.append((num, payload))

    class _Obs:
        def _obs_init(self):
            self.errors = []
            self.unimplemented = []

        def receiveError(self, code, desc):
            self.errors.append((code, desc))

        def receiveUnimplemented(self, seqnum):
            self.unimplemented.append(seqnum)

    class Server(_Obs, transport.SSHServerTransport):
        pass

    class Client(_Obs, transport.SSHClientTransport):
        secured = 0

        def verifyHostKey(self, hostKey, fingerprint):
            return defer.succeed(True)

        def connectionSecure(self):
            self.secured += 1
            if self.secured == 1:
                self.requestService(Recorder())

    class Fac(factory.SSHFactory):
        protocol = Server
        services = {b"ssh-userauth": Recorder}

        def getPublicKeys(self):
            return {b"ssh-ed25519": hostkey.public()}

        def getPrivateKeys(self):
            return {b"ssh-ed25519": hostkey}

        def getPrimes(self):
            return None

    _CLS = (Fac, Client)
    return _CLS


def _build(case):
    Fac, Client = _classes()
    f = Fac()
    f.startFactory()
    s = f.buildProtocol(None)
    c = Client()
    offer = case.get("offer")
    for t, who in ((s, "s"), (c, "c")):
        t._obs_init()
        if offer:
            # each side offers its own preference list (RFC 4253 7.1: the
            # first algorithm on the client's list that the server also lists)
            t.supportedCiphers = [x.encode() for x in offer[who]["ciphers"]]
            t.supportedMACs = [x.encode() for x in offer[who]["macs"]]
            t.supportedCompressions = [x.encode() for x in offer[who]["comps"]]
        else:
            t.supportedCiphers = [case["cipher"].encode()]
            t.supportedMACs = [case["mac"].encode()]
            t.supportedCompressions = [case["comp"].encode()]
        t.supportedKeyExchanges = [b"curve25519-sha256"]
    sw = Wire(b"".join(case.get("banner") or []))
    cw = Wire()
    s.makeConnection(sw)
    c.makeConnection(cw)
    return s, c, sw, cw


def ref_negotiate(client, server):
    """RFC 4253 7.1: first name on the client's list that is also on the server's."""
    for name in client:
        if name in server:
            return name
    return None


def _cyc(sizes, i):
    return max(1, int(sizes[i % len(sizes)]))


def _banner_class(banner):
    if not banner:
        return "none"
    if any(b"SSH-" in ln for ln in banner):
        return "midline-SSH-marker"
    return "plain"


def run_case(ctx, case):
    ciphers, macs, comps = _offered()
    if case["cipher"] not in ciphers or case["mac"] not in macs or case["comp"] not in comps:
        raise HarnessError("case names an algorithm this build does not offer: %r" % (case,))
    offer = case.get("offer")
    if offer:
        for kind, field, pool in (("ciphers", "cipher", ciphers), ("macs", "mac", macs), ("comps", "comp", comps)):
            lc, ls = offer["c"][kind], offer["s"][kind]
            if any(x not in pool for x in lc + ls) or ref_negotiate(lc, ls) != case[field]:
                raise HarnessError("offer lists do not negotiate to the case's %s" % field)
    banner = case.get("banner") or []
    for ln in banner:
        if not ln.endswith(b"\n") or b"\n" in ln[:-1] or ln.startswith(b"SSH-"):
            raise HarnessError("illegal banner line in case")
    hs = case.get("hs") or [1 << 20]
    segs = case.get("segs") or [1 << 20]
    s, c, sw, cw = _build(case)
    if len(sw.pending) > 4000 or len(cw.pending) > 4000:
        raise HarnessError("banner too large for the pre-version guard")

    # ---- phase 1: handshake under generated segmentation --------------------
    i = 0
    guard = 0
    rx = bytearray()          # what the client has received before the version line was complete
    version_seen = False
    trig_newline = trig_marker = False
    while (sw.pending or cw.pending) and not (sw.lost or cw.lost):
        if sw.pending:
            chunk = sw.take(_cyc(hs, i))
            i += 1
            if not version_seen:
                # classification only (for the two listed findings): did this
                # delivery end in a state that fools dataReceived's
                # "is the version line complete" guard?
                rx += chunk
                if any(ln.startswith(b"SSH-") for ln in bytes(rx).split(b"\n")[:-1]):
                    version_seen = True
                else:
                    p = rx.find(b"SSH-")
                    if p == -1:
                        trig_newline = trig_newline or rx.endswith(b"\n")
                    elif rx.find(b"\n", p) != -1:
                        trig_marker = True
            c.dataReceived(chunk)
        if cw.pending and not (sw.lost or cw.lost):
            s.dataReceived(cw.take(_cyc(hs, i)))
            i += 1
        guard += 1
        if guard > 200000:
            raise HarnessError("handshake does not quiesce")
    bclass = _banner_class(banner)
    established = (not sw.lost and not cw.lost
                   and s.service is not None and c.service is not None)
    if not established:
        detail = (f"handshake failed: server lost={sw.lost} client lost={cw.lost} "
                  f"server.service={s.service!r} client.service={c.service!r} "
                  f"errors seen by server={s.errors!r} by client={c.errors!r}; "
                  f"banner={b''.join(banner)!r} handshake segment sizes={hs!r}")
        if trig_marker:
            ctx.violation("preversion-banner-midline-SSH-marker", case, detail)
        if trig_newline:
            ctx.violation("preversion-delivery-ends-at-banner-newline", case, detail)
        ctx.violation("handshake-failed", case, detail)
    if s.errors or c.errors or s.unimplemented or c.unimplemented:
        ctx.violation("handshake-spurious-error", case,
                      f"errors={s.errors!r}/{c.errors!r} unimplemented={s.unimplemented!r}/{c.unimplemented!r}")
    ctx.count("banner=" + bclass)

    # ---- phase 2: data -----------------------------------------------------
    if case["dir"] == "c2s":
        S, R, SW, RW = c, s, cw, sw
    else:
        S, R, SW, RW = s, c, sw, cw
    rec = R.service
    base_writes = len(SW.writes)
    base_total = SW.total
    meta = {}            # write index (absolute) -> (msg type, payload)
    orig_send = S.sendPacket

    def probe(messageType, payload):
        n = len(SW.writes)
        orig_send(messageType, payload)
        if len(SW.writes) == n + 1:
            meta[n] = (messageType, payload)
        elif len(SW.writes) != n:
            raise HarnessError("sendPacket wrote more than once")

    S.sendPacket = probe
    cor = case.get("corrupt")
    if cor is not None:
        k, off, mask = cor
        if not 1 <= mask <= 255:
            raise HarnessError("mask")
        SW.corrupt = (base_writes + k, off, mask)

    sent = []
    seg_log = []         # (start, end) stream offsets of each S->R delivery
    state = dict(si=0, bi=0, lost_at=None, rekeys=0)

    def fwd():
        if not SW.pending or RW.lost:
            return False
        n = _cyc(segs, state["si"])
        state["si"] += 1
        start = SW.delivered
        chunk = SW.take(n)
        seg_log.append((start, start + len(chunk)))
        R.dataReceived(chunk)
        if RW.lost and state["lost_at"] is None:
            state["lost_at"] = SW.delivered
        return True

    def back():
        if not RW.pending or SW.lost:
            return False
        n = _cyc(hs, state["bi"])
        state["bi"] += 1
        S.dataReceived(RW.take(n))
        return True

    for op in case["ops"]:
        if RW.lost or SW.lost:
            break
        kind = op[0]
        if kind == "send":
            _, num, payload = op
            if not 50 <= num <= 255:
                raise HarnessError("message number")
            sent.append((num, payload))
            S.sendPacket(num, payload)
        elif kind == "rekey":
            t = S if op[1] == "S" else R
            try:
                t.sendKexInit()
                state["rekeys"] += 1
            except RuntimeError:
                # documented: a key exchange is already in progress
                ctx.count("rekey refused (already in progress)")
        elif kind == "deliver":
            for _ in range(op[1]):
                if not fwd():
                    break
        elif kind == "back":
            for _ in range(op[1]):
                if not back():
                    break
        else:
            raise HarnessError("unknown op %r" % (op,))
    guard = 0
    while True:
        a = fwd()
        b = back()
        if not a and not b:
            break
        guard += 1
        if guard > 3000000:
            raise HarnessError("data phase does not quiesce")

    hit = SW.corrupted_at
    filler = 0
    if hit is not None and not RW.lost and not SW.lost:
        # Altered length field: the receiver may be waiting for up to 1 MiB of
        # a bogus packet.  Keep sending valid (incompressible) traffic.
        n = 0
        while not RW.lost and filler < MAX_FILLER:
            chunk = hashlib.shake_256(b"C35-filler-%d" % n).digest(32768)
            n += 1
            S.sendPacket(MSG_IGNORE, chunk)
            filler += 32768
            while SW.pending and not RW.lost:
                start = SW.delivered
                data = SW.take(1 << 16)
                seg_log.append((start, start + len(data)))
                R.dataReceived(data)
            if RW.lost and state["lost_at"] is None:
                state["lost_at"] = SW.delivered
    # let the sender hear what the receiver had to say
    while RW.pending and not SW.lost:
        S.dataReceived(RW.take(1 << 16))

    got = list(rec.got)
    bs = R.currentEncryptions.decBlockSize
    ctr = case["cipher"].endswith("-ctr")

    if hit is None:
        # ---- clean run: exactly the sent payloads, in order ----------------
        if got != sent:
            j = 0
            while j < len(got) and j < len(sent) and got[j] == sent[j]:
                j += 1
            what = "clean-payload-mismatch"
            if len(got) < len(sent) and got == sent[:len(got)]:
                what = "clean-payloads-missing"
            elif len(got) > len(sent) and got[:len(sent)] == sent:
                what = "clean-payloads-extra"
            sj = (sent[j][0], sent[j][1][:40]) if j < len(sent) else None
            gj = (got[j][0], got[j][1][:40]) if j < len(got) else None
            ctx.violation(what, case,
                          f"sent {len(sent)} payloads, delivered {len(got)}; first difference at #{j}: "
                          f"sent={sj!r} got={gj!r} receiver lost={RW.lost} errors at sender={S.errors!r}")
        if RW.lost or SW.lost:
            ctx.violation("clean-disconnect", case,
                          f"untampered stream: receiver lost={RW.lost} sender lost={SW.lost} "
                          f"errors seen by sender={S.errors!r} by receiver={R.errors!r}")
        if S.errors or R.errors or S.unimplemented or R.unimplemented:
            ctx.violation("clean-spurious-error", case,
                          f"errors={S.errors!r}/{R.errors!r} unimplemented={S.unimplemented!r}/{R.unimplemented!r}")
        datameta = [meta[i] for i in sorted(meta) if meta[i][0] >= 50]
        if datameta != sent:
            ctx.violation("clean-sender-dropped-or-reordered", case,
                          f"{len(sent)} payloads given to sendPacket, {len(datameta)} written")
        ctx.count("clean")
        if cor is not None:
            ctx.count("tamper aimed past the last write (clean run)")
    else:
        # ---- tampered run ---------------------------------------------------
        widx, pos, wend, woff, wlen = hit
        expected = [meta[i] for i in sorted(meta) if i < widx and meta[i][0] >= 50]
        mtype = meta.get(widx, (None, b""))[0]
        if not RW.lost:
            ctx.violation("tamper-no-disconnect", case,
                          f"byte {woff} of a {wlen}-byte packet (msg {mtype}) xor {cor[2]:#x}: receiver never disconnected "
                          f"(after {filler} filler bytes); delivered {len(got)} payloads, {len(expected)} precede the altered packet")
        if got != expected:
            sig = "tamper-wrong-delivery"
            if len(got) > len(expected) and got[:len(expected)] == expected:
                sig = "tamper-altered-or-later-packet-delivered"
            elif got == expected[:len(got)]:
                sig = "tamper-earlier-packet-lost"
            ctx.violation(sig, case,
                          f"byte {woff} of a {wlen}-byte packet (msg {mtype}) xor {cor[2]:#x}: "
                          f"{len(expected)} payloads precede the altered packet, {len(got)} were delivered; "
                          f"last delivered={(got[-1][0], got[-1][1][:40]) if got else None!r}")
        lost_at = state["lost_at"]
        if lost_at is not None and lost_at <= pos:
            ctx.violation("tamper-disconnect-before-altered-byte", case,
                          f"receiver disconnected after {lost_at} stream bytes, altered byte is at {pos}")
        len_intact = woff >= (4 if ctr else bs)
        if len_intact:
            # length field untouched: the MAC check must fire as soon as the
            # packet is complete
            seg_end = None
            for a, b in seg_log:
                if b >= wend:
                    seg_end = b
                    break
            if lost_at is None or seg_end is None or lost_at > seg_end:
                ctx.violation("tamper-late-disconnect", case,
                              f"altered packet complete at stream offset {wend} (delivery ending at {seg_end}), "
                              f"disconnect only after {lost_at}")
            ctx.count("tamper: length intact")
        else:
            ctx.count("tamper: length field hit")
            if filler:
                ctx.count("tamper: needed filler")
        if state["rekeys"] == 0:
            if not S.errors:
                ctx.violation("tamper-no-disconnect-message", case,
                              "receiver closed but the sender never got MSG_DISCONNECT")
            for code, _ in S.errors:
                ctx.count(f"disconnect code {code}")
        region = ("mac" if woff >= wlen - R.currentEncryptions.verifyDigestSize else
                  "len" if woff < 4 else "padlen" if woff == 4 else "body")
        ctx.count("tamper region=" + region)
        ctx.count("tamper msg=" + ("data" if (mtype or 0) >= 50 else "kex/other"))

    # ---- bookkeeping ---------------------------------------------------------
    ctx.count(f"cipher={case['cipher']}")
    ctx.count(f"mac={case['mac']}")
    ctx.count(f"comp={case['comp']}")
    ctx.count(f"dir={case['dir']}")
    if offer:
        ctx.count("offer: preference lists")
        asym = [k for k in ("ciphers", "macs", "comps")
                if ref_negotiate(offer["c"][k], offer["s"][k]) != ref_negotiate(offer["s"][k], offer["c"][k])]
        for k in asym:
            ctx.count(f"offer: client and server prefer different {k}")
    if state["rekeys"]:
        ctx.count("with rekey")
    nt = hit is not None
    # stream extents of the data writes
    offs = {}
    o = base_total
    for i in range(base_writes, len(SW.writes)):
        offs[i] = (o, o + len(SW.writes[i]))
        o += len(SW.writes[i])
    multi = 0
    for i, (t, p) in meta.items():
        if t >= 50 and i in offs:
            a, b = offs[i]
            if b - a >= 3 * bs + R.currentEncryptions.verifyDigestSize:
                n = sum(1 for (x, y) in seg_log if x < b and y > a)
                if n >= 3:
                    multi += 1
    if multi:
        nt = True
        ctx.count("payload >=3 blocks in >=3 segments")
    if any(len(p) >= 32768 for _, p in sent):
        ctx.count("payload >= 32 KiB")
    if any(len(p) == 0 for _, p in sent):
        ctx.count("empty payload")
    if nt:
        ctx.nontrivial(case)
        ctx.count("nontrivial")
        if len(ctx.samples) < 5 and len(str(case)) < 1500:
            ctx.sample(case)


# ---------------------------------------------------------------------------
# generators

def _combos():
    ciphers, macs, comps = _offered()
    return [(c, m, z) for c in ciphers for m in macs for z in comps]


def _sweep_cases(ctx, idx):
    """Complete tamper sweep: one short packet between two others, every byte."""
    combos = _combos()
    c, m, z = combos[idx]
    dirs = ["c2s", "s2c"] if ctx.thorough else [["c2s", "s2c"][idx % 2]]
    masks = [0x01, 0x80] if ctx.thorough else [[0x01, 0x80, 0xFF][idx % 3]]
    p0, p1, p2 = b"first", b"0123456789abcdefghij", b"third"
    for d in dirs:
        base = dict(cipher=c, mac=m, comp=z, dir=d, banner=[], hs=[1 << 20], segs=[1 << 20],
                    ops=[("send", 200, p0), ("send", 201, p1), ("send", 202, p2)], corrupt=None)
        yield base
        yield dict(base, segs=[1])
        yield dict(base, segs=[5, 13], hs=[9], banner=[b"hello\r\n", b"\n", b"world\n"])
        # both sides offer two algorithms of each kind in opposite preference
        # order: the client's preference (this combination) must win on both sides
        ciphers, macs, comps = _offered()
        oc = ciphers[(ciphers.index(c) + 1 + idx) % len(ciphers)]
        om = macs[(macs.index(m) + 1 + idx) % len(macs)]
        oz = comps[(comps.index(z) + 1) % len(comps)]
        pair = lambda a, b: [a] if a == b else [a, b]
        rpair = lambda a, b: [a] if a == b else [b, a]
        yield dict(base, segs=[7], ops=base["ops"] + [("rekey", "R"), ("send", 203, b"after rekey")],
                   offer=dict(c=dict(ciphers=pair(c, oc), macs=pair(m, om), comps=pair(z, oz)),
                              s=dict(ciphers=rpair(c, oc), macs=rpair(m, om), comps=rpair(z, oz))))
        # quick: the sweep is over cipher x MAC (compression does not take part
        # in tamper detection: the MAC is checked first); thorough: all.
        if not ctx.thorough and z != ["none", "zlib"][(idx // 2) % 2]:
            continue
        L = _packet_len(dict(cipher=c, mac=m, comp=z, dir=d))
        for mask in masks:
            for off in range(L):
                yield dict(base, corrupt=(1, off, mask))
                if off % 7 == 3:
                    yield dict(base, corrupt=(1, off, mask), segs=[3])


def _sweep(ctx, shard):
    n = len(_combos())
    for idx in range(shard, n, 16):
        if not enumerate_run(ctx, _sweep_cases(ctx, idx), run_case):
            return


def _packet_len(cfg):
    """Wire length of the sweep's middle packet for this configuration."""
    case = dict(cfg, banner=[])
    s, c, sw, cw = _build(case)
    while sw.pending or cw.pending:
        if sw.pending:
            c.dataReceived(sw.take(1 << 20))
        if cw.pending:
            s.dataReceived(cw.take(1 << 20))
    S, SW = (c, cw) if cfg["dir"] == "c2s" else (s, sw)
    n = len(SW.writes)
    S.sendPacket(200, b"first")
    S.sendPacket(201, b"0123456789abcdefghij")
    return len(SW.writes[n + 1])


def _strategy(thorough):
    ciphers, macs, comps = _offered()
    sizes_small = st.integers(1, 40)
    size_list = st.one_of(
        st.just([1 << 20]),                                   # whole
        st.just([1]),                                         # byte-wise
        st.lists(sizes_small, min_size=1, max_size=6),
        st.lists(st.integers(1, 2000), min_size=1, max_size=6),
    )
    text = st.binary(min_size=0, max_size=60).map(lambda b: b.replace(b"\n", b"."))
    plain_line = text.filter(lambda b: not b.startswith(b"SSH-") and b"SSH-" not in b)
    marker_line = st.tuples(st.binary(min_size=1, max_size=10), st.binary(max_size=10)).map(
        lambda t: (t[0].replace(b"\n", b".") + b"SSH-" + t[1].replace(b"\n", b"."))).filter(
        lambda b: not b.startswith(b"SSH-"))
    eol = st.sampled_from([b"\r\n", b"\n"])

    def lines(line_st):
        return st.lists(st.tuples(line_st, eol).map(lambda t: t[0] + t[1]), min_size=1, max_size=6)

    banner = st.one_of(
        st.just([]), st.just([]),
        lines(plain_line), lines(plain_line),
        st.tuples(lines(plain_line), marker_line, eol, st.lists(st.tuples(plain_line, eol).map(lambda t: t[0] + t[1]), max_size=2)).map(
            lambda t: t[0][:2] + [t[1] + t[2]] + t[3]),
    )
    big = 40960
    payload = st.one_of(
        st.binary(max_size=64),
        st.binary(max_size=64),
        st.binary(min_size=0, max_size=1200),
        st.tuples(st.binary(min_size=1, max_size=32), st.integers(1, big)).map(
            lambda t: (t[0] * (t[1] // len(t[0]) + 1))[:t[1]]),       # long, compressible
        st.tuples(st.binary(min_size=1, max_size=8), st.integers(1, big)).map(
            lambda t: hashlib.shake_256(t[0]).digest(t[1])),          # long, incompressible
    )
    send = st.tuples(st.just("send"), st.one_of(st.just(200), st.integers(50, 255)), payload)
    op = st.one_of(
        send, send, send, send,
        st.tuples(st.just("deliver"), st.integers(1, 6)),
        st.tuples(st.just("back"), st.integers(1, 6)),
        st.tuples(st.just("rekey"), st.sampled_from(["S", "R"])),
    )
    ops = st.lists(op, min_size=1, max_size=12)
    corrupt = st.one_of(
        st.none(),
        st.tuples(st.integers(0, 8), st.integers(0, 1 << 16),
                  st.one_of(st.integers(1, 255), st.sampled_from([1, 2, 4, 8, 16, 32, 64, 128]))),
        st.tuples(st.integers(0, 8), st.integers(0, 5), st.integers(1, 255)),   # aim at the length bytes
    )
    single = st.builds(
        dict,
        cipher=st.sampled_from(ciphers), mac=st.sampled_from(macs), comp=st.sampled_from(comps),
        dir=st.sampled_from(["c2s", "s2c"]),
        banner=banner, hs=size_list, segs=size_list, ops=ops, corrupt=corrupt,
    )

    def prefs(pool):
        # (client list, server list): permuted sub-lists with a common element
        sub = st.lists(st.sampled_from(pool), min_size=1, max_size=min(4, len(pool)), unique=True)
        return st.tuples(sub, sub).filter(lambda t: ref_negotiate(t[0], t[1]) is not None)

    def with_offer(t):
        base, (cc, sc), (cm, sm), (cz, sz) = t
        return dict(base, cipher=ref_negotiate(cc, sc), mac=ref_negotiate(cm, sm), comp=ref_negotiate(cz, sz),
                    offer=dict(c=dict(ciphers=cc, macs=cm, comps=cz), s=dict(ciphers=sc, macs=sm, comps=sz)))

    listed = st.tuples(single, prefs(ciphers), prefs(macs), prefs(comps)).map(with_offer)
    return st.one_of(single, single, listed)


def _hyp_shard(ctx, i):
    hyp_run(ctx, _strategy(True), run_case, 1500, label=f"shard{i}")


def run(ctx):
    combos = _combos()
    ctx.extra["combinations"] = len(combos)
    if ctx.thorough:
        ctx.shards(_sweep, list(range(16)))
    else:
        # single core: the key exchange draws OS randomness per case, which
        # scales badly across processes on a shared machine
        for shard in range(16):
            _sweep(ctx, shard)
            if ctx.has_violation():
                return
    ctx.extra["tamper_sweep"] = "every byte of one 20-byte-payload packet, per combination"
    ctx.exhaustive = False
    if ctx.has_violation():
        return
    if ctx.thorough:
        ctx.shards(_hyp_shard, list(range(16)))
    else:
        hyp_run(ctx, _strategy(False), run_case, 900, label="random")
