"""C36 — SSH channel flow control: two real SSHConnection services joined by a
harness-owned message queue; a model written from RFC 4254 §5.2 watches every
message either side sends.

Oracle (per direction X -> Y, computed from the message log only, never from
the channels' own counters):
  * every CHANNEL_DATA / CHANNEL_EXTENDED_DATA that X sends fits in the window
    Y has granted *and X has been told about* minus what X already sent, and
    in Y's advertised maximum packet size;
  * what Y's channel receives is, per stream (normal data, each extended
    type), a prefix of what X's user wrote, and the whole of it at quiescence
    unless Y has sent its CLOSE (a receiver whose own close is only pending
    behind buffered data is still open and must keep replenishing);
  * X sends CHANNEL_CLOSE only after every byte its user wrote has been sent,
    and only because its user asked for it or the peer closed first (so a
    compliant sender is never refused with a close);
  * nothing is sent on a channel after its CLOSE.
"""
import struct

from hypothesis import strategies as st

from lib.core import hyp_run, enumerate_run, HarnessError

META = dict(
    property="C36",
    level="exploration",
    technique="random + small-scope-exhaustive operation histories over a real SSHConnection pair with a controlled message queue, checked against an RFC 4254 window model built from the message log",
    level_text="Histories of write / writeExtended(type) / loseConnection / manual adjustWindow on either endpoint, including writes and loseConnection issued re-entrantly from the channel's startWriting() callback (a resumed push producer), interleaved with message-by-message delivery in either direction; window sizes and maximum packet sizes from 1 byte up to the defaults (131072 / 32768). Quick tier additionally enumerates every history of length <= 4 over a small alphabet for windows/packet limits in {1,2,3}. Quiescence (everything delivered) stands in for 'once enough window is granted'.",
    level_note="Both endpoints are the code under test (the receiver's replenishment policy is part of the property); the model of what is allowed is computed from the recorded messages alone. The SSH transport is replaced by a double exposing sendPacket (no avatar attribute). Writes after a side has requested loseConnection are not generated (ITransport leaves them undefined).",
    design_ref="§5 C36",
    rule="case = (window/maxpacket of both channels, op list [w | x | close | adj | d | hook(side, actions run inside the next startWriting())]). non-trivial = some write is larger than the peer's window and its packet size at that time (so it had to be split and buffered); distinct by the whole case.",
)

MSG_OPEN, MSG_OPEN_CONF, MSG_OPEN_FAIL = 90, 91, 92
MSG_ADJUST, MSG_DATA, MSG_EXT, MSG_EOF, MSG_CLOSE = 93, 94, 95, 96, 97


_STREAMS = {}
_STREAM_LEN = 1 << 20


def pattern(salt, start, n):
    """n bytes of the deterministic stream `salt`, from offset `start`."""
    base = _STREAMS.get(salt)
    if base is None:
        import hashlib
        base = _STREAMS[salt] = hashlib.shake_256(b"C36-stream-%d" % salt).digest(_STREAM_LEN)
    if start + n <= _STREAM_LEN:
        return base[start:start + n]
    out = bytearray()
    while n:
        o = start % _STREAM_LEN
        piece = base[o:o + n]
        out += piece
        start += len(piece)
        n -= len(piece)
    return bytes(out)


class Side:
    """Everything the harness/model knows about one endpoint."""

    def __init__(self, name):
        self.name = name
        self.conn = None
        self.chan = None
        self.out = []              # undelivered messages (type, payload)
        # user level
        self.written = {}          # stream key -> total bytes written by the user
        self.close_requested = False
        self.close_received = False
        # message level (from this side's sendPacket calls)
        self.sent = {}             # stream key -> bytes sent in messages
        self.sent_total = 0
        self.sent_close = False
        self.adv_window = None     # what this side advertised at open
        self.adv_maxpkt = None
        self.granted_seen = 0      # window the *peer* granted and that was delivered to this side
        # receive level (from the real channel callbacks)
        self.received = {}         # stream key -> bytearray
        self.closed_cb = 0
        # user actions to perform re-entrantly inside the next startWriting() callback
        self.hook = []
        self.hook_runs = 0


class FakeTransport:
    """Stands in for the SSH transport: records sendPacket.  No `avatar`."""

    def __init__(self, side, world):
        self.side = side
        self.world = world
        self.transport = self

    def sendPacket(self, messageType, payload):
        self.world.on_send(self.side, messageType, bytes(payload))

    def logPrefix(self):
        return "c36"

    def getPeer(self):
        return None

    def getHost(self):
        return None

    def sendUnimplemented(self):
        self.world.problems.append(("unimplemented-message", f"{self.side.name} answered UNIMPLEMENTED"))


class World:
    def __init__(self, case):
        self.case = case
        self.A = Side("A")
        self.B = Side("B")
        self.problems = []
        self.remote_id = {}        # side name -> channel number the *peer* uses for it

    def peer(self, side):
        return self.B if side is self.A else self.A

    # -- the model: called synchronously whenever a side sends a message ----
    def on_send(self, side, t, p):
        peer = self.peer(side)
        side.out.append((t, p))
        if t == MSG_OPEN:
            ln = struct.unpack(">L", p[:4])[0]
            _, win, mx = struct.unpack(">3L", p[4 + ln:4 + ln + 12])
            side.adv_window, side.adv_maxpkt = win, mx
            return
        if t == MSG_OPEN_CONF:
            _, _, win, mx = struct.unpack(">4L", p[:16])
            side.adv_window, side.adv_maxpkt = win, mx
            return
        if t in (MSG_DATA, MSG_EXT):
            if t == MSG_DATA:
                (ln,) = struct.unpack(">L", p[4:8])
                data = p[8:]
                key = "data"
            else:
                typ, ln = struct.unpack(">2L", p[4:12])
                data = p[12:]
                key = f"ext{typ}"
            if ln != len(data):
                self.problems.append(("malformed-data-message", f"{side.name}: length field {ln}, {len(data)} bytes"))
            if side.sent_close:
                self.problems.append(("data-after-close", f"{side.name} sent {key} after its CLOSE"))
            avail = peer.adv_window + side.granted_seen - side.sent_total
            if ln > avail:
                self.problems.append((
                    "window-exceeded" if t == MSG_DATA else "window-exceeded-extended",
                    f"{side.name} sent {ln} bytes of {key}; peer advertised {peer.adv_window} "
                    f"+ adjustments received {side.granted_seen} - already sent {side.sent_total} = {avail}"))
            if ln > peer.adv_maxpkt:
                self.problems.append((
                    "maxpacket-exceeded" if t == MSG_DATA else "maxpacket-exceeded-extended",
                    f"{side.name} sent a {ln}-byte {key} message; peer's maximum packet is {peer.adv_maxpkt}"))
            side.sent[key] = side.sent.get(key, 0) + ln
            side.sent_total += ln
            return
        if t == MSG_CLOSE:
            if side.sent_close:
                self.problems.append(("close-twice", f"{side.name} sent CLOSE twice"))
            side.sent_close = True
            unsent = {k: (side.written[k], side.sent.get(k, 0)) for k in side.written
                      if side.sent.get(k, 0) != side.written[k]}
            if not side.close_requested and not side.close_received:
                self.problems.append((
                    "refused-compliant-peer",
                    f"{side.name} sent CLOSE although its user never asked and the peer had not closed "
                    f"(too-much-data refusal?)"))
            elif unsent:
                sig = "close-before-buffered-data"
                if "data" not in unsent and len([k for k in side.written if k != "data"]) >= 2:
                    # only extended data is left behind and the user wrote
                    # extended data of at least two types
                    sig = "close-before-buffered-extended-data-of-later-type"
                self.problems.append((
                    sig, f"{side.name} sent CLOSE with unsent user data (stream: (written, sent)) {unsent}"))
            return
        if t in (MSG_ADJUST, MSG_EOF):
            return
        self.problems.append(("unexpected-message", f"{side.name} sent message {t}"))

    def deliver(self, src):
        """Hand the oldest undelivered message of `src` to its peer."""
        if not src.out:
            return False
        dst = self.peer(src)
        t, p = src.out.pop(0)
        if t == MSG_ADJUST:
            _, n = struct.unpack(">2L", p[:8])
            dst.granted_seen += n
        if t == MSG_CLOSE:
            dst.close_received = True
        dst.conn.packetReceived(t, p)
        return True


_CLS = None


def _classes():
    global _CLS
    if _CLS is None:
        from twisted.conch.ssh import connection, channel

        class Chan(channel.SSHChannel):
            name = b"c36"
            side = None
            world = None

            def dataReceived(self, data):
                self.side.received.setdefault("data", bytearray()).extend(data)

            def extReceived(self, dataType, data):
                self.side.received.setdefault(f"ext{dataType}", bytearray()).extend(data)

            def closed(self):
                self.side.closed_cb += 1

            def startWriting(self):
                # a push producer resumed by the window opening: it writes
                # (and may ask to close) from inside the callback
                acts, self.side.hook = self.side.hook, []
                if acts:
                    self.side.hook_runs += 1
                for a in acts:
                    self.world.user(self.side, a)

            def openFailed(self, reason):
                self.world.problems.append(("open-failed", repr(reason)))

        class ConnB(connection.SSHConnection):
            world = None

            def getChannel(self, channelType, windowSize, maxPacket, data):
                case = self.world.case
                ch = Chan(localWindow=case["wB"], localMaxPacket=case["mB"],
                          remoteWindow=windowSize, remoteMaxPacket=maxPacket, conn=self)
                ch.side = self.world.B
                ch.world = self.world
                self.world.B.chan = ch
                return ch

        _CLS = (connection, Chan, ConnB)
    return _CLS


def _make(world, case):
    connection, Chan, ConnB = _classes()
    A, B = world.A, world.B
    A.conn = connection.SSHConnection()
    B.conn = ConnB()
    B.conn.world = world
    A.conn.transport = FakeTransport(A, world)
    B.conn.transport = FakeTransport(B, world)
    A.conn.serviceStarted()
    B.conn.serviceStarted()
    ch = Chan(localWindow=case["wA"], localMaxPacket=case["mA"], conn=A.conn)
    ch.side = A
    ch.world = world
    A.chan = ch
    A.conn.openChannel(ch)
    while world.deliver(A) or world.deliver(B):
        pass
    if B.chan is None or A.chan.remoteMaxPacket != case["mB"] or B.chan.remoteWindowLeft != case["wA"]:
        world.problems.append(("open-handshake", "channel did not open with the advertised parameters"))


def _raise_problems(ctx, world, case, where):
    if world.problems:
        sig, detail = world.problems[0]
        c = world.case
        ctx.violation(sig, case, f"{detail}  [after {where}; windows A={c['wA']}/{c['mA']} B={c['wB']}/{c['mB']}]")


def run_case(ctx, case):
    for k in ("wA", "mA", "wB", "mB"):
        if not 1 <= case[k] <= 1 << 24:
            raise HarnessError("window parameters out of range")
    world = World(case)
    _make(world, case)
    _raise_problems(ctx, world, case, "open")
    A, B = world.A, world.B
    sides = {"A": A, "B": B}
    nops = dict(w=0, x=0, close=0, adj=0, d=0)
    state = dict(nontrivial=False)

    def user(side, act, reentrant=True):
        """One user-level action on `side`'s channel: ("w", n) | ("x", type, n) | ("close",)."""
        peer = world.peer(side)
        kind = act[0]
        if kind in ("w", "x"):
            if side.close_requested or side.close_received or side.sent_close:
                ctx.count("write skipped (side closing)")
                return
            if kind == "w":
                n = act[1]
                key, salt = "data", (1 if side is A else 2)
            else:
                typ, n = act[1], act[2]
                key, salt = f"ext{typ}", (10 if side is A else 20) + typ
            start = side.written.get(key, 0)
            data = pattern(salt, start, n)
            avail = peer.adv_window + side.granted_seen - side.sent_total
            if n > avail and n > peer.adv_maxpkt:
                state["nontrivial"] = True
            side.written[key] = start + n
            if reentrant:
                ctx.count("re-entrant write from startWriting()")
            if kind == "w":
                side.chan.write(data)
            else:
                side.chan.writeExtended(typ, data)
            nops[kind] += 1
        elif kind == "close":
            if side.close_requested:
                return
            side.close_requested = True
            if reentrant:
                ctx.count("re-entrant loseConnection from startWriting()")
            side.chan.loseConnection()
            nops["close"] += 1
        else:
            raise HarnessError("unknown user action %r" % (act,))

    world.user = user
    for step, op in enumerate(case["ops"]):
        kind = op[0]
        side = sides[op[1]]
        peer = world.peer(side)
        if kind == "w":
            user(side, ("w", op[2]), reentrant=False)
        elif kind == "x":
            user(side, ("x", op[2], op[3]), reentrant=False)
        elif kind == "close":
            user(side, ("close",), reentrant=False)
        elif kind == "hook":
            # arm the side's next startWriting() callback
            side.hook = [tuple(a) for a in op[2]]
        elif kind == "adj":
            # the receiving user grants extra window by hand (public API)
            if side.sent_close or side.chan not in side.conn.channelsToRemoteChannel:
                continue
            side.conn.adjustWindow(side.chan, op[2])
            nops["adj"] += 1
        elif kind == "d":
            for _ in range(op[2]):
                if not world.deliver(side):
                    break
                nops["d"] += 1
                _raise_problems(ctx, world, case, f"op {step} {op!r}")
        else:
            raise HarnessError("unknown op %r" % (op,))
        _raise_problems(ctx, world, case, f"op {step} {op!r}")
        _check_received(ctx, world, case, f"op {step} {op!r}")
    # ---- quiescence: deliver everything -------------------------------------
    guard = 0
    while True:
        a = world.deliver(A)
        _raise_problems(ctx, world, case, "final delivery")
        b = world.deliver(B)
        _raise_problems(ctx, world, case, "final delivery")
        if not a and not b:
            break
        guard += 1
        if guard > 2_000_000:
            raise HarnessError("does not quiesce")
    _check_received(ctx, world, case, "quiescence")
    for X, Y in ((A, B), (B, A)):
        # X -> Y must be complete unless Y has closed its end (sent CLOSE): a
        # receiver whose own close is merely pending behind buffered data is
        # still open and still has to replenish its window
        if Y.sent_close:
            ctx.count("direction not judged for completeness (receiver sent CLOSE)")
            continue
        if Y.close_requested:
            ctx.count("direction judged while receiver's close is pending")
        for key, total in X.written.items():
            got = len(Y.received.get(key, b""))
            if got != total:
                wY = case["wB"] if Y is B else case["wA"]
                detail = (f"{X.name}->{Y.name} stream {key}: {total} bytes written, {got} received at quiescence; "
                          f"{X.name} sent {X.sent.get(key, 0)}; receiver window size {wY}, "
                          f"sender believes remote window left = {X.chan.remoteWindowLeft}, "
                          f"buffered: {len(X.chan.buf)} + {sum(len(d) for _, d in X.chan.extBuf)}")
                if X.sent_close:
                    ctx.violation("data-lost-at-close", case, detail)
                if wY == 1:
                    ctx.violation("receiver-window-1-never-replenished", case, detail)
                ctx.violation("stalled-with-window-available", case, detail)
        if X.close_requested and not X.sent_close:
            ctx.violation("close-never-sent", case,
                          f"{X.name} asked to close, all data was deliverable, but no CLOSE was sent")
    if A.sent_close and B.sent_close:
        if A.closed_cb != 1 or B.closed_cb != 1:
            ctx.violation("closed-callback-count", case, f"closed() calls: A={A.closed_cb} B={B.closed_cb}")
        ctx.count("fully closed")
    # ---- bookkeeping ---------------------------------------------------------
    ctx.count("ops: writes", nops["w"])
    ctx.count("ops: ext writes", nops["x"])
    ctx.count("ops: closes", nops["close"])
    ctx.count("ops: manual adjusts", nops["adj"])
    if A.hook_runs or B.hook_runs:
        ctx.count("cases with a re-entrant startWriting() callback")
    if min(case["wA"], case["wB"]) == 1:
        ctx.count("window of 1")
    if min(case["mA"], case["mB"]) == 1:
        ctx.count("max packet of 1")
    if len([k for k in list(A.written) + list(B.written) if k != "data"]) >= 2:
        ctx.count("two or more extended streams")
    if state["nontrivial"]:
        ctx.nontrivial(case)
        ctx.count("nontrivial")
        if len(ctx.samples) < 5 and len(case["ops"]) <= 8:
            ctx.sample(case)


def _check_received(ctx, world, case, where):
    for X, Y in ((world.A, world.B), (world.B, world.A)):
        for key, buf in Y.received.items():
            total = X.written.get(key, 0)
            salt = _salt(X, world, key)
            if len(buf) > total or bytes(buf) != pattern(salt, 0, len(buf)):
                ctx.violation("received-not-a-prefix-of-written", case,
                              f"{X.name}->{Y.name} stream {key}: received {len(buf)} bytes, written {total}; "
                              f"content differs or exceeds [after {where}]")


def _salt(X, world, key):
    base = 1 if X is world.A else 2
    if key == "data":
        return base
    return (10 if X is world.A else 20) + int(key[3:])


# ---------------------------------------------------------------------------
# generators

def _strategy():
    side = st.sampled_from(["A", "B"])
    small = st.integers(1, 12)

    def ops_for(n):
        op = st.one_of(
            st.tuples(st.just("w"), side, n),
            st.tuples(st.just("w"), side, n),
            st.tuples(st.just("x"), side, st.sampled_from([1, 1, 2, 3]), n),
            st.tuples(st.just("x"), side, st.sampled_from([1, 1, 2, 3]), n),
            st.tuples(st.just("d"), side, st.integers(1, 8)),
            st.tuples(st.just("d"), side, st.integers(1, 8)),
            st.tuples(st.just("d"), side, st.integers(1, 200)),
            st.tuples(st.just("adj"), side, st.one_of(st.integers(1, 20), st.integers(1, 2000))),
            st.tuples(st.just("close"), side),
            st.tuples(st.just("hook"), side, st.lists(st.one_of(
                st.tuples(st.just("w"), n),
                st.tuples(st.just("x"), st.sampled_from([1, 1, 2, 3]), n),
                st.tuples(st.just("close"))), min_size=1, max_size=3).map(tuple)),
        )
        return st.lists(op, min_size=1, max_size=16)

    # regime 1: tiny windows and packets (from 1 byte), writes up to a few hundred bytes
    win1 = st.one_of(small, small, st.integers(1, 300), st.sampled_from([1, 2, 3]))
    mpk1 = st.one_of(small, small, st.integers(1, 300), st.sampled_from([1, 2]))
    n1 = st.one_of(st.integers(0, 30), st.integers(0, 30), st.integers(0, 700))
    tiny = st.builds(dict, wA=win1, mA=mpk1, wB=win1, mB=mpk1, ops=ops_for(n1))
    # regime 2: realistic windows (defaults 131072 / 32768), writes around the limits
    win2 = st.sampled_from([4096, 32768, 65536, 131072, 131073, 200000])
    mpk2 = st.sampled_from([1024, 4096, 32768, 32769, 65536])
    n2 = st.one_of(st.integers(0, 5000),
                   st.sampled_from([0, 1, 1023, 1024, 1025, 32767, 32768, 32769, 65536, 70000, 131071, 131072,
                                    131073, 200000]))
    large = st.builds(dict, wA=win2, mA=mpk2, wB=win2, mB=mpk2, ops=ops_for(n2))
    # regime 3: mixed (tiny packet limit with a moderate window and vice versa)
    win3 = st.integers(1, 5000)
    mpk3 = st.integers(8, 5000)
    n3 = st.integers(0, 6000)
    mixed = st.builds(dict, wA=win3, mA=mpk3, wB=win3, mB=mpk3, ops=ops_for(n3))
    return st.one_of(tiny, tiny, tiny, large, mixed)


ALPHABET = [
    ("w", "A", 1), ("w", "A", 4),
    ("x", "A", 1, 3), ("x", "A", 2, 2),
    ("close", "A"),
    ("d", "A", 1), ("d", "B", 1), ("d", "A", 50),
    ("adj", "B", 2),
    ("w", "B", 3),
    ("close", "B"),
    ("hook", "A", (("w", 2),)),       # A's next startWriting() callback writes 2 bytes re-entrantly
]


def _small_scope(ctx, shard):
    import itertools
    params = [(1, 1), (2, 1), (2, 2), (3, 2)] if not ctx.thorough else [(wB, mB) for wB in (1, 2, 3) for mB in (1, 2)]
    depth = ctx.pick(4, 5)
    i = 0
    for wB, mB in params:
        for L in range(1, depth + 1):
            if not ctx.thorough and L == depth and (wB, mB) not in ((2, 1), (3, 2)):
                continue        # quick: the deepest level for two parameter pairs only
            for ops in itertools.product(ALPHABET, repeat=L):
                i += 1
                if i % 16 != shard:
                    continue
                case = dict(wA=2, mA=1, wB=wB, mB=mB, ops=list(ops))
                yield case


def _enum_shard(ctx, shard):
    enumerate_run(ctx, _small_scope(ctx, shard), run_case, stop_after_violation=True)


def _hyp_shard(ctx, i):
    hyp_run(ctx, _strategy(), run_case, 8000, label=f"shard{i}")


def run(ctx):
    if ctx.thorough:
        ctx.shards(_enum_shard, list(range(16)))
    else:
        for shard in range(16):
            _enum_shard(ctx, shard)
    ctx.extra["small_scope"] = (f"all histories of length <= {ctx.pick(4, 5)} over {len(ALPHABET)} operations, "
                                f"receiver (window, max packet) in " + ("{1,2,3}x{1,2}" if ctx.thorough else "{(1,1),(2,1),(2,2),(3,2)} (length 4 only for (2,1),(3,2))"))
    ctx.exhaustive = False
    if ctx.has_violation():
        return
    if ctx.thorough:
        ctx.shards(_hyp_shard, list(range(16)))
    else:
        hyp_run(ctx, _strategy(), run_case, 3000, label="random")
