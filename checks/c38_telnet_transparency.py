"""C38 — application bytes (no CR) written through TelnetTransport.write /
writeSequence reach the peer application unchanged under any segmentation of the
wire; LF travels as CR LF; 0xFF in data is never taken for IAC and never lost."""
import itertools

from hypothesis import strategies as st

from lib.core import hyp_run, enumerate_run
from lib import harness

META = dict(
    property="C38",
    level="exploration",
    technique="round trip TelnetTransport.write/writeSequence -> wire -> Telnet.dataReceived under every single cut / bytewise / random cuts, plus comparison of the wire with the RFC 854 encoding; complete enumeration of short strings over the critical alphabet + Hypothesis",
    level_text="All strings up to length 3 (thorough 4) over {IAC, LF, DO, SB, SE, NUL, 'a'} in three write groupings with every single cut and bytewise delivery are enumerated completely; longer CR-free byte strings rich in 0xFF/LF/command bytes, in random write/writeSequence groupings and random wire cuts, are sampled with Hypothesis.",
    level_note="Reference encoder (IAC doubled, LF -> CR LF) trusted. The receiving side is exercised on the reference wire as well as on the wire really produced, so a sender defect does not hide the receiver. Only TelnetTransport (not TelnetBootstrapProtocol's own write path) is driven. Application data never contains CR (statement's domain). Telnet control sequences the same transport sends between the writes (requestNegotiation, do, will) are taken to be inside the statement as far as the application bytes are concerned: those must still arrive exactly, and the only telnet events at the peer must be the ones really sent; the subnegotiation payload itself is not application data and is counted, not asserted.",
    design_ref="§5 C38",
    rule="case = (list of write / writeSequence operations, optionally interleaved with requestNegotiation / do / will, cuts of the wire). non-trivial = data holds at least one 0xFF and one LF and a cut separates the two bytes of an escape pair (IAC IAC or CR LF); distinct by (operations, concrete cuts).",
)

IAC = 0xFF
ALPHA = [0xFF, 0x0A, 0xFD, 0xFA, 0xF0, 0x00, 0x61]


def ref_encode(data):
    out = bytearray()
    for b in data:
        if b == 0xFF:
            out += b"\xff\xff"
        elif b == 0x0A:
            out += b"\r\n"
        else:
            out.append(b)
    return bytes(out)


class _Rec:
    """Underlying byte transport."""
    disconnecting = False

    def __init__(self):
        self.out = []

    def write(self, data):
        self.out.append(bytes(data))

    def writeSequence(self, seq):
        for x in seq:
            self.out.append(bytes(x))

    def loseConnection(self):
        pass


_APP = []


def _app():
    """The recording application protocol class (built once per process)."""
    if _APP:
        return _APP[0]
    from twisted.conch import telnet

    class App(telnet.TelnetProtocol):
        def __init__(self, events):
            self.events = events

        def dataReceived(self, data):
            self.events.append(("data", bytes(data)))

        def unhandledCommand(self, command, argument):
            self.events.append(("command", command, argument))

        def unhandledSubnegotiation(self, command, data):
            self.events.append(("subneg", command, b"".join(data)))

        def enableLocal(self, option):
            self.events.append(("enableLocal", option))
            return False

        def enableRemote(self, option):
            self.events.append(("enableRemote", option))
            return False

        def disableLocal(self, option):
            self.events.append(("disableLocal", option))

        def disableRemote(self, option):
            self.events.append(("disableRemote", option))
    _APP.append(App)
    return App


def send(ops):
    """Run the operations through a real TelnetTransport; -> wire bytes."""
    from twisted.conch import telnet
    ev = []
    t = telnet.TelnetTransport(_app(), ev)
    under = _Rec()
    t.makeConnection(under)
    app = t.protocol
    for op in ops:
        if op[0] == "w":
            app.transport.write(op[1])
        elif op[0] == "ws":
            app.transport.writeSequence(list(op[1]))
        elif op[0] == "sb":
            app.transport.requestNegotiation(op[1], op[2])
        else:   # "do" / "will": an option request interleaved with the data
            d = getattr(app.transport, op[0])(op[1])
            d.addErrback(lambda f: f.trap(telnet.AlreadyNegotiating) and None)
    return b"".join(under.out)


def control_plan(ops):
    """Reference for the telnet control sequences interleaved with the data:
    -> (reference wire, expected non-data events at the receiver, expected answer).
    An option already under negotiation is not requested again (AlreadyNegotiating)."""
    wire = bytearray()
    events = []
    answer = bytearray()
    busy = set()
    for op in ops:
        if op[0] == "w":
            wire += ref_encode(op[1])
        elif op[0] == "ws":
            wire += ref_encode(b"".join(op[1]))
        elif op[0] == "sb":
            wire += b"\xff\xfa" + op[1] + op[2].replace(b"\xff", b"\xff\xff") + b"\xff\xf0"
            events.append(("subneg", op[1], op[2]))
        elif op[1] not in busy:
            busy.add(op[1])
            if op[0] == "do":
                wire += b"\xff\xfd" + op[1]
                events += [("commandReceived", b"\xfd", op[1]), ("enableLocal", op[1])]
                answer += b"\xff\xfc" + op[1]      # the application refuses: WONT
            else:
                wire += b"\xff\xfb" + op[1]
                events += [("commandReceived", b"\xfb", op[1]), ("enableRemote", op[1])]
                answer += b"\xff\xfe" + op[1]      # DONT
    return bytes(wire), events, bytes(answer)


def receive(segs):
    """-> (events, bytes the receiver wrote back, final parser state)"""
    from twisted.conch import telnet
    ev = []
    t = telnet.TelnetTransport(_app(), ev)
    under = _Rec()
    t.makeConnection(under)
    orig = t.commandReceived

    def spy(command, argument):
        ev.append(("commandReceived", command, argument))
        return orig(command, argument)
    t.commandReceived = spy
    for s in segs:
        t.dataReceived(s)
    return ev, b"".join(under.out), t.state


def flat(ops):
    """The application bytes, in order (control operations carry none)."""
    return b"".join(op[1] if op[0] == "w" else b"".join(op[1]) for op in ops if op[0] in ("w", "ws"))


def cut_lists(cuts, n):
    if cuts == "all1":
        for i in range(1, n):
            yield [i]
        yield list(range(1, n))
    elif cuts == "bytewise":
        yield list(range(1, n))
    else:
        yield sorted({int(c) for c in cuts if 0 < int(c) < n})


def check_receiver(ctx, case, data, wire, cuts, which, control=(), answer=b""):
    segs = harness.split_at(wire, cuts) if wire else []
    ev, back, state = receive(segs)
    small = dict(case, cuts=cuts)
    got = b"".join(e[1] for e in ev if e[0] == "data")
    others = [e for e in ev if e[0] != "data"]
    where = f"{which} wire {wire!r} cuts {cuts}"
    # the only telnet events are those of the control sequences really sent, in order;
    # the payload of a subnegotiation is not application data and is not compared
    shape = lambda e: e[:2] if e[0] == "subneg" else e
    if [shape(e) for e in others] != [shape(e) for e in control]:
        ctx.violation("data-taken-for-command" if not control else "control-sequences-disturbed", small,
                      f"{where}: telnet events {others[:6]!r}, sent {list(control)[:6]!r}, while carrying {data!r}")
    if others != list(control):
        ctx.count("subnegotiation payload differs (not asserted)")
    if back != answer:
        ctx.violation("receiver-answered", small, f"{where}: receiver wrote {back!r}, expected {answer!r}")
    if got != data:
        if len(got) < len(data) and got == bytes(b for b in data if b != 0xFF)[:len(got)] and 0xFF in data:
            ctx.violation("iac-byte-lost", small, f"{where}: application got {got!r}, sent {data!r}")
        ctx.violation("data-changed", small, f"{where}: application got {got!r}, sent {data!r}")
    if state != "data":
        ctx.violation("parser-left-mid-sequence", small, f"{where}: state {state!r} after a complete stream")


def run_case(ctx, case):
    ops = [tuple(op) for op in case["ops"]]
    data = flat(ops)
    if b"\r" in data:
        ctx.count("skipped: CR in data")
        return
    ref, control, answer = control_plan(ops)
    nseg = 0
    pairs = [i + 1 for i in range(len(ref) - 1)
             if ref[i:i + 2] in (b"\xff\xff", b"\r\n")]
    rich = 0xFF in data and 0x0A in data
    # receiver half on the reference wire (always meaningful)
    for cuts in cut_lists(case["cuts"], len(ref)):
        nseg += 1
        check_receiver(ctx, case, data, ref, cuts, "reference", control, answer)
        if rich and any(c in pairs for c in cuts):
            ctx.nontrivial((case["ops"], tuple(cuts)))
            ctx.count("nontrivial segmentations")
    # sender half
    wire = send(ops)
    if nseg > 1:
        ctx.case(nseg - 1)
    ctx.count("segmentations", nseg)
    dataops = [o for o in ops if o[0] in ("w", "ws")]
    ctx.count("ops: write only" if all(o[0] == "w" for o in dataops) else
              "ops: writeSequence only" if all(o[0] == "ws" for o in dataops) else "ops: mixed")
    if control:
        ctx.count("control sequences interleaved with data")
        if any(o[0] == "sb" for o in ops):
            ctx.count("interleaved subnegotiation")
        if any(o[0] == "sb" and b"\xff" in o[2] and b"\xf0" in o[2][o[2].index(b"\xff"):] for o in ops):
            ctx.count("interleaved subnegotiation whose payload has 0xFF and later 0xF0 (SE)")
        if any(o[0] in ("do", "will") for o in ops):
            ctx.count("interleaved option request")
        i = [k for k, o in enumerate(ops) if o[0] not in ("w", "ws")]
        if any(o[0] in ("w", "ws") and flat([o]) for o in ops[i[-1] + 1:]):
            ctx.count("application data after a control sequence")
    if 0xFF in data:
        ctx.count("data has 0xFF")
    if 0x0A in data:
        ctx.count("data has LF")
    if any(data[i] == 0xFF and data[i + 1] >= 0xF0 for i in range(len(data) - 1)):
        ctx.count("data has 0xFF followed by a command byte")
    if rich and len(ctx.samples) < 5 and len(data) % 4 == 1:
        ctx.sample(case)
    if wire != ref:
        small = dict(case, cuts=[])
        if control:
            # how the control sequences themselves are encoded is not the subject; what the
            # statement covers is that the application bytes still arrive: end to end on the real wire
            ctx.count("wire with control sequences differs from the reference (checked end to end instead)")
            for cuts in cut_lists(case["cuts"], len(wire)):
                check_receiver(ctx, case, data, wire, cuts, "real", control, answer)
            return
        if wire == b"".join(
                ref_encode(op[1]) if op[0] == "w" else b"".join(op[1]) for op in ops):
            ctx.violation("writesequence-not-escaped", small,
                          f"writeSequence put {wire!r} on the wire for data {data!r}; escaped form is {ref!r}")
        ctx.violation("wire-encoding", small, f"wire {wire!r} for data {data!r}; expected {ref!r}")
    # wire == ref: the round trip through the real sender is the one checked above


# --------------------------------------------------------------------------

def _bytes_rich(max_size):
    b = st.one_of(st.sampled_from(ALPHA + [0xFF, 0x0A, 0xFB, 0xFC, 0xFE, 0xF1, 0xF9]),
                  st.integers(0, 255).filter(lambda x: x != 0x0D))
    return st.lists(b, max_size=max_size).map(bytes)


_B12 = _bytes_rich(12)
_WS = st.lists(_bytes_rich(6), max_size=4)
_ABOUT = st.sampled_from([b"\x1f", b"\x18", b"\x01", b"\x22"])
_PAYLOAD = st.lists(st.sampled_from([0xFF, 0xF0, 0xFA, 0x00, 0x0D, 0x0A, 0x61, 0xFF, 0xF0]), max_size=6).map(bytes)
_OPT = st.sampled_from([b"\x01", b"\x03", b"\x18", b"\x0a", b"\xf0"])
_CTL = st.one_of(st.tuples(st.just("sb"), _ABOUT, _PAYLOAD).map(list),
                 st.tuples(st.just("sb"), _ABOUT, _PAYLOAD).map(list),
                 st.tuples(st.sampled_from(["do", "will"]), _OPT).map(list))
_DATAOP = st.one_of(st.tuples(st.just("w"), _B12).map(list), st.tuples(st.just("ws"), _WS).map(list))
_OP = st.one_of(_DATAOP, _DATAOP, _CTL)
_CUTS = st.one_of(st.just("all1"), st.just("bytewise"), st.lists(st.integers(1, 120), max_size=8))
_CASES = st.fixed_dictionaries(dict(ops=st.lists(_OP, min_size=1, max_size=5), cuts=_CUTS))


def cases():
    return _CASES


SB_ALPHA = [0xFF, 0xF0, 0x00]


def control_scope(maxpayload):
    """data | subnegotiation with every payload up to maxpayload over {IAC, SE, NUL} | data,
    and the same with an option request, every single cut."""
    datas = [bytes(t) for n in range(0, 3) for t in itertools.product([0xFF, 0x0A, 0xF0, 0x61], repeat=n)]
    payloads = [bytes(t) for n in range(0, maxpayload + 1) for t in itertools.product(SB_ALPHA, repeat=n)]
    for pl in payloads:
        for d in datas:
            for k in range(len(d) + 1):
                yield dict(ops=[["w", d[:k]], ["sb", b"\x1f", pl], ["w", d[k:]]], cuts="all1")
    for d in datas:
        for k in range(len(d) + 1):
            for verb in ("do", "will"):
                for opt in (b"\x01", b"\xf0"):
                    yield dict(ops=[["ws", [d[:k]]], [verb, opt], ["w", d[k:]]], cuts="all1")


def small_scope(maxlen):
    for n in range(0, maxlen + 1):
        for t in itertools.product(ALPHA, repeat=n):
            data = bytes(t)
            yield dict(ops=[["w", data]], cuts="all1")
            yield dict(ops=[["ws", [data]]], cuts="all1")
            if n >= 2:
                for k in range(1, n):
                    yield dict(ops=[["w", data[:k]], ["ws", [data[k:]]]], cuts="bytewise")
                    yield dict(ops=[["ws", [data[:k], data[k:]]]], cuts="bytewise")
                    yield dict(ops=[["w", data[:k]], ["w", data[k:]]], cuts="bytewise")


def _scope_shard(sub, arg):
    maxlen, i, nsh = arg
    enumerate_run(sub, itertools.islice(small_scope(maxlen), i, None, nsh), run_case)
    enumerate_run(sub, itertools.islice(control_scope(4), i, None, nsh), run_case)


def _hyp_shard(sub, i):
    hyp_run(sub, cases(), run_case, 4000, label=f"shard{i}")


def run(ctx):
    maxlen = ctx.pick(3, 4)
    ctx.extra["control_scope"] = ("data(<=2 over IAC,LF,SE,'a') split at every point around a subnegotiation with every payload of "
                                  f"length <= {ctx.pick(3, 4)} over IAC,SE,NUL, or around a DO/WILL request; every single cut + bytewise")
    ctx.extra["small_scope"] = f"all strings of length <= {maxlen} over {[hex(a) for a in ALPHA]}, 3 groupings, all single cuts + bytewise"
    if ctx.thorough:
        ctx.shards(_scope_shard, [(maxlen, i, 16) for i in range(16)])
    else:
        enumerate_run(ctx, small_scope(maxlen), run_case)
        if not ctx.has_violation():
            enumerate_run(ctx, control_scope(3), run_case)
    if ctx.has_violation():
        return
    if ctx.thorough:
        ctx.shards(_hyp_shard, list(range(16)))
    else:
        hyp_run(ctx, cases(), run_case, 2000, label="main")
