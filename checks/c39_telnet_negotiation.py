"""C39 — telnet option negotiation between two real Telnet endpoints converges:
every request Deferred fires exactly once, no message loop, both sides agree at
quiescence, for every interleaving of requests and in-flight messages."""
from hypothesis import strategies as st

from lib.core import hyp_run, enumerate_run

META = dict(
    property="C39",
    level="exploration",
    technique="breadth-first exploration with state hashing over two real Telnet objects joined by FIFO queues (every state is reached by re-executing its action path from the initial state), complete for a bounded number of requests; Hypothesis for longer runs, 3 options and mixed accept/refuse policies",
    level_text="Quick: every reachable state for 2 options and up to 4 requests (all-accepting policies) and up to 6 (4) requests for two (one more) refusing-policy configurations, all delivery interleavings included. Thorough: the same for up to 6 requests (the scope named in the property) and 3 options with up to 4 requests. Requests may carry a follow-up request that the application issues re-entrantly from inside the result callback (complete for 1 option and up to 4 (thorough 6) requests, sampled beyond). Every explored state is additionally ended by a connection loss on both sides, after which every request Deferred must have fired exactly once. Beyond that, random histories of up to 60 actions over 3 options with random policies, follow-ups nested two deep, random drain order or a connection loss on either or both sides. The oracle is checked at every step and at every moment with no message in flight.",
    level_note="State hash = per option (state, negotiating, onResult set) of both perspectives on both sides + both queues + requests used + messages sent + unfired Deferreds; two paths with equal hash are assumed to have equal futures (true if Telnet keeps no other negotiation state). A policy is one accept-set per side used for enableLocal and enableRemote; a side only issues requests about options it accepts (the statement's precondition). The endpoints may send subnegotiations and application bytes between the option messages (a telnet connection always carries them); only the negotiation claims of the statement are asserted about such histories. Follow-up requests are not issued once the connection is lost. Connection loss is read as inside 'every request Deferred fires exactly once' (Telnet.connectionLost exists for exactly that); agreement of the sides is not checked after a loss. Results of Deferreds are additionally compared with the option state at the moment of firing, as documented in ITelnetTransport.",
    design_ref="§5 C39",
    rule="case = (number of options, accept-set per side, action list of requests [side, will/wont/do/dont, option, optional follow-up issued from the result callback] deliveries [direction] (one message, or everything queued in one dataReceived), other traffic of the same connection (requestNegotiation payloads, escaped application bytes), drain order or connection loss). non-trivial = some request was accepted for sending while at least one negotiation message was in flight; distinct by the whole action list and policy.",
)

VERBS = ("will", "wont", "do", "dont")
CMD = {0xFB: "WILL", 0xFC: "WONT", 0xFD: "DO", 0xFE: "DONT"}


class _Queue:
    def __init__(self, world):
        self.q = []
        self.world = world

    def write(self, data):
        self.q.append(bytes(data))
        self.world.sent += 1

    def writeSequence(self, seq):
        self.write(b"".join(seq))

    def loseConnection(self):
        pass


_CLS = []
_TELNET = []
_LAST = {}     # state reached by the most recent run_case (read by the BFS driver only)


def _endpoint_class():
    if _CLS:
        return _CLS[0]
    from twisted.conch.telnet import Telnet

    class Endpoint(Telnet):
        accept = frozenset()

        def enableLocal(self, option):
            return option in self.accept

        def enableRemote(self, option):
            return option in self.accept

        def disableLocal(self, option):
            pass

        def disableRemote(self, option):
            pass
    from twisted.conch import telnet
    from twisted.internet.error import ConnectionDone
    _TELNET.append(telnet)
    _TELNET.append(ConnectionDone)
    _CLS.append(Endpoint)
    return Endpoint


class World:
    def __init__(self, case):
        E = _endpoint_class()
        self.nopts = int(case["nopts"])
        self.opts = [bytes([i + 1]) for i in range(self.nopts)]
        self.sent = 0
        self.ends = []
        self.queues = []
        for side in (0, 1):
            e = E()
            e.accept = frozenset(self.opts[i] for i in case["policy"][side] if i < self.nopts)
            q = _Queue(self)
            e.makeConnection(q)
            self.ends.append(e)
            self.queues.append(q)
        self.reqs = []          # [side, verb, opt, fired, outcome]
        self.problems = []      # (signature, detail) noticed inside Deferred callbacks
        self.crossing = False
        self.nreq = 0
        self.nother = 0         # subnegotiations / application writes sharing the connection
        self.lost = False       # connectionLost delivered: follow-up requests are no longer issued
        self.counting = True
        self.counts = []        # class labels noticed inside callbacks (flushed by execute)
        self.policy = case["policy"]

    # -- inspection ---------------------------------------------------------
    def persp(self, side, opt):
        s = self.ends[side].options.get(opt)
        if s is None:
            return ("no", False, False, "no", False, False)
        return (s.us.state, bool(s.us.negotiating), s.us.onResult is not None,
                s.him.state, bool(s.him.negotiating), s.him.onResult is not None)

    def snap(self, side):
        return tuple(self.persp(side, o) for o in self.opts)

    def unfired(self):
        # pending requests with the follow-up they carry (hidden state that shapes the future)
        return tuple(sorted((r[0], r[1], r[2], repr(r[5])) for r in self.reqs if r[3] == 0))

    def key(self):
        return (self.snap(0), self.snap(1), tuple(self.queues[0].q), tuple(self.queues[1].q),
                self.nreq, self.sent, self.unfired(), self.nother)

    def quiescent(self):
        return not self.queues[0].q and not self.queues[1].q

    # -- actions ------------------------------------------------------------
    def request(self, side, verb, opt, then=None, reentrant=False):
        """Issue one request; `then` = [verb, option index(, then)] is a request the
        application issues from inside this request's result callback."""
        telnet = _TELNET[0]
        e = self.ends[side]
        rec = [side, verb, opt, 0, None, then]
        self.reqs.append(rec)
        self.nreq += 1
        inflight = bool(self.queues[0].q or self.queues[1].q)
        before = self.sent
        d = getattr(e, verb)(opt)
        world = self

        def ok(res):
            rec[3] += 1
            rec[4] = "ok"
            p = world.persp(side, opt)
            state = p[0] if verb in ("will", "wont") else p[3]
            want = "yes" if verb in ("will", "do") else "no"
            if res is not True:
                world.problems.append(("deferred-odd-result", f"{verb} fired with {res!r}"))
            if state != want:
                world.problems.append(("deferred-result-contradicts-state",
                                       f"{verb}({opt!r}) on side {side} succeeded while the option state is {state!r}"))

        def err(f):
            rec[3] += 1
            rec[4] = f.type.__name__
            if f.check(telnet.OptionRefused):
                p = world.persp(side, opt)
                state = p[0] if verb in ("will", "wont") else p[3]
                if verb in ("wont", "dont") or state != "no":
                    world.problems.append(("deferred-result-contradicts-state",
                                           f"{verb}({opt!r}) on side {side} refused, option state {state!r}"))
            elif world.lost and f.check(_TELNET[1]):
                pass
            elif not f.check(telnet.AlreadyNegotiating, telnet.AlreadyEnabled, telnet.AlreadyDisabled):
                world.problems.append(("deferred-odd-failure", f"{verb} failed with {f.type.__name__}: {f.value}"))
            return None

        def follow(_):
            # the application reacts to the result by issuing its next request
            if world.lost or then is None:
                return
            v2, oi2 = then[0], then[1]
            t2 = then[2] if len(then) > 2 else None
            if oi2 >= world.nopts or oi2 not in world.policy[side]:
                return
            try:
                r2 = world.request(side, v2, world.opts[oi2], t2, reentrant=True)
            except Exception as ex:   # reported as a violation by _step_checks, not swallowed
                import traceback
                world.problems.append((f"exc-in-reentrant-request:{type(ex).__name__}",
                                       f"{v2} issued from the result callback of {verb}: "
                                       + "".join(traceback.format_exception(ex))[-1500:]))
                return
            if world.counting:
                world.counts.append("reentrant request (from a result callback): "
                                    + (r2[4] if r2[4] not in (None, "ok") else "sent"))
                if r2[4] is None and r2[2] == opt:
                    world.counts.append("reentrant request about the same option, sent")

        d.addCallbacks(ok, err)
        d.addBoth(follow)
        if self.sent > before and inflight:
            self.crossing = True
        return rec

    def other(self, side, kind, payload):
        """Other traffic of the same connection: a subnegotiation or application bytes."""
        self.nother += 1
        if kind == "s":
            self.ends[side].requestNegotiation(b"\x1f", payload)
        else:
            self.queues[side].write(payload.replace(b"\r", b"").replace(b"\xff", b"\xff\xff"))

    def deliver_all(self, side):
        """Everything `side` has written so far arrives at the peer in one dataReceived."""
        q = self.queues[side].q
        if q:
            data = b"".join(q)
            del q[:]
            self.ends[1 - side].dataReceived(data)

    def deliver(self, side, want_label=True):
        """Deliver the oldest message written by `side` to its peer; -> handler label or None."""
        q = self.queues[side].q
        if not q:
            return None
        msg = q.pop(0)
        peer = 1 - side
        label = None
        if want_label and len(msg) == 3 and msg[0] == 0xFF and msg[1] in CMD:
            p = self.persp(peer, msg[2:3])
            st_, neg = (p[3], p[4]) if msg[1] in (0xFB, 0xFC) else (p[0], p[1])
            label = f"handler {CMD[msg[1]].lower()}_{st_}_{'true' if neg else 'false'}"
        self.ends[peer].dataReceived(msg)
        return label


def lose_connection(ctx, case, w, sides):
    """Terminal event: the connection is lost on the given sides while whatever is
    pending is pending.  Every request of those sides must then have fired once."""
    from twisted.python.failure import Failure
    w.lost = True
    pending = sum(1 for r in w.reqs if r[3] == 0 and r[0] in sides)
    for side in sides:
        w.ends[side].connectionLost(Failure(_TELNET[1]()))
    if w.problems:
        _fail(ctx, case, w, w.problems[0][0], w.problems[0][1])
    for r in w.reqs:
        if r[0] in sides and r[3] != 1:
            _fail(ctx, case, w, f"deferred-never-fired-after-connection-lost-{r[1]}",
                  f"connection lost on side {r[0]} but the Deferred of {r[1]}({r[2]!r}) fired {r[3]} times")
    return pending


def _fail(ctx, case, w, sig, detail):
    ctx.violation(sig, case, detail + f" | A={w.snap(0)} B={w.snap(1)} inflight={w.queues[0].q + w.queues[1].q}")


def _step_checks(ctx, case, w):
    if w.problems:
        sig, detail = w.problems[0]
        _fail(ctx, case, w, sig, detail)
    if w.sent > 4 * w.nreq + w.nother:
        _fail(ctx, case, w, "message-loop", f"{w.sent} messages for {w.nreq} requests (+{w.nother} other writes)")
    if w.quiescent():
        for r in w.reqs:
            if r[3] != 1:
                _fail(ctx, case, w, f"deferred-never-fired-{r[1]}",
                      f"no message in flight but the Deferred of {r[1]}({r[2]!r}) by side {r[0]} fired {r[3]} times")
        for side in (0, 1):
            for o in w.opts:
                p = w.persp(side, o)
                if p[1] or p[2] or p[4] or p[5]:
                    _fail(ctx, case, w, "negotiating-flag-stuck",
                          f"no message in flight, side {side} option {o!r}: {p}")
        for o in w.opts:
            a, b = w.persp(0, o), w.persp(1, o)
            if a[0] != b[3] or a[3] != b[0]:
                _fail(ctx, case, w, "sides-disagree",
                      f"option {o!r}: A(us={a[0]}, him={a[3]}) B(us={b[0]}, him={b[3]})")


def execute(ctx, case):
    w = World(case)
    acts = case["actions"]
    bfs = case.get("mode") == "bfs"
    last = len(acts) - 1
    for i, act in enumerate(acts):
        counting = (not bfs) or i == last
        w.counting = counting
        if act[0] == "r":
            side, verb, oi = act[1], act[2], act[3]
            then = act[4] if len(act) > 4 else None
            if oi >= w.nopts or oi not in case["policy"][side]:
                if counting:
                    ctx.count("skipped: request outside the requester's own policy")
                continue
            rec = w.request(side, verb, w.opts[oi], then)
            if counting:
                ctx.count("request: " + (rec[4] if rec[4] not in (None, "ok") else "sent"))
                if then is not None:
                    ctx.count("request carrying a follow-up request")
        elif act[0] in ("s", "a"):
            w.other(act[1], act[0], act[2])
            if counting:
                ctx.count("other traffic on the connection: " + ("subnegotiation" if act[0] == "s" else "application bytes"))
                if act[0] == "s" and b"\xff\xf0" in act[2]:
                    ctx.count("subnegotiation payload containing IAC SE (ff f0)")
        elif act[0] == "D":
            if counting and len(w.queues[act[1]].q) > 1:
                ctx.count("several messages delivered in one dataReceived")
            w.deliver_all(act[1])
        else:
            label = w.deliver(act[1], counting)
            if counting and label:
                ctx.count(label)
        if counting:
            # bfs mode: the prefix is a deterministic re-execution of a path whose every
            # step was checked when it was the last one
            _step_checks(ctx, case, w)
            for label in w.counts:
                ctx.count(label)
        del w.counts[:]
    w.counting = True
    return w


def run_case(ctx, case):
    w = execute(ctx, case)
    drain = case.get("drain")
    lose = case.get("lose")
    if lose is not None:
        drain = None
    if drain is not None:
        n = 0
        while not w.quiescent():
            side = drain[n % len(drain)] if drain else n % 2
            if not w.queues[side].q:
                side = 1 - side
            label = w.deliver(side)
            if label:
                ctx.count(label)
            n += 1
            if n > 4 * w.nreq + w.nother + 8:
                _fail(ctx, case, w, "message-loop", f"still not quiescent after {n} deliveries for {w.nreq} requests")
            _step_checks(ctx, case, w)
            for label in w.counts:
                ctx.count(label)
            del w.counts[:]
        _step_checks(ctx, case, w)
        for r in w.reqs:
            ctx.count("deferred result: " + str(r[4]))
    if w.crossing:
        ctx.nontrivial("%s|%s|%s|%s|%s" % (case["nopts"], case["policy"], drain, case.get("lose"), ",".join(
            "".join(map(str, a)) for a in case["actions"])))
        ctx.count("nontrivial (request sent while a message was in flight)")
        if len(ctx.samples) < 5 and len(case["actions"]) % 7 == 3:
            ctx.sample(case)
    _LAST["key"] = w.key()
    _LAST["q"] = (bool(w.queues[0].q), bool(w.queues[1].q), w.nreq)
    # terminal fault: in bfs mode every explored state is also ended by a connection loss
    if case.get("mode") == "bfs":
        lose = "both"
    if lose is not None:
        sides = (0, 1) if lose == "both" else (int(lose),)
        npend = lose_connection(ctx, case, w, sides)
        if npend:
            ctx.count("connection lost with requests pending")
            kinds = sorted({r[1] for r in w.reqs if r[0] in sides and r[4] == "ConnectionDone"})
            for k in kinds:
                ctx.count(f"connection lost with a {k}() pending")


# --------------------------------------------------------------------------
# complete exploration of a bounded scope

OTHERS = [[k, s, pl] for s in (0, 1)
          for k, pl in (("s", b""), ("s", b"\xff"), ("s", b"\xf0"), ("s", b"\xff\xf0"), ("s", b"\xff\xff\xf0\x00"),
                        ("a", b"\xff"), ("a", b"a\xff\xfd\x01"))]


def bfs_cases(ctx, nopts, policy, maxreq, stats, reentrant=False, maxother=0):
    """Generator of cases for enumerate_run; reads the state reached by the case it
    just yielded from _LAST (written by run_case)."""
    reqs = [["r", s, v, o] for s in (0, 1) for v in VERBS for o in range(nopts) if o in policy[s]]
    if reentrant:
        # every request also in the variants "and from its result callback issue <request>"
        reqs = reqs + [r + [[v2, o2]] for r in reqs for v2 in VERBS for o2 in range(nopts) if o2 in policy[r[1]]]
    base = dict(nopts=nopts, policy=policy, mode="bfs")
    seen = set()
    _LAST.pop("key", None)
    yield dict(base, actions=[])
    k0 = _LAST.pop("key", None)
    if k0 is None:
        return
    seen.add(k0)
    frontier = [([], _LAST["q"])]
    depth = 0
    while frontier:
        nxt = []
        for path, (qa, qb, nreq) in frontier:
            cands = []
            if nreq < maxreq:
                cands += reqs
            if sum(1 for a in path if a[0] in ("s", "a")) < maxother:
                cands += OTHERS
            if qa:
                cands.append(["d", 0])
            if qb:
                cands.append(["d", 1])
            for act in cands:
                _LAST.pop("key", None)
                p2 = path + [act]
                yield dict(base, actions=p2)
                stats["transitions"] += 1
                k = _LAST.pop("key", None)
                if k is None:      # case ended in a listed known finding
                    continue
                if k not in seen:
                    seen.add(k)
                    nxt.append((p2, _LAST["q"]))
        depth += 1
        frontier = nxt
    stats["states"] += len(seen)
    stats["depth"] = max(stats.get("depth", 0), depth)


ALL2 = [[0, 1], [0, 1]]
# (options, policy, max requests, re-entrant follow-ups in the alphabet)
SCOPES_QUICK = [(2, ALL2, 4, False), (2, [[0, 1], []], 6, False), (2, [[0], [1]], 6, False),
                (2, [[0, 1], [0]], 4, False), (1, [[0], [0]], 4, True), (1, [[0], []], 4, True),
                (1, [[0], [0]], 2, False, 2)]
SCOPES_THOROUGH = [(2, ALL2, 6, False), (2, [[0, 1], []], 6, False), (2, [[0], [1]], 6, False),
                   (2, [[0, 1], [0]], 5, False), (3, [[0, 1, 2], [0, 1, 2]], 4, False),
                   (1, [[0], [0]], 6, True), (1, [[0], []], 6, True), (2, ALL2, 3, True),
                   (1, [[0], [0]], 3, False, 2), (2, ALL2, 2, False, 2)]


def _scope(ctx, scope):
    nopts, policy, maxreq, reentrant = scope[:4]
    maxother = scope[4] if len(scope) > 4 else 0
    stats = {"transitions": 0, "states": 0}
    ok = enumerate_run(ctx, bfs_cases(ctx, nopts, policy, maxreq, stats, reentrant, maxother), run_case)
    _LAST.pop("key", None)
    ctx.count("bfs transitions", stats["transitions"])
    ctx.count("bfs distinct states", stats["states"])
    ctx.extra[f"scope_{nopts}opts_{maxreq}req_policy_{policy}" + ("_reentrant" if reentrant else "")
              + (f"_with_{maxother}_other_writes" if maxother else "")] = (
        f"complete: {stats['states']} states, {stats['transitions']} transitions, depth {stats.get('depth')}"
        if ok and not ctx.has_violation() else "stopped at a violation")


_THEN1 = st.tuples(st.sampled_from(VERBS), st.integers(0, 2)).map(list)
_THEN = st.one_of(_THEN1, st.tuples(st.sampled_from(VERBS), st.integers(0, 2), _THEN1).map(list))
_PAYLOAD = st.lists(st.sampled_from([0xFF, 0xF0, 0xFF, 0xF0, 0x00, 0xFA, 0xFB, 0x01, 0x61]), max_size=5).map(bytes)
_ACT = st.one_of(
    st.tuples(st.sampled_from(["s", "s", "a"]), st.integers(0, 1), _PAYLOAD).map(list),
    st.tuples(st.just("D"), st.integers(0, 1)).map(list),
    st.tuples(st.just("D"), st.integers(0, 1)).map(list),
    st.tuples(st.just("r"), st.integers(0, 1), st.sampled_from(VERBS), st.integers(0, 2)).map(list),
    st.tuples(st.just("r"), st.integers(0, 1), st.sampled_from(VERBS), st.integers(0, 2), _THEN).map(list),
    st.tuples(st.just("d"), st.integers(0, 1)).map(list),
    st.tuples(st.just("d"), st.integers(0, 1)).map(list))
_POL = st.lists(st.integers(0, 2), unique=True, max_size=3).map(sorted)
_CASES = st.fixed_dictionaries(dict(
    nopts=st.integers(1, 3),
    policy=st.one_of(st.just([[0, 1, 2], [0, 1, 2]]), st.tuples(_POL, _POL).map(list)),
    actions=st.lists(_ACT, max_size=60),
    drain=st.lists(st.integers(0, 1), max_size=6),
    lose=st.sampled_from([None, None, None, "both", 0, 1])))


def _hyp_shard(sub, i):
    hyp_run(sub, _CASES, run_case, 10000, label=f"shard{i}")
    _LAST.pop("key", None)


def run(ctx):
    if ctx.thorough:
        ctx.shards(_scope, SCOPES_THOROUGH)
    else:
        for sc in SCOPES_QUICK:
            _scope(ctx, sc)
            if ctx.has_violation():
                return
    if ctx.has_violation():
        return
    if ctx.thorough:
        ctx.shards(_hyp_shard, list(range(16)))
    else:
        hyp_run(ctx, _CASES, run_case, 1500, label="random")
    _LAST.pop("key", None)
    ctx.exhaustive = False   # the bounded scopes above are complete; the property also covers longer runs
