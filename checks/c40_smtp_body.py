"""C40 — SMTP client -> server body transparency (dot stuffing, chunked reads, segmentation).

End to end: a real SMTPClient / ESMTPClient talks to a real ESMTP server over an
in-memory wire owned by the harness.  The client's message file returns
generated short reads, the client->server byte stream is delivered in
generated segments, and the server-side IMessage records its lines.
"""
from hypothesis import strategies as st

from lib.core import hyp_run, enumerate_run

META = dict(
    property="C40",
    level="exploration",
    technique="Hypothesis bodies/read sizes/network cuts + complete small-scope enumeration, end-to-end SMTPClient<->ESMTP in memory, oracle = the body's own lines",
    level_text="Every generated body (1-2 messages per connection, lines rich in '.', '..', '.x', empty and command-like lines) is sent by a real SMTPClient/ESMTPClient to a real ESMTP server over a harness-owned wire (generated read sizes of the message file, generated producer bursts, generated segmentation of the client->server stream); the IMessage's lines, the number of messages, the server's command log and the client's sentMail results are compared with what the body dictates. All bodies of <=3 lines over a 6-line alphabet x 4 read modes are enumerated completely; larger ones are sampled.",
    level_note="Trusted: twisted.test.iosim.FakeTransport as a byte queue (the harness pumps it itself), the recording IMessage/IMessageDelivery doubles, the two-line model of the server's documented blank-line insertion. Bodies are LF-terminated lines without CR, at least one line, lines < 1000 octets. Not covered: TLS/AUTH, server-side failures (datafailed), lines longer than the server limit.",
    design_ref="§5 C40",
    rule="case = {bodies: [[line,...],...], reads: [sizes] ([]=full reads), net: [segment sizes] ([]=whole), burst, rcvd, fill (64-byte filler lines put in front so that real 16 KiB reads hit a boundary), client}. non-trivial = some body line starts with '.'; distinct by the whole case. Class counters say where dot-lines fell (message start / read-chunk start / mid chunk).",
)

FILL_LINE = b"f" * 63  # + LF = 64 octets; 256 of them = FileSender.CHUNK_SIZE


class _ShortReadFile:
    """File-like object whose read(n) returns at most the next generated size."""

    def __init__(self, data, sizes):
        self.data = data
        self.sizes = sizes
        self.pos = 0
        self.i = 0
        self.starts = []

    def read(self, n=-1):
        if n is None or n < 0:
            n = len(self.data)
        if self.sizes:
            n = min(n, self.sizes[self.i % len(self.sizes)])
            self.i += 1
        if self.pos < len(self.data):
            self.starts.append(self.pos)
        out = self.data[self.pos:self.pos + n]
        self.pos += len(out)
        return out

    def close(self):
        pass


def _build(case):
    from zope.interface import implementer
    from twisted.internet import defer, task
    from twisted.mail import smtp
    from twisted.test import iosim

    @implementer(smtp.IMessage)
    class Msg:
        def __init__(self):
            self.lines = []
            self.eom = 0
            self.lost = 0

        def lineReceived(self, line):
            self.lines.append(line)

        def eomReceived(self):
            self.eom += 1
            return defer.succeed(None)

        def connectionLost(self):
            self.lost += 1

    @implementer(smtp.IMessageDelivery)
    class Delivery:
        def __init__(self, rcvd):
            self.msgs = []
            self.rcvd = rcvd

        def receivedHeader(self, helo, origin, recipients):
            return b"Received: by harness" if self.rcvd else None

        def validateFrom(self, helo, origin):
            return origin

        def validateTo(self, user):
            def make():
                m = Msg()
                self.msgs.append(m)
                return m
            return make

    class Server(smtp.ESMTP):
        noisy = False

        def __init__(self, rcvd):
            smtp.ESMTP.__init__(self)
            self.delivery = Delivery(rcvd)
            self.cmds = []

        def state_COMMAND(self, line):
            self.cmds.append(line)
            return smtp.ESMTP.state_COMMAND(self, line)

    files = []

    class Mixin:
        debug = False

        def getMailFrom(self):
            if self.h_next >= len(self.h_bodies):
                return None
            return b"from@example.com"

        def getMailTo(self):
            return [b"to@example.com"]

        def getMailData(self):
            f = _ShortReadFile(self.h_bodies[self.h_next], case["reads"])
            self.h_next += 1
            files.append(f)
            return f

        def sentMail(self, code, resp, numOk, addresses, log):
            self.h_sent.append((code, numOk))

    if case["client"] == "esmtp":
        class Client(Mixin, smtp.ESMTPClient):
            pass
        c = Client(None, None, b"client.example")
    else:
        class Client(Mixin, smtp.SMTPClient):
            pass
        c = Client(b"client.example")
    datas = []
    for i, lines in enumerate(case["bodies"]):
        pre = [FILL_LINE] * case["fill"] if i == 0 else []
        datas.append(b"".join(l + b"\n" for l in pre + list(lines)))
    c.h_bodies = datas
    c.h_next = 0
    c.h_sent = []
    s = Server(case["rcvd"])
    clock = task.Clock()
    s.callLater = clock.callLater
    c.callLater = clock.callLater
    from twisted.internet.address import IPv4Address
    sa, ca = IPv4Address("TCP", "127.0.0.1", 25), IPv4Address("TCP", "127.0.0.1", 40025)
    stp = iosim.FakeTransport(s, True, hostAddress=sa, peerAddress=ca)
    ctp = iosim.FakeTransport(c, False, hostAddress=ca, peerAddress=sa)
    return s, c, stp, ctp, files, datas


def _pump(s, c, stp, ctp, case, total):
    """Harness-owned wire: runs until nothing moves."""
    from twisted.internet import error
    from twisted.python.failure import Failure
    net = case["net"]
    ni = 0
    s.makeConnection(stp)
    c.makeConnection(ctp)
    try:
        for _ in range(total + 200):
            moved = False
            for _b in range(case["burst"]):
                ctp._checkProducer()
            cdata = ctp.getOutBuffer()
            if cdata:
                moved = True
                pos = 0
                while pos < len(cdata):
                    if net:
                        n = net[ni % len(net)]
                        ni += 1
                    else:
                        n = len(cdata)
                    s.dataReceived(cdata[pos:pos + n])
                    pos += n
            sdata = stp.getOutBuffer()
            if sdata:
                moved = True
                c.dataReceived(sdata)
            if not moved:
                break
        else:
            return "no-quiescence"
        return "closed" if (stp.disconnecting and ctp.disconnecting) else "idle-open"
    finally:
        s.connectionLost(Failure(error.ConnectionDone()))
        c.connectionLost(Failure(error.ConnectionDone()))


def _expected_variants(lines, rcvd):
    head = [b"Received: by harness"] if rcvd else []
    first = lines[0]
    if first == b"":
        # an empty first line has no colon either; accept with or without the
        # inserted separator
        return [head + list(lines), head + [b""] + list(lines)]
    if b":" in first:
        return [head + list(lines)]
    return [head + [b""] + list(lines)]


def _verb(line):
    p = line.strip().split(None, 1)
    return p[0].upper() if p else b""


def run_case(ctx, case):
    bodies = [list(b) for b in case["bodies"]]
    assert bodies and all(bodies), "case outside the domain: empty body"
    for b in bodies:
        for l in b:
            assert b"\r" not in l and b"\n" not in l and len(l) < 1000, "line outside the domain"
    case = dict(case, bodies=bodies)
    s, c, stp, ctp, files, datas = _build(case)
    stray = None
    try:
        end = _pump(s, c, stp, ctp, case, sum(len(d) for d in datas))
    except Exception as e:  # re-raised below unless the body comparison explains it first
        stray, end = e, "exception"

    # ---- bookkeeping (before any verdict, so forgiven cases are counted too)
    fill = case["fill"]
    has_dot = False
    for i, lines in enumerate(bodies):
        starts = set(files[i].starts) if i < len(files) else set()
        off = fill * 64 if i == 0 else 0
        for j, l in enumerate(lines):
            if l[:1] == b".":
                has_dot = True
                if j == 0 and off == 0:
                    ctx.count("dot-line at message start")
                elif off in starts:
                    ctx.count("dot-line at a later read-chunk start")
                else:
                    ctx.count("dot-line inside a read chunk")
                if l == b".":
                    ctx.count("line is exactly '.'")
            off += len(l) + 1
    if has_dot:
        ctx.nontrivial(case)
        ctx.count("nontrivial (has a dot-line)")
    ctx.count("messages per connection = %d" % len(bodies))
    ctx.count("client=" + case["client"])
    if case["reads"]:
        ctx.count("short reads")
    if case["net"]:
        ctx.count("segmented network")
    if fill:
        ctx.count("16 KiB real read boundary")

    # ---- oracle
    msgs = s.delivery.msgs
    for i, lines in enumerate(bodies):
        if i >= len(msgs):
            ctx.violation("message-never-started", case,
                          f"body {i}: server created {len(msgs)} messages; commands={s.cmds!r}")
        pre = [FILL_LINE] * fill if i == 0 else []
        full = pre + lines
        got = msgs[i].lines
        variants = _expected_variants(full, case["rcvd"])
        if got in variants:
            continue
        exp = variants[0]
        k = 0
        while k < len(got) and k < len(exp) and got[k] == exp[k]:
            k += 1
        j = k - (len(exp) - len(full))       # index into the body's lines
        if k == len(got) and j < 0:
            # nothing arrived at all: the inserted separator only appears
            # together with the first body line, so that line is the culprit
            j = 0
        starts_i = files[i].starts if i < len(files) else []
        detail = (f"message {i}: first difference at received line {k} (body line {j}): "
                  f"expected {exp[k:k + 3]!r} got {got[k:k + 3]!r}; reads={case['reads']!r}; "
                  f"read starts={starts_i[:20]!r}; server commands={s.cmds!r}")
        if 0 <= j < len(full) and full[j][:1] == b".":
            offset = sum(len(l) + 1 for l in full[:j])
            lost_dot = (k < len(got) and got[k] == full[j][1:]) or (full[j] == b"." and k == len(got))
            if lost_dot and offset in starts_i:
                where = "message-start" if j == 0 else "read-chunk-start"
                ctx.violation("dot-stuffing-missed:" + where, case, detail)
            ctx.violation("dot-line-differs", case, detail)
        if got == exp[:len(got)]:
            ctx.violation("body-truncated", case, detail)
        if got[:len(exp)] == exp:
            ctx.violation("body-extra-lines", case, detail)
        ctx.violation("body-line-differs", case, detail)
    if stray is not None:
        # every message arrived intact and still something blew up: let the
        # runner classify it (exc:<Type>@<file>:<func>)
        raise stray
    if len(msgs) != len(bodies):
        ctx.violation("extra-message", case, f"{len(msgs)} messages for {len(bodies)} bodies")
    for i, m in enumerate(msgs):
        if m.eom != 1 or m.lost != 0:
            ctx.violation("message-end-events", case, f"message {i}: eomReceived x{m.eom}, connectionLost x{m.lost}")
    hello = b"EHLO" if case["client"] == "esmtp" else b"HELO"
    want = [hello] + [b"MAIL", b"RCPT", b"DATA", b"RSET"] * len(bodies) + [b"QUIT"]
    verbs = [_verb(l) for l in s.cmds]
    if verbs != want:
        ctx.violation("server-command-log", case, f"server saw commands {s.cmds!r}, expected verbs {want!r}")
    if c.h_sent != [(250, 1)] * len(bodies):
        ctx.violation("client-sentMail-result", case, f"sentMail calls {c.h_sent!r}")
    if end != "closed":
        ctx.violation("session-not-closed", case, end)
    ctx.count("cases checked to the end (not forgiven)")
    if has_dot:
        ctx.count("cases with dot-lines checked to the end")
        if len(ctx.samples) < 5:
            ctx.sample(case)


# --------------------------------------------------------------------------

SMALL_ALPHABET = [b".", b"..", b".x", b"", b"x", b"h: v"]
SMALL_READS = [[], [1], [2], [3]]


def _small_cases():
    import itertools
    for n in (1, 2, 3):
        for lines in itertools.product(SMALL_ALPHABET, repeat=n):
            for reads in SMALL_READS:
                yield dict(bodies=[list(lines)], reads=reads, net=[], burst=1, rcvd=False,
                           fill=0, client="smtp")


LINE = st.one_of(
    st.sampled_from([b".", b"..", b".x", b"...", b". ", b".\t.", b"", b"", b"x", b"a.b", b" .",
                     b"Subject: hi", b".h: v", b"QUIT", b"RSET", b"DATA", b".QUIT",
                     b"MAIL FROM:<x@example.com>", b"RCPT TO:<y@example.com>", b"\x00", b"\xff."]),
    st.binary(max_size=30).map(lambda b: b.replace(b"\r", b"r").replace(b"\n", b"n")),
    st.binary(max_size=30).map(lambda b: b"." + b.replace(b"\r", b"r").replace(b"\n", b"n")),
)


@st.composite
def cases(draw):
    nb = draw(st.sampled_from([1, 1, 2]))
    bodies = [draw(st.lists(LINE, min_size=1, max_size=8)) for _ in range(nb)]
    # half of the cases keep dot-lines away from the places where the listed
    # finding strikes (message start; mostly whole-file reads), so that the
    # rest of the mechanism is still searched behind it
    calm = draw(st.booleans())
    if calm:
        for b in bodies:
            if b[0][:1] == b".":
                b.insert(0, draw(st.sampled_from([b"", b"x", b"Subject: hi", b"QUIT"])))
        reads = draw(st.one_of(st.just([]), st.just([]),
                               st.lists(st.integers(16, 200), min_size=1, max_size=3)))
    else:
        reads = draw(st.one_of(st.just([]), st.just([1]),
                               st.lists(st.integers(1, 12), min_size=1, max_size=6)))
    net = draw(st.one_of(st.just([]), st.just([1]),
                         st.lists(st.integers(1, 24), min_size=1, max_size=5)))
    fill = draw(st.sampled_from([0] * 15 + [256]))
    return dict(bodies=bodies, reads=reads, net=net,
                burst=draw(st.integers(1, 4)), rcvd=draw(st.booleans()),
                fill=fill, client=draw(st.sampled_from(["smtp", "smtp", "esmtp"])))


def _hyp_shard(sub, i):
    hyp_run(sub, cases(), run_case, 2500, label=f"shard{i}")


def run(ctx):
    enumerate_run(ctx, _small_cases(), run_case)
    ctx.extra["exhaustive_small_scope"] = "all bodies of 1..3 lines over %r x reads in %r" % (
        SMALL_ALPHABET, SMALL_READS)
    ctx.exhaustive = False
    if ctx.has_violation():
        return
    if ctx.thorough:
        ctx.shards(_hyp_shard, list(range(16)))
    else:
        hyp_run(ctx, cases(), run_case, 2500, label="bodies")
