"""C40 — SMTP client -> server body transparency (dot stuffing, chunked reads, segmentation).

End to end: a real SMTPClient / ESMTPClient talks to a real ESMTP server over an
in-memory wire owned by the harness.  The client's message file returns
generated short reads, the client->server byte stream is delivered in
generated segments, and the server-side IMessage records its lines.
"""
from hypothesis import strategies as st

from lib.core import hyp_run, enumerate_run

META = dict(
    property="C40",
    level="exploration",
    technique="Hypothesis bodies/read sizes/network cuts + complete small-scope enumeration, end-to-end SMTPClient<->ESMTP in memory, oracle = the body's own lines",
    level_text="Every generated body (1-3 messages per connection, lines rich in '.', '..', '.x', empty and command-like lines) is sent by a real SMTPClient/ESMTPClient to a real ESMTP server over a harness-owned wire (generated read sizes of the message file, generated producer bursts, generated segmentation of the client->server stream); an earlier message may be refused by its server-side IMessage (SMTPServerError at its n-th line: the documented refusal path) and the server's clock may advance between deliveries with an idle timeout larger than any gap between lines; the IMessage's lines, the number of messages, the server's command log and the client's sentMail results are compared with what the body dictates. All bodies of <=3 lines over a 6-line alphabet x 4 read modes are enumerated completely; larger ones are sampled.",
    level_note="Trusted: twisted.test.iosim.FakeTransport as a byte queue (the harness pumps it itself), the recording IMessage/IMessageDelivery doubles, the two-line model of the server's documented blank-line insertion. Bodies are LF-terminated lines without CR, at least one line, lines < 1000 octets. For a refused message only the lines before the refusal, the command log and the session's continuation are judged. Not covered: TLS/AUTH, lines longer than the server limit.",
    design_ref="§5 C40",
    rule="case = {bodies: [[line,...],...], reads: [sizes] ([]=full reads), net: [segment sizes] ([]=whole), burst, rcvd, fill (64-byte filler lines put in front so that real 16 KiB reads hit a boundary), client, refuse: [n|None per message], dt (server seconds per delivery)}. non-trivial = some body line starts with '.', or a message is refused, or the link is slow; distinct by the whole case. Class counters say where dot-lines fell (message start / read-chunk start / mid chunk).",
)

FILL_LINE = b"f" * 63  # + LF = 64 octets; 256 of them = FileSender.CHUNK_SIZE


class _ShortReadFile:
    """File-like object whose read(n) returns at most the next generated size."""

    def __init__(self, data, sizes):
        self.data = data
        self.sizes = sizes
        self.pos = 0
        self.i = 0
        self.starts = []

    def read(self, n=-1):
        if n is None or n < 0:
            n = len(self.data)
        if self.sizes:
            n = min(n, self.sizes[self.i % len(self.sizes)])
            self.i += 1
        if self.pos < len(self.data):
            self.starts.append(self.pos)
        out = self.data[self.pos:self.pos + n]
        self.pos += len(out)
        return out

    def close(self):
        pass


def _build(case):
    from zope.interface import implementer
    from twisted.internet import defer, task
    from twisted.mail import smtp
    from twisted.test import iosim

    @implementer(smtp.IMessage)
    class Msg:
        def __init__(self, refuse_at):
            self.lines = []
            self.eom = 0
            self.lost = 0
            self.calls = 0
            self.refuse_at = refuse_at
            self.refused = False

        def lineReceived(self, line):
            n = self.calls
            self.calls += 1
            if n == self.refuse_at:
                # the documented way for a message object to refuse a body
                self.refused = True
                raise smtp.SMTPServerError(550, b"refused by the harness")
            self.lines.append(line)

        def eomReceived(self):
            self.eom += 1
            return defer.succeed(None)

        def connectionLost(self):
            self.lost += 1

    @implementer(smtp.IMessageDelivery)
    class Delivery:
        def __init__(self, rcvd):
            self.msgs = []
            self.rcvd = rcvd
            self.refuse = list(case.get("refuse") or [])

        def receivedHeader(self, helo, origin, recipients):
            return b"Received: by harness" if self.rcvd else None

        def validateFrom(self, helo, origin):
            return origin

        def validateTo(self, user):
            def make():
                k = len(self.msgs)
                m = Msg(self.refuse[k] if k < len(self.refuse) else None)
                self.msgs.append(m)
                return m
            return make

    class Server(smtp.ESMTP):
        noisy = False

        def __init__(self, rcvd):
            smtp.ESMTP.__init__(self)
            self.delivery = Delivery(rcvd)
            self.cmds = []

        def state_COMMAND(self, line):
            self.cmds.append(line)
            return smtp.ESMTP.state_COMMAND(self, line)

    files = {}

    class Mixin:
        debug = False

        def getMailFrom(self):
            self.h_cur += 1
            if self.h_cur >= len(self.h_bodies):
                return None
            return b"from@example.com"

        def getMailTo(self):
            return [b"to@example.com"]

        def getMailData(self):
            f = _ShortReadFile(self.h_bodies[self.h_cur], case["reads"])
            files[self.h_cur] = f
            return f

        def sentMail(self, code, resp, numOk, addresses, log):
            self.h_sent.append((code, numOk))

    if case["client"] == "esmtp":
        class Client(Mixin, smtp.ESMTPClient):
            pass
        c = Client(None, None, b"client.example")
    else:
        class Client(Mixin, smtp.SMTPClient):
            pass
        c = Client(b"client.example")
    datas = []
    for i, lines in enumerate(case["bodies"]):
        pre = [FILL_LINE] * case["fill"] if i == 0 else []
        datas.append(b"".join(l + b"\n" for l in pre + list(lines)))
    c.h_bodies = datas
    c.h_cur = -1
    c.h_sent = []
    s = Server(case["rcvd"])
    dt = case.get("dt") or 0
    if dt:
        # idle timeout strictly larger than any gap between two lines the
        # server can see: a wire line of W octets needs at most W pump
        # iterations (every iteration reads >= 1 octet of the file)
        wmax = max(len(l) for b in case["bodies"] for l in b) + 3
        if case["fill"]:
            wmax = max(wmax, 66)
        s.timeout = dt * (wmax + 4)
    clock = task.Clock()
    s.h_clock = clock
    s.callLater = clock.callLater
    c.callLater = clock.callLater
    from twisted.internet.address import IPv4Address
    sa, ca = IPv4Address("TCP", "127.0.0.1", 25), IPv4Address("TCP", "127.0.0.1", 40025)
    stp = iosim.FakeTransport(s, True, hostAddress=sa, peerAddress=ca)
    ctp = iosim.FakeTransport(c, False, hostAddress=ca, peerAddress=sa)
    return s, c, stp, ctp, files, datas


def _pump(s, c, stp, ctp, case, total):
    """Harness-owned wire: runs until nothing moves."""
    from twisted.internet import error
    from twisted.python.failure import Failure
    from twisted.mail import smtp
    net = case["net"]
    ni = 0
    dt = case.get("dt") or 0
    s.h_out = []
    s.h_data_iters = 0
    s.makeConnection(stp)
    c.makeConnection(ctp)
    try:
        for _ in range(total + 200):
            moved = False
            for _b in range(case["burst"]):
                ctp._checkProducer()
            cdata = ctp.getOutBuffer()
            if cdata:
                moved = True
                pos = 0
                while pos < len(cdata):
                    if net:
                        n = net[ni % len(net)]
                        ni += 1
                    else:
                        n = len(cdata)
                    s.dataReceived(cdata[pos:pos + n])
                    pos += n
            sdata = stp.getOutBuffer()
            if sdata:
                moved = True
                s.h_out.append(sdata)
                c.dataReceived(sdata)
            if not moved:
                break
            if dt:
                if s.mode == smtp.DATA:
                    s.h_data_iters += 1
                s.h_clock.advance(dt)
        else:
            return "no-quiescence"
        return "closed" if (stp.disconnecting and ctp.disconnecting) else "idle-open"
    finally:
        s.connectionLost(Failure(error.ConnectionDone()))
        c.connectionLost(Failure(error.ConnectionDone()))


def _expected_variants(lines, rcvd):
    head = [b"Received: by harness"] if rcvd else []
    first = lines[0]
    if first == b"":
        # an empty first line has no colon either; accept with or without the
        # inserted separator
        return [head + list(lines), head + [b""] + list(lines)]
    if b":" in first:
        return [head + list(lines)]
    return [head + [b""] + list(lines)]


def _verb(line):
    p = line.strip().split(None, 1)
    return p[0].upper() if p else b""


def run_case(ctx, case):
    bodies = [list(b) for b in case["bodies"]]
    assert bodies and all(bodies), "case outside the domain: empty body"
    for b in bodies:
        for l in b:
            assert b"\r" not in l and b"\n" not in l and len(l) < 1000, "line outside the domain"
    case = dict(case, bodies=bodies)
    s, c, stp, ctp, files, datas = _build(case)
    stray = None
    try:
        end = _pump(s, c, stp, ctp, case, sum(len(d) for d in datas))
    except Exception as e:  # re-raised below unless the body comparison explains it first
        stray, end = e, "exception"

    # ---- bookkeeping (before any verdict, so forgiven cases are counted too)
    fill = case["fill"]
    refuse = list(case.get("refuse") or [])
    refuse += [None] * (len(bodies) - len(refuse))
    dt = case.get("dt") or 0
    has_dot = False
    for i, lines in enumerate(bodies):
        starts = set(files[i].starts) if i in files else set()
        off = fill * 64 if i == 0 else 0
        for j, l in enumerate(lines):
            if l[:1] == b".":
                has_dot = True
                if j == 0 and off == 0:
                    ctx.count("dot-line at message start")
                elif off in starts:
                    ctx.count("dot-line at a later read-chunk start")
                else:
                    ctx.count("dot-line inside a read chunk")
                if l == b".":
                    ctx.count("line is exactly '.'")
            off += len(l) + 1
    # which messages does the server-side IMessage really refuse, and where
    refused = []
    for i, lines in enumerate(bodies):
        pre = [FILL_LINE] * fill if i == 0 else []
        v0 = _expected_variants(pre + lines, case["rcvd"])[0]
        refused.append(refuse[i] is not None and refuse[i] < len(v0))
    if has_dot or any(refused) or dt:
        ctx.nontrivial(case)
        ctx.count("nontrivial (dot-line, refusal history or slow link)")
    ctx.count("messages per connection = %d" % len(bodies))
    ctx.count("client=" + case["client"])
    if case["reads"]:
        ctx.count("short reads")
    if case["net"]:
        ctx.count("segmented network")
    if fill:
        ctx.count("16 KiB real read boundary")
    for i in range(len(bodies)):
        if refused[i]:
            if case["rcvd"] and refuse[i] == 0:
                ctx.count("message refused at DATA (its Received header was refused)")
            else:
                ctx.count("message refused mid-body by the server-side IMessage")
        elif any(refused[:i]):
            ctx.count("valid message sent after a refused one on the same connection")
    if dt:
        ctx.count("slow link (server clock advances between deliveries)")
        if s.h_data_iters * dt > s.timeout:
            ctx.count("slow link: DATA phase lasted longer than the server's idle timeout")

    # ---- oracle
    if dt and any(chunk.startswith(b"421") or b"\r\n421" in chunk for chunk in s.h_out):
        ctx.violation("server-idle-timeout-while-client-kept-sending", case,
                      f"server timeout {s.timeout}s, {dt}s per delivery, {s.h_data_iters} deliveries in DATA mode; "
                      f"server said {b''.join(s.h_out)[-120:]!r}")
    msgs = s.delivery.msgs
    for i, lines in enumerate(bodies):
        if i >= len(msgs):
            ctx.violation("message-never-started", case,
                          f"body {i}: server created {len(msgs)} messages; commands={s.cmds!r}")
        pre = [FILL_LINE] * fill if i == 0 else []
        full = pre + lines
        got = msgs[i].lines
        variants = _expected_variants(full, case["rcvd"])
        # a refusing IMessage keeps exactly the lines before the refused call
        cands = [v[:refuse[i]] if (refuse[i] is not None and refuse[i] < len(v)) else v for v in variants]
        if got in cands:
            continue
        exp = cands[0]
        k = 0
        while k < len(got) and k < len(exp) and got[k] == exp[k]:
            k += 1
        j = k - (len(variants[0]) - len(full))       # index into the body's lines
        if k == len(got) and j < 0:
            # nothing arrived at all: the inserted separator only appears
            # together with the first body line, so that line is the culprit
            j = 0
        starts_i = files[i].starts if i in files else []
        detail = (f"message {i}: first difference at received line {k} (body line {j}): "
                  f"expected {exp[k:k + 3]!r} got {got[k:k + 3]!r}; reads={case['reads']!r}; "
                  f"read starts={starts_i[:20]!r}; refuse={refuse!r}; server commands={s.cmds!r}")
        if any(refused[:i]) and not refused[i]:
            ctx.violation("message-after-refused-one-damaged", case, detail)
        if 0 <= j < len(full) and full[j][:1] == b".":
            offset = sum(len(l) + 1 for l in full[:j])
            lost_dot = (k < len(got) and got[k] == full[j][1:]) or (full[j] == b"." and k == len(got))
            if lost_dot and offset in starts_i:
                where = "message-start" if j == 0 else "read-chunk-start"
                ctx.violation("dot-stuffing-missed:" + where, case, detail)
            ctx.violation("dot-line-differs", case, detail)
        if got == exp[:len(got)]:
            ctx.violation("body-truncated", case, detail)
        if got[:len(exp)] == exp:
            ctx.violation("body-extra-lines", case, detail)
        ctx.violation("body-line-differs", case, detail)
    if stray is not None:
        # every message arrived intact and still something blew up: let the
        # runner classify it (exc:<Type>@<file>:<func>)
        raise stray
    if len(msgs) != len(bodies):
        ctx.violation("extra-message", case, f"{len(msgs)} messages for {len(bodies)} bodies")
    for i, m in enumerate(msgs):
        if refused[i]:
            if not m.refused:
                ctx.violation("harness-refusal-not-reached", case, f"message {i}")
            continue
        if m.eom != 1 or m.lost != 0:
            ctx.violation("message-end-events", case, f"message {i}: eomReceived x{m.eom}, connectionLost x{m.lost}")
    hello = b"EHLO" if case["client"] == "esmtp" else b"HELO"
    want = [hello] + [b"MAIL", b"RCPT", b"DATA", b"RSET"] * len(bodies) + [b"QUIT"]
    verbs = [_verb(l) for l in s.cmds]
    if verbs != want:
        ctx.violation("server-command-log", case, f"server saw commands {s.cmds!r}, expected verbs {want!r}")
    ok_sent = len(c.h_sent) == len(bodies) and all(
        c.h_sent[i] == (250, 1) for i in range(len(bodies)) if not refused[i])
    if not ok_sent:
        ctx.violation("client-sentMail-result", case, f"sentMail calls {c.h_sent!r}; refused={refused!r}")
    if end != "closed":
        ctx.violation("session-not-closed", case, end)
    ctx.count("cases checked to the end (not forgiven)")
    if has_dot:
        ctx.count("cases with dot-lines checked to the end")
        if len(ctx.samples) < 5:
            ctx.sample(case)


# --------------------------------------------------------------------------

SMALL_ALPHABET = [b".", b"..", b".x", b"", b"x", b"h: v"]
SMALL_READS = [[], [1], [2], [3]]


def _small_cases():
    import itertools
    for n in (1, 2, 3):
        for lines in itertools.product(SMALL_ALPHABET, repeat=n):
            for reads in SMALL_READS:
                yield dict(bodies=[list(lines)], reads=reads, net=[], burst=1, rcvd=False,
                           fill=0, client="smtp")


def _small_history_cases():
    """Two messages on one connection; the first one is refused by its
    IMessage at its 0th/1st/2nd lineReceived call (incl. the Received header)."""
    import itertools
    firsts = [list(t) for n in (1, 2) for t in itertools.product(SMALL_ALPHABET, repeat=n)]
    for first in firsts:
        for at in (0, 1, 2):
            for second in SMALL_ALPHABET:
                for reads, rcvd in (([], False), ([1], True)):
                    yield dict(bodies=[first, [second]], refuse=[at, None], reads=reads, net=[], burst=1,
                               rcvd=rcvd, fill=0, client="smtp", dt=0)


def _small_slow_cases():
    """Bodies of 2-3 lines read 1-2 octets at a time while the server's clock
    advances between deliveries (its idle timeout is larger than any gap
    between lines, smaller than the whole transfer)."""
    import itertools
    for n, readset in ((2, ([1], [2])), (3, ([1],))):
        for lines in itertools.product(SMALL_ALPHABET, repeat=n):
            for reads in readset:
                # repeated three times so the transfer outlasts the timeout
                yield dict(bodies=[list(lines) * 3], refuse=[None], reads=reads, net=[], burst=1, rcvd=False,
                           fill=0, client="smtp", dt=1.0)


LINE = st.one_of(
    st.sampled_from([b".", b"..", b".x", b"...", b". ", b".\t.", b"", b"", b"x", b"a.b", b" .",
                     b"Subject: hi", b".h: v", b"QUIT", b"RSET", b"DATA", b".QUIT",
                     b"MAIL FROM:<x@example.com>", b"RCPT TO:<y@example.com>", b"\x00", b"\xff."]),
    st.binary(max_size=30).map(lambda b: b.replace(b"\r", b"r").replace(b"\n", b"n")),
    st.binary(max_size=30).map(lambda b: b"." + b.replace(b"\r", b"r").replace(b"\n", b"n")),
)


@st.composite
def cases(draw):
    nb = draw(st.sampled_from([1, 1, 2, 2, 3]))
    bodies = [draw(st.lists(LINE, min_size=1, max_size=8)) for _ in range(nb)]
    # half of the cases keep dot-lines away from the places where the listed
    # finding strikes (message start; mostly whole-file reads), so that the
    # rest of the mechanism is still searched behind it
    calm = draw(st.booleans())
    if calm:
        for b in bodies:
            if b[0][:1] == b".":
                b.insert(0, draw(st.sampled_from([b"", b"x", b"Subject: hi", b"QUIT"])))
        reads = draw(st.one_of(st.just([]), st.just([]),
                               st.lists(st.integers(16, 200), min_size=1, max_size=3)))
    else:
        reads = draw(st.one_of(st.just([]), st.just([1]),
                               st.lists(st.integers(1, 12), min_size=1, max_size=6)))
    net = draw(st.one_of(st.just([]), st.just([1]),
                         st.lists(st.integers(1, 24), min_size=1, max_size=5)))
    fill = draw(st.sampled_from([0] * 15 + [256]))
    # history: an earlier message may be refused by its IMessage (at its n-th line)
    refuse = [draw(st.sampled_from([None, None, None, 0, 1, 2, 3, 5])) for _ in range(nb)]
    # schedule: server time passing between deliveries
    dt = draw(st.sampled_from([0, 0, 0, 1.0, 7.5])) if not fill else 0
    if dt and draw(st.booleans()):
        reads = draw(st.sampled_from([[1], [2], [1, 3]]))    # long transfers, short gaps
    return dict(bodies=bodies, reads=reads, net=net, refuse=refuse, dt=dt,
                burst=draw(st.integers(1, 4)), rcvd=draw(st.booleans()),
                fill=fill, client=draw(st.sampled_from(["smtp", "smtp", "esmtp"])))


def _hyp_shard(sub, i):
    hyp_run(sub, cases(), run_case, 2500, label=f"shard{i}")


def run(ctx):
    enumerate_run(ctx, _small_cases(), run_case)
    if not ctx.has_violation():
        enumerate_run(ctx, _small_history_cases(), run_case)
    if not ctx.has_violation():
        enumerate_run(ctx, _small_slow_cases(), run_case)
    ctx.extra["exhaustive_small_scope"] = ("all bodies of 1..3 lines over %r x reads in %r; all pairs (refused first message "
                                           "of 1..2 lines refused at call 0/1/2, second message of 1 line); all bodies of 2..3 lines "
                                           "read 1-2 octets at a time on a slow link" % (SMALL_ALPHABET, SMALL_READS))
    ctx.exhaustive = False
    if ctx.has_violation():
        return
    if ctx.thorough:
        ctx.shards(_hyp_shard, list(range(16)))
    else:
        hyp_run(ctx, cases(), run_case, 2500, label="bodies")
