"""C41 — IMAP4 modified UTF-7 and SMTP xtext codecs: RFC form + round trip."""
import base64
import re

from hypothesis import strategies as st

from lib.core import hyp_run, enumerate_run

META = dict(
    property="C41",
    level="exploration",
    technique="round trip + RFC grammar + independent reference codecs; complete enumeration of short inputs over a hostile alphabet, Hypothesis for long ones",
    level_text="imap4.encoder/decoder (and the registered 'imap4-utf-7' codec) are run on every BMP code point below U+3000 (thorough: every Unicode scalar value), every string of <=3 characters over a 14-character hostile alphabet, a single shifted run of every length 0..130 characters (and sizes around 256/512/1024/4096/10000) for five 2-, 4- and 6-octet units, and random strings over all scalar values including long non-ASCII runs up to 200 characters; output must match the RFC 3501 5.1.3 grammar, be readable by a reference decoder written from the RFC (base64 module + UTF-16BE), equal the canonical RFC encoding, and decode back with twisted's decoder. smtp.xtext_encode/xtext_decode are run on every byte string of length <=2 (both as bytes and in the latin-1 text form the codec API and twisted's callers use) and on random byte strings; output must match the RFC 3461 grammar, be readable by a reference decoder, and decode back.",
    level_note="Reference codecs (ref_mutf7_encode/decode, ref_xtext_decode) written from RFC 3501 5.1.3 / RFC 2152 / RFC 3461 4, trusted; they use only base64 and UTF-16BE from the standard library, not Python's utf-7 codec. xtext_decode returns text: a str equal to the latin-1 reading of the bytes is accepted as 'the same bytes'.",
    design_ref="§5 C41",
    rule="mutf7 case = {kind:'mutf7', s}; non-trivial = s contains at least one character that needs a shift sequence or '&'. xtext case = {kind:'xtext', b, form}; non-trivial = b contains a byte that must be hex-escaped ('+', '=', <33, >126). Distinct by the whole case.",
)

# ---------------------------------------------------------------- references


def _printable(c):
    return 0x20 <= ord(c) <= 0x7E


def ref_mutf7_encode(s):
    out = bytearray()
    run = []

    def flush():
        if run:
            b = base64.b64encode("".join(run).encode("utf-16-be")).rstrip(b"=").replace(b"/", b",")
            out.extend(b"&" + b + b"-")
            del run[:]
    for c in s:
        if _printable(c):
            flush()
            out.extend(b"&-" if c == "&" else c.encode("ascii"))
        else:
            run.append(c)
    flush()
    return bytes(out)


MUTF7_GRAMMAR = re.compile(rb"\A(?:[\x20-\x25\x27-\x7e]|&-|&[A-Za-z0-9+,]+-)*\Z")
MUTF7_TOKEN = re.compile(rb"[\x20-\x25\x27-\x7e]|&-|&[A-Za-z0-9+,]+-")


class RefError(Exception):
    pass


def ref_mutf7_decode(b):
    """Strict RFC 3501 reader; raises RefError with a reason."""
    if not MUTF7_GRAMMAR.match(b):
        raise RefError("not in the RFC 3501 mailbox grammar (printable ASCII, '&-', '&<modified base64>-')")
    out = []
    prev_shift = False
    for tok in MUTF7_TOKEN.findall(b):
        if len(tok) > 2:
            if prev_shift:
                raise RefError("two adjacent shift sequences")
            body = tok[1:-1].replace(b",", b"/")
            if len(body) % 4 == 1:
                raise RefError("impossible base64 length")
            raw = base64.b64decode(body + b"=" * (-len(body) % 4))
            if base64.b64encode(raw).rstrip(b"=") != body:
                raise RefError("non-zero padding bits in base64")
            if len(raw) % 2:
                raise RefError("odd number of UTF-16 octets")
            try:
                text = raw.decode("utf-16-be")
            except UnicodeDecodeError:
                raise RefError("shift sequence is not valid UTF-16")
            if any(_printable(c) for c in text):
                raise RefError("printable ASCII represented in base64")
            out.append(text)
            prev_shift = True
        else:
            out.append("&" if tok == b"&-" else tok.decode("ascii"))
            prev_shift = False
    return "".join(out)


XTEXT_GRAMMAR = re.compile(rb"\A(?:[!-*,-<>-~]|\+[0-9A-F]{2})*\Z")


def ref_xtext_decode(b):
    if not XTEXT_GRAMMAR.match(b):
        raise RefError("not RFC 3461 xtext")
    return re.sub(rb"\+([0-9A-F]{2})", lambda m: bytes([int(m.group(1), 16)]), b)


# ---------------------------------------------------------------- oracles

def _mutf7_verdict(s):
    """None if everything holds for s, else (signature, detail)."""
    from twisted.mail import imap4
    enc, _n = imap4.encoder(s)
    if not isinstance(enc, bytes):
        return "mutf7-encode-type", f"encoder returned {type(enc).__name__}"
    via_codec = s.encode("imap4-utf-7")
    if via_codec != enc:
        return "mutf7-codec-registration-differs", f"{via_codec!r} != {enc!r}"
    if any(c < 0x20 or c > 0x7E for c in enc):
        return "mutf7-output-not-printable-ascii", f"{s!r} -> {enc!r}"
    try:
        back = ref_mutf7_decode(enc)
    except RefError as e:
        return "mutf7-output-not-rfc3501:" + str(e).split(" (")[0].replace(" ", "-"), f"{s!r} -> {enc!r}: {e}"
    if back != s:
        return "mutf7-output-means-something-else", f"{s!r} -> {enc!r}, which an RFC 3501 reader decodes as {back!r}"
    if enc != ref_mutf7_encode(s):
        return "mutf7-output-not-canonical", f"{s!r} -> {enc!r}, RFC form {ref_mutf7_encode(s)!r}"
    try:
        dec, _n = imap4.decoder(enc)
    except UnicodeError as e:
        # raised inside the standard library on behalf of twisted's decoder;
        # the runner would not attribute it to twisted by itself
        return "mutf7-decode-raises", f"{s!r} -> {enc!r} -> {type(e).__name__}: {e}"
    if dec != s:
        return "mutf7-decode-roundtrip", f"{s!r} -> {enc!r} -> {dec!r}"
    if enc.decode("imap4-utf-7") != s:
        return "mutf7-codec-decode-roundtrip", f"{s!r} -> {enc!r} -> {enc.decode('imap4-utf-7')!r}"
    return None


TLC = "\t\n\r"


def _longest_run_octets(s):
    """UTF-16 size of the longest run of characters that must share one shift sequence."""
    best = cur = 0
    for c in s:
        if _printable(c):
            cur = 0
        else:
            cur += 4 if ord(c) > 0xFFFF else 2
            if cur > best:
                best = cur
    return best


def _run_mutf7(ctx, case):
    s = case["s"]
    needs_shift = any(not _printable(c) for c in s)
    if needs_shift or "&" in s:
        ctx.nontrivial(("m", s))
        ctx.count("mutf7 nontrivial")
    if needs_shift:
        ctx.count("mutf7: needs a shift sequence")
    if "&" in s:
        ctx.count("mutf7: contains '&'")
    if any(ord(c) < 0x20 or ord(c) == 0x7F for c in s):
        ctx.count("mutf7: control character")
    if any(c in TLC for c in s):
        ctx.count("mutf7: TAB/LF/CR")
    if any(ord(c) > 0xFFFF for c in s):
        ctx.count("mutf7: astral")
    if any(c in s for c in "+,-/"):
        ctx.count("mutf7: one of + , - /")
    longest = _longest_run_octets(s)
    if longest > 57:
        # more than one 76-character base64 line / 57-octet group
        ctx.count("mutf7: shifted run > 57 UTF-16 octets (base64 > 76 chars)")
    if longest > 114:
        ctx.count("mutf7: shifted run > 114 UTF-16 octets")
    if longest > 1024:
        ctx.count("mutf7: shifted run > 1024 UTF-16 octets")
    v = _mutf7_verdict(s)
    if v is None:
        if needs_shift and len(ctx.samples) < 3:
            ctx.sample(case)
        return
    sig, detail = v
    if any(c in TLC for c in s):
        # Is the failure due to TAB/LF/CR alone?  Swap them for another
        # control character (U+000B) and look again.
        s2 = "".join("\x0b" if c in TLC else c for c in s)
        if _mutf7_verdict(s2) is None:
            ctx.violation("mutf7-tab-lf-cr-corrupted", case, f"[{sig}] {detail}")
    ctx.violation(sig, case, detail)


def _xtext_verdict(b, form):
    """(signature, detail, encoded) with signature None if everything holds."""
    from twisted.mail import smtp
    if form == "bytes":
        enc, _n = smtp.xtext_encode(b)
    elif form == "latin1":
        enc, _n = smtp.xtext_encode(b.decode("latin-1"))
    else:
        enc = b.decode("latin-1").encode("xtext")
    if not isinstance(enc, bytes):
        return "xtext-encode-type", type(enc).__name__, enc
    try:
        back = ref_xtext_decode(enc)
    except RefError:
        return "xtext-output-not-rfc3461", f"{form}: {b!r} -> {enc!r}", enc
    if back != b:
        return ("xtext-output-means-something-else",
                f"{form}: {b!r} -> {enc!r}, which an RFC 3461 reader decodes as {back!r}", enc)
    dec, _n = smtp.xtext_decode(enc)
    if not (dec == b or dec == b.decode("latin-1")):
        return "xtext-decode-roundtrip", f"{form}: {b!r} -> {enc!r} -> {dec!r}", enc
    dec2 = enc.decode("xtext")
    if not (dec2 == b or dec2 == b.decode("latin-1")):
        return "xtext-codec-decode-roundtrip", f"{form}: {b!r} -> {enc!r} -> {dec2!r}", enc
    return None, None, enc


def _run_xtext(ctx, case):
    b, form = case["b"], case["form"]
    special = [x for x in b if x in (0x2B, 0x3D) or x < 33 or x > 126]
    if special:
        ctx.nontrivial(("x", b, form))
        ctx.count("xtext nontrivial")
    if 0x2B in b or 0x3D in b:
        ctx.count("xtext: contains '+' or '='")
    if any(x > 126 for x in b):
        ctx.count("xtext: byte > 126")
    if any(x < 33 for x in b):
        ctx.count("xtext: byte < 33")
    ctx.count("xtext form=" + form)
    if len(b) > 57:
        ctx.count("xtext: input longer than 57 octets")
    sig, detail, enc = _xtext_verdict(b, form)
    if sig is not None:
        if form == "bytes" and (0x2B in b or 0x3D in b):
            # exactly "everything right except that '+' and '=' stay raw"?
            raw = b"".join(bytes([x]) if 33 <= x <= 126 else b"+%02X" % x for x in b)
            if enc == raw:
                ctx.violation("xtext-bytes-input-plus-equals-unescaped", case, f"[{sig}] {detail}")
        ctx.violation(sig, case, detail)
    if special and form == "bytes" and len(ctx.samples) < 5:
        ctx.sample(case)


def run_case(ctx, case):
    if case["kind"] == "mutf7":
        s = case["s"]
        assert not any(0xD800 <= ord(c) <= 0xDFFF for c in s), "lone surrogate: outside the domain"
        _run_mutf7(ctx, case)
    else:
        _run_xtext(ctx, case)


# ---------------------------------------------------------------- generation

HOSTILE = ["a", "&", "-", "+", ",", "/", "\n", "\t", "\x00", "\x7f", "\xe9", "€", "￿", "\U0001F600"]
FORMS = ["bytes", "latin1", "codec"]


def _codepoint_cases(lo, hi):
    for cp in range(lo, hi):
        if 0xD800 <= cp <= 0xDFFF:
            continue
        yield dict(kind="mutf7", s=chr(cp))
        if cp % 64 == 0:
            # the same character inside a run and next to specials
            yield dict(kind="mutf7", s="\xe9" + chr(cp) + "&" + chr(cp))


def _short_mutf7_cases():
    import itertools
    for n in (0, 1, 2, 3):
        for t in itertools.product(HOSTILE, repeat=n):
            yield dict(kind="mutf7", s="".join(t))


RUN_CHARS = ["\xe9", "\x00", "\uffff", "\U0001F600", "\xe9\U0001F600"]
RUN_LENGTHS = list(range(0, 131)) + [199, 200, 255, 256, 257, 500, 511, 512, 513, 1000, 1023, 1024, 1025,
                                      4095, 4096, 4097, 10000]


def _long_run_cases():
    """Every shifted-run length 0..130 characters (several 57-octet / 76-character
    base64 lines, for 2-, 4- and 6-octet units) and sizes around common buffer
    boundaries, bare / between printable ASCII / two runs split by '&'."""
    for n in RUN_LENGTHS:
        for unit in RUN_CHARS:
            run = (unit * n)[:n] if len(unit) == 1 else (unit * n)[:n]
            yield dict(kind="mutf7", s=run)
            if n <= 300:
                yield dict(kind="mutf7", s="a" + run + "b")
                yield dict(kind="mutf7", s=run + "&" + run[: n // 2] + "-")


def _long_xtext_cases():
    for n in (56, 57, 58, 75, 76, 77, 255, 256, 257, 1000, 1024, 4096):
        for form in FORMS:
            yield dict(kind="xtext", b=bytes((i * 7 + n) % 256 for i in range(n)), form=form)
            yield dict(kind="xtext", b=b"a" * (n - 1) + b"\n", form=form)
            yield dict(kind="xtext", b=b"+" * n, form=form)


def _short_xtext_cases():
    for form in FORMS:
        yield dict(kind="xtext", b=b"", form=form)
        for a in range(256):
            yield dict(kind="xtext", b=bytes([a]), form=form)
    for a in range(256):
        for c in range(256):
            yield dict(kind="xtext", b=bytes([a, c]), form=FORMS[(a + c) % 3])


def _cp_shard(sub, rng):
    enumerate_run(sub, _codepoint_cases(*rng), run_case)


CHAR = st.one_of(
    st.sampled_from(HOSTILE + ["\r", "\x01", "\x1f", " ", "~", "\\", "=", "A", "\x80", "Ā", "퟿", "", "\U00010000", "\U0010FFFF"]),
    st.characters(blacklist_categories=["Cs"]),
    st.characters(min_codepoint=0, max_codepoint=0x7F),
    st.characters(min_codepoint=0x10000, max_codepoint=0x10FFFF),
)
NONASCII = st.one_of(st.sampled_from(["\xe9", "\x00", "\x7f", "\x80", "\uffff", "\u4e2d", "\U0001F600", "\U0010FFFF"]),
                     st.characters(min_codepoint=0x80, blacklist_categories=["Cs"]),
                     st.characters(min_codepoint=0, max_codepoint=0x1F))
# long shifted runs: one repeated unit, or varied non-ASCII text, 1..200 characters
LONG_RUN = st.one_of(
    st.builds(lambda u, n: u * n, NONASCII, st.integers(1, 200)),
    st.text(alphabet=st.characters(min_codepoint=0x80, blacklist_categories=["Cs"]), min_size=20, max_size=120),
    st.builds(lambda u, n: u * n, NONASCII, st.sampled_from([28, 29, 30, 38, 39, 56, 57, 58, 76, 77, 114, 115])),
)
PIECE41 = st.one_of(CHAR, CHAR, CHAR, CHAR, CHAR, CHAR, CHAR, LONG_RUN)
MUTF7 = st.builds(lambda cs: dict(kind="mutf7", s="".join(cs)), st.lists(PIECE41, max_size=16))
XBYTE = st.one_of(st.sampled_from([0x2B, 0x3D, 0x20, 0x21, 0x7E, 0x7F, 0x00, 0xFF, 0x41, 0x34, 0x31]),
                  st.integers(0, 255))
XTEXT = st.builds(lambda bs, f: dict(kind="xtext", b=bytes(bs), form=f),
                  st.one_of(st.lists(XBYTE, max_size=24), st.lists(XBYTE, max_size=24), st.lists(XBYTE, max_size=24),
                            st.binary(min_size=40, max_size=300).map(list)),
                  st.sampled_from(FORMS))


def _hyp_shard(sub, i):
    hyp_run(sub, MUTF7, run_case, 12000, label=f"mutf7-{i}")
    hyp_run(sub, XTEXT, run_case, 6000, label=f"xtext-{i}")


def run(ctx):
    enumerate_run(ctx, _short_mutf7_cases(), run_case, stop_after_violation=False)
    enumerate_run(ctx, _short_xtext_cases(), run_case, stop_after_violation=False)
    enumerate_run(ctx, _long_run_cases(), run_case, stop_after_violation=False)
    enumerate_run(ctx, _long_xtext_cases(), run_case, stop_after_violation=False)
    if ctx.thorough:
        step = 0x110000 // 16
        ctx.shards(_cp_shard, [(i * step, (i + 1) * step) for i in range(16)])
        ctx.extra["codepoints_enumerated"] = "all Unicode scalar values"
    else:
        enumerate_run(ctx, _codepoint_cases(0, 0x3000), run_case, stop_after_violation=False)
        ctx.extra["codepoints_enumerated"] = "U+0000..U+2FFF"
    ctx.extra["exhaustive_small_scope"] = ("mutf7: all strings of <=3 characters over %r; xtext: all byte strings of "
                                           "length <=2 (length <=1 in all three input forms); mutf7 shifted runs of every length 0..130 characters "
                                           "and %r for units %r" % (HOSTILE, RUN_LENGTHS[131:], RUN_CHARS))
    ctx.exhaustive = False
    if ctx.has_violation():
        return
    if ctx.thorough:
        ctx.shards(_hyp_shard, list(range(16)))
    else:
        hyp_run(ctx, MUTF7, run_case, 3000, label="mutf7")
        hyp_run(ctx, XTEXT, run_case, 2500, label="xtext")
