"""C42 — imap4.parseNestedParens(imap4.collapseNestedLists([x])) == [normalize(x)]."""
import itertools

from hypothesis import strategies as st

from lib.core import hyp_run, enumerate_run

META = dict(
    property="C42",
    level="exploration",
    technique="round trip server serializer -> client parser; complete enumeration of short item lists over a hostile byte alphabet + Hypothesis nested structures; a small RFC 3501 reader arbitrates which side is at fault",
    level_text="For every generated structure x (nested lists to depth 4 of byte strings over a hostile alphabet incl. quotes, backslashes, CR, LF, braces, brackets, parentheses, 'NIL', '{3}', empty and >1000-octet strings; None; integers) parseNestedParens(collapseNestedLists([x])) must equal [x] with integers as decimal text; no exception is acceptable; a second parse after the caller destroyed the first result must give the same; for part of the cases the serialization is also sent as an untagged response through a real IMAP4Client (generated segmentation; literals spooled to BytesIO, to a plain write/seek/read object returned by an overridden messageFile(), or to a real temporary file via a lowered _memoryFileLimit) and what the client hands to its unsolicited-response hook must be the same structure. All lists of <=2 items over 159 short items (every string of <=3 bytes over a 5-byte alphabet, None, an int, an empty list) are enumerated, plus each item nested.",
    level_note="Round-trip oracle needs no model. A 40-line RFC 3501 reader (quoted / literal / atom / list) is used only to name the faulty side when the round trip fails; it is trusted for classification, not for the verdict.",
    design_ref="§5 C42",
    rule="case = {x: nested list, wire?: {spool, cuts}}; items are bytes, None, int, list or ('rep', unit, n) standing for unit*n. non-trivial = some byte string needs quoting care (contains a quote, backslash, CR, LF, brace, parenthesis, bracket, space, is empty, is 'NIL', or is longer than 1000 octets). Distinct by the whole structure.",
)

HOSTILE_BYTES = b'"\\\r\n{}()[] '


def _build(x):
    if isinstance(x, tuple):
        assert x[0] == "rep"
        return x[1] * x[2]
    if isinstance(x, list):
        return [_build(i) for i in x]
    return x


def normalize(x):
    if isinstance(x, list):
        return [normalize(i) for i in x]
    if isinstance(x, bool):
        raise AssertionError("bool outside the domain")
    if isinstance(x, int):
        return str(x).encode("ascii")
    return x


def _strings(x):
    if isinstance(x, list):
        for i in x:
            yield from _strings(i)
    elif isinstance(x, bytes):
        yield x


def _depth(x):
    return 1 + max([_depth(i) for i in x if isinstance(i, list)] or [0])


def _subst(x, a, b):
    if isinstance(x, list):
        return [_subst(i, a, b) for i in x]
    if isinstance(x, bytes):
        return x.replace(a, b)
    return x


class _Bad(Exception):
    pass


def ref_parse(s):
    """Strict little RFC 3501 reader for what a server may emit here."""
    pos = 0
    stack = [[]]
    n = len(s)
    need_sep = False
    while pos < n:
        c = s[pos:pos + 1]
        if c == b" ":
            pos += 1
            need_sep = False
            continue
        if c == b")":
            if len(stack) < 2:
                raise _Bad("unbalanced )")
            done = stack.pop()
            stack[-1].append(done)
            pos += 1
            need_sep = True
            continue
        if need_sep:
            raise _Bad("missing separator")
        if c == b"(":
            stack.append([])
            pos += 1
            continue
        if c == b'"':
            pos += 1
            out = bytearray()
            while True:
                if pos >= n:
                    raise _Bad("unterminated quoted string")
                d = s[pos:pos + 1]
                if d == b"\\":
                    e = s[pos + 1:pos + 2]
                    if e not in (b"\\", b'"'):
                        raise _Bad("bad escape")
                    out += e
                    pos += 2
                elif d == b'"':
                    pos += 1
                    break
                else:
                    out += d
                    pos += 1
            stack[-1].append(bytes(out))
        elif c == b"{":
            end = s.find(b"}\r\n", pos)
            if end < 0 or not s[pos + 1:end].isdigit():
                raise _Bad("bad literal header")
            size = int(s[pos + 1:end])
            data = s[end + 3:end + 3 + size]
            if len(data) != size:
                raise _Bad("short literal")
            stack[-1].append(data)
            pos = end + 3 + size
        else:
            end = pos
            while end < n and s[end:end + 1] not in (b" ", b"(", b")", b'"', b"{"):
                end += 1
            atom = s[pos:end]
            stack[-1].append(None if atom == b"NIL" else atom)
            pos = end
        need_sep = True
    if len(stack) != 1:
        raise _Bad("unbalanced (")
    return stack[0]


def _roundtrip(x):
    """('ok', parsed) | ('exc', name, text); plus the serialization."""
    from twisted.mail import imap4
    ser = imap4.collapseNestedLists([x])
    try:
        got = imap4.parseNestedParens(ser)
    except (imap4.MismatchedQuoting, imap4.MismatchedNesting) as e:
        return ser, ("exc", type(e).__name__, str(e)[:200])
    return ser, ("ok", got)


def _wreck(v):
    if isinstance(v, list):
        for i in v:
            _wreck(i)
        del v[:]
        v.append(b"wrecked")


class _PlainFile:
    """What IMAP4Client.messageFile documents: 'any object which implements
    write(string) and seek(int, int)' (and read).  Not a BytesIO."""

    def __init__(self):
        self.buf = bytearray()
        self.pos = 0

    def write(self, data):
        self.buf[self.pos:self.pos + len(data)] = data
        self.pos += len(data)

    def seek(self, off, whence=0):
        self.pos = off if whence == 0 else (self.pos + off if whence == 1 else len(self.buf) + off)

    def tell(self):
        return self.pos

    def read(self, n=-1):
        out = bytes(self.buf[self.pos:] if n is None or n < 0 else self.buf[self.pos:self.pos + n])
        self.pos += len(out)
        return out

    def close(self):
        pass


def _literal_octets(x):
    return sum(len(s) for s in _strings(x) if b"\r" in s or b"\n" in s or len(s) > 1000)


def _run_wire(ctx, case, x, ser, want, wire):
    """The same serialization arriving at a real IMAP4Client as an untagged
    response, in generated segments; the client frames the literals (spooling
    them to the configured kind of file), runs its parser and hands the result
    to its unsolicited-response hook."""
    import os
    import tempfile
    from twisted.internet.testing import StringTransport
    from twisted.mail import imap4
    from lib.core import VERIF
    if len(ser) - _literal_octets(x) > 12000:
        ctx.count("wire: skipped (a response line would exceed the client's line limit)")
        return
    spool, cuts = wire["spool"], wire["cuts"]

    class Client(imap4.IMAP4Client):
        def __init__(self):
            imap4.IMAP4Client.__init__(self)
            self.h_info = []
            self.h_files = 0

        def _extraInfo(self, lines):
            self.h_info.append(lines)

        def messageFile(self, octets):
            self.h_files += 1
            if spool == "plainfile":
                return _PlainFile()
            return imap4.IMAP4Client.messageFile(self, octets)

    c = Client()
    if spool == "tempfile":
        c._memoryFileLimit = 0          # every literal is spooled to a real temporary file
    tr = StringTransport()
    saved = tempfile.tempdir
    work = os.path.join(VERIF, ".work")
    os.makedirs(work, exist_ok=True)
    tempfile.tempdir = work
    try:
        c.makeConnection(tr)
        c.dataReceived(b"* OK ready\r\n")
        stream = b"* XVERIF " + ser + b"\r\n"
        pos = k = 0
        while pos < len(stream):
            n = cuts[k % len(cuts)] if cuts else len(stream)
            k += 1
            c.dataReceived(stream[pos:pos + n])
            pos += n
    finally:
        tempfile.tempdir = saved
        c.connectionLost(None)
    ctx.count("wire: response fed through IMAP4Client (spool=%s)" % spool)
    if c.h_files:
        ctx.count("wire: response contains literals")
        if spool != "memory":
            ctx.count("wire: literal spooled to a non-BytesIO file")
    if cuts:
        ctx.count("wire: segmented delivery")
    expect = [[[b"XVERIF"] + want]]
    if c.h_info != expect:
        got = repr(c.h_info)[:500]
        ctx.violation("wire-client-reassembly-wrong", case,
                      f"x={x!r}"[:400] + f"; spool={spool} cuts={cuts!r}; client delivered {got}; "
                      f"expected {expect!r}"[:500] + f"; transport closed={tr.disconnecting}")


def run_case(ctx, case):
    x = _build(case["x"])
    assert isinstance(x, list)
    want = [normalize(x)]
    strs = list(_strings(x))
    hard = [s for s in strs if s == b"" or s == b"NIL" or len(s) > 1000 or any(c in HOSTILE_BYTES for c in s)]
    if hard:
        ctx.nontrivial(case["x"])
        ctx.count("nontrivial")
    ctx.count("depth=%d" % _depth(x))
    for label, pred in (("has backslash", lambda s: b"\\" in s), ("has quote", lambda s: b'"' in s),
                        ("has CR/LF (literal)", lambda s: b"\r" in s or b"\n" in s),
                        ("longer than 1000", lambda s: len(s) > 1000),
                        ("has paren/bracket/brace", lambda s: any(c in b"()[]{}" for c in s)),
                        ("is NIL-like or empty", lambda s: s in (b"", b"NIL", b"nil")),
                        ("ends with backslash", lambda s: s.endswith(b"\\"))):
        if any(pred(s) for s in strs):
            ctx.count("string " + label)

    ser, res = _roundtrip(x)
    if res == ("ok", want):
        # history: whatever a caller did to an earlier result must not show
        # in a later parse of the same serialization
        _wreck(res[1])
        ctx.count("parsed again after the first result was destroyed by its caller")
        _ser_b, again = _roundtrip(x)
        if again != ("ok", want):
            ctx.violation("parser-result-depends-on-earlier-callers", case,
                          f"x={x!r}"[:400] + f"; second parse of {ser[:200]!r} gave {again!r}"[:600])
        wire = case.get("wire")
        if wire is not None:
            _run_wire(ctx, case, x, ser, want, wire)
        if hard and len(ctx.samples) < 5 and len(ser) < 200:
            ctx.sample(case)
        return
    shown = f"x={x!r}"[:500]
    if res[0] == "exc":
        obs = f"{res[1]}: {res[2]}"
        kind = res[1]
    else:
        obs = f"parsed {res[1]!r}"[:500]
        kind = "wrong-structure"
    detail = f"{shown}; serialized {ser[:300]!r}; {obs}; expected {want!r}"[:1500]
    # who is at fault?  ask the independent reader about the serialization
    try:
        ser_ok = ref_parse(ser) == want
    except _Bad as e:
        ser_ok = False
        detail += f"; [an RFC 3501 reader rejects the serialization: {e}]"
    if not ser_ok:
        ctx.violation("serializer-output-wrong:" + kind, case, detail)
    # the serialization is right, the parser got it wrong.  Backslash-only?
    if any(b"\\" in s for s in strs):
        x2 = _subst(x, b"\\", b"\x01")
        _ser2, res2 = _roundtrip(x2)
        if res2 == ("ok", [normalize(x2)]):
            ctx.violation("parser-backslash-in-quoted-string:" + kind, case, detail)
    ctx.violation("parser-wrong:" + kind, case, detail)


# --------------------------------------------------------------------------

SMALL_ALPHA = [b'"', b"\\", b"a", b" ", b"("]


def _small_items():
    items = [None, 7, []]
    for n in range(0, 4):
        for t in itertools.product(SMALL_ALPHA, repeat=n):
            items.append(b"".join(t))
    return items


def _small_cases(part):
    items = _small_items()
    if part == 0:
        yield dict(x=[])
        for a in items:
            yield dict(x=[a])
            yield dict(x=[[a]])
            yield dict(x=[[[a]], a])
    for idx, a in enumerate(items):
        if idx % 16 != part:
            continue
        for b in items:
            yield dict(x=[a, b])


def _small_shard(sub, part):
    enumerate_run(sub, _small_cases(part), run_case, stop_after_violation=False)


PIECE = st.sampled_from([b'"', b"\\", b"\r", b"\n", b"\r\n", b"{", b"}", b"{3}", b"{3}\r\n", b"(", b")", b"[", b"]",
                         b" ", b"NIL", b"a", b"b", b"\x00", b"\xff", b"\t", b"%", b"*", b"\\\\", b'\\"', b"\x7f"])
CALM_PIECE = st.sampled_from([b'"', b"\r", b"\n", b"{", b"}", b"{3}", b"(", b")", b"[", b"]", b" ", b"NIL", b"a",
                              b"\x00", b"\xff", b'""', b"%"])


def _bytes_item(piece):
    return st.one_of(
        st.lists(piece, max_size=6).map(b"".join),
        st.sampled_from([b"", b"NIL", b"nil", b"()", b"{0}", b'"', b"\\", b'\\"', b"a\\", b'a"']),
        st.binary(max_size=12),
        st.tuples(st.just("rep"), st.lists(piece, min_size=1, max_size=3).map(b"".join),
                  st.sampled_from([334, 501, 1001])),
    )


def _structure(piece, binary_ok):
    leaf = st.one_of(
        _bytes_item(piece) if binary_ok else _bytes_item(piece).filter(
            lambda v: b"\\" not in (v[1] if isinstance(v, tuple) else v)),
        st.none(),
        st.integers(-10 ** 6, 10 ** 12),
        st.sampled_from([0, -1, 1000]),
    )
    few = st.lists(leaf, max_size=2)

    def nest(k):          # a list of depth exactly k (the top list counts as 1)
        if k == 1:
            return st.lists(leaf, max_size=4)
        inner = nest(k - 1)
        return st.builds(lambda pre, mid, post, more: pre + [mid] + post + more,
                         few, inner, few, st.lists(inner, max_size=1))
    return st.sampled_from([1, 2, 2, 3, 3, 4, 4]).flatmap(nest).map(lambda x: dict(x=x))


WIRE = st.one_of(
    st.none(),
    st.builds(lambda spool, cuts: dict(spool=spool, cuts=cuts),
              st.sampled_from(["memory", "plainfile", "plainfile", "tempfile"]),
              st.one_of(st.just([]), st.just([1]), st.lists(st.integers(1, 30), min_size=1, max_size=4))))


def _with_wire(structures):
    return st.builds(lambda c, w: dict(c, wire=w) if w is not None else c, structures, WIRE)


CASES = st.one_of(_structure(PIECE, True), _with_wire(_structure(CALM_PIECE, False)))

WIRE_ITEMS = [b"\r", b"\n", b"a\r\nb", b"\r\n", b"x", b"", None, 7, [], b'"', b"{1}", b"a b"]


def _small_wire_cases():
    """Every list of <=2 items over WIRE_ITEMS (half of them literals) through a
    real IMAP4Client: three kinds of literal spool file x whole / bytewise delivery."""
    shapes = [[]] + [[a] for a in WIRE_ITEMS] + [[a, b] for a in WIRE_ITEMS for b in WIRE_ITEMS]
    shapes += [[[a], b] for a in WIRE_ITEMS[:4] for b in WIRE_ITEMS[:6]]
    for x in shapes:
        for spool in ("memory", "plainfile", "tempfile"):
            for cuts in ([], [1]):
                yield dict(x=x, wire=dict(spool=spool, cuts=cuts))


def _hyp_shard(sub, i):
    hyp_run(sub, CASES, run_case, 8000, label=f"shard{i}")


def run(ctx):
    if ctx.thorough:
        ctx.shards(_small_shard, list(range(16)))
    else:
        for part in range(16):      # 25 759 cheap cases: a few seconds on one core
            _small_shard(ctx, part)
    enumerate_run(ctx, _small_wire_cases(), run_case, stop_after_violation=False)
    ctx.extra["exhaustive_small_scope"] = ("all lists of <=2 items over %d items: every byte string of <=3 bytes over %r, "
                                           "None, 7, []; wire path: all lists of <=2 items over %r x spool kinds x whole/bytewise delivery"
                                           % (len(_small_items()), SMALL_ALPHA, WIRE_ITEMS))
    ctx.exhaustive = False
    if ctx.has_violation():
        return
    if ctx.thorough:
        ctx.shards(_hyp_shard, list(range(16)))
    else:
        hyp_run(ctx, CASES, run_case, 2500, label="structures")
