"""C43 — IRCClient.msg/notice splitting within an octet limit; CTCP / low-level quoting round trip."""
import itertools

from hypothesis import strategies as st

from lib.core import hyp_run, enumerate_run

META = dict(
    property="C43",
    level="exploration",
    technique="complete enumeration of short texts x smallest limits + Hypothesis texts/limits; wire lines recorded per transport write and decoded with a reference CTCP low-level dequoter",
    level_text="IRCClient.msg / IRCClient.notice are called with generated text and an explicit length limit (minimum+1 .. 512) on a client attached to a recording transport; every write must be one line: at most `limit` octets including CRLF, no CR/LF inside, correct 'PRIVMSG|NOTICE target :' prefix; the message parts, low-level-dequoted by a reference reader and concatenated, must equal the text with whitespace removed. The same oracle is applied to a rate-limited client (lineRate set, irc.reactor replaced by a harness Clock): 1-4 messages separated by generated idle periods, optionally with the connection lost and the same client object connected again in between, judged per message at quiescence (messages of an earlier connection: an in-order prefix), lines in FIFO order (all schedules of 2-3 short messages with 0..5 ticks between them are enumerated). lowDequote(lowQuote(s)) and ctcpDequote(ctcpQuote(s)) (and their composition) must return s, and so must the CTCP framing that applies the quoting: ctcpExtract(ctcpStringify([(tag, s), ...])), plain, after low-level quoting and next to normal text. All texts of <=4 (thorough: <=5) characters over a 7-character alphabet (incl. CR) x the 3 smallest limits and all quoting inputs of <=4 characters over a 10-character alphabet are enumerated.",
    level_note="'Whitespace' in the content oracle is every character with str.isspace() (the most lenient reading of 'non-whitespace characters'); the reference dequoter follows the CTCP specification's low-level quoting table and is trusted. length=None (the estimated safe maximum) is not exercised: the statement speaks about a given limit. Lone surrogates are outside the domain (not encodable).",
    design_ref="§5 C43",
    rule="split case = {kind:'split', how:'msg'|'notice', user, text, limit}; non-trivial = the text needs more than one line, or contains a multi-byte / low-quoted character or a line break. queue case = {kind:'queue', rate, msgs:[{how, text, extra (limit = minimum+extra), idle (half ticks before sending), reconnect?, down? (half ticks disconnected)}]}; every queue case is non-trivial. quote case = {kind:'quote', s}; non-trivial = s contains a character either quoting level touches. Distinct by the whole case.",
)

M_QUOTE = "\x10"
LOW_TABLE = {"0": "\x00", "n": "\n", "r": "\r", M_QUOTE: M_QUOTE}


def ref_low_dequote(s):
    out = []
    i = 0
    while i < len(s):
        if s[i] == M_QUOTE:
            if i + 1 >= len(s):
                raise ValueError("dangling M-QUOTE")
            out.append(LOW_TABLE.get(s[i + 1], s[i + 1]))
            i += 2
        else:
            out.append(s[i])
            i += 1
    return "".join(out)


def _nows(s):
    return "".join(c for c in s if not c.isspace())


class _Recorder:
    """Minimal transport: one entry per write call."""
    disconnecting = False

    def __init__(self):
        self.writes = []

    def write(self, data):
        self.writes.append(bytes(data))

    def writeSequence(self, seq):
        self.writes.append(b"".join(seq))

    def loseConnection(self):
        self.disconnecting = True

    def getPeer(self):
        return None

    def getHost(self):
        return None


def _judge(ctx, case, fmt, text, limit, writes, pre, cut_short=False):
    """The statement's per-message oracle over the wire lines `writes` of ONE
    msg()/notice() call.  `pre` prefixes the signatures of the structural and
    content verdicts; the over-limit signatures are shared (same causes)."""
    # ---- each write is one well-formed line
    parts = []
    for n, w in enumerate(writes):
        where = f"line {n} of {len(writes)}: {w[:120]!r}"
        if not w.endswith(b"\r\n"):
            ctx.violation(pre + "-line-terminator", case, where)
        body = w[:-2]
        if b"\r" in body or b"\n" in body:
            ctx.violation(pre + "-line-contains-cr-or-lf", case, where)
        try:
            u = body.decode("utf-8")
        except UnicodeDecodeError:
            ctx.violation(pre + "-line-not-utf8", case, where)
        if not u.startswith(fmt):
            ctx.violation(pre + "-line-prefix", case, where + f" does not start with {fmt!r}")
        parts.append(ref_low_dequote(u[len(fmt):]))
    if any(c in p_ for p_ in parts for c in "\r\n"):
        ctx.count("split: CR/LF of the text sent inside a line (quoted)")
    # ---- content
    sent, whole = _nows("".join(parts)), _nows(text)
    if (not whole.startswith(sent)) if cut_short else (sent != whole):
        ctx.violation(pre + "-content-lost-or-reordered", case,
                      f"text {text[:200]!r} limit {limit}: parts {parts[:8]!r}"
                      + (" (connection lost later: a prefix was enough)" if cut_short else ""))
    # ---- limit, in octets, terminator included
    for n, w in enumerate(writes):
        if len(w) <= limit:
            continue
        n_oct = len(w)
        n_chr = len(w.decode("utf-8"))
        n_unq = len(fmt) + len(parts[n]) + 2
        detail = (f"limit {limit}: line {n} is {n_oct} octets ({n_chr} characters, {n_unq} before low-level "
                  f"quoting): {w[:100]!r}")
        if n_unq > limit:
            ctx.violation("split-line-over-limit:too-many-characters", case, detail)
        if len(parts[n]) < 2:
            # one single character that does not fit: nothing shorter could
            # have been sent, the limit cannot be met for this text
            ctx.count("split: limit unsatisfiable for a single character (not judged)")
            continue
        # CR and LF are whitespace for the splitter (break points / dropped), so
        # they normally never reach low-level quoting; if the excess is exactly
        # what quoted CR/LF add, that is a different cause than the two below
        k_crlf = sum(1 for c in parts[n] if c in "\r\n")
        if k_crlf and n_oct - k_crlf <= limit:
            ctx.violation("split-line-over-limit:cr-lf-sent-quoted-and-not-counted", case, detail)
        if n_oct > n_chr:
            ctx.violation("split-line-over-limit:counts-characters-not-octets", case, detail)
        ctx.violation("split-line-over-limit:low-quoting-expansion-not-counted", case, detail)


def _run_split(ctx, case):
    from twisted.words.protocols import irc
    how, user, text, limit = case["how"], case["user"], case["text"], case["limit"]
    assert not any(0xD800 <= ord(c) <= 0xDFFF for c in text), "lone surrogate outside the domain"
    cmd = "PRIVMSG" if how == "msg" else "NOTICE"
    fmt = f"{cmd} {user} :"
    minimum = len(fmt.encode("utf-8")) + 2
    assert limit > minimum, "limit outside the domain"

    client = irc.IRCClient()
    client.performLogin = 0
    tr = _Recorder()
    client.makeConnection(tr)
    del tr.writes[:]
    try:
        getattr(client, how)(user, text, limit)
    finally:
        client.connectionLost(None)
    writes = list(tr.writes)

    # ---- bookkeeping
    multibyte = any(ord(c) > 0x7F for c in text)
    lowq = any(c in "\x00\x10" for c in text)
    nt = len(writes) > 1 or multibyte or lowq or "\n" in text or "\r" in text
    if nt:
        ctx.nontrivial(case)
        ctx.count("split nontrivial")
    ctx.count("split: lines sent = %s" % (len(writes) if len(writes) < 4 else "4+"))
    if multibyte:
        ctx.count("split: multi-byte text")
    if lowq:
        ctx.count("split: NUL / M-QUOTE in text")
    if "\n" in text:
        ctx.count("split: LF in text")
    if "\r" in text:
        ctx.count("split: CR in text")
    if "\t" in text:
        ctx.count("split: TAB in text")
    width = limit - minimum
    if any(len(w) > width for w in text.split()):
        ctx.count("split: word longer than a line")
    ctx.count("split: how=" + how)
    if any(len(g) == width for g in text.split("\n")):
        ctx.count("split: a newline-delimited segment fits the width exactly")
        if any(len(g) == width and "\r" in g for g in text.split("\n")):
            ctx.count("split: exactly fitting segment contains CR")

    _judge(ctx, case, fmt, text, limit, writes, "split")
    if nt and len(writes) > 1 and len(ctx.samples) < 4:
        ctx.sample(case)


def _run_queue(ctx, case):
    """Rate-limited client (lineRate set): several messages separated by idle
    periods on a harness-owned clock, optionally with the connection lost and
    the same client object connected again in between; at quiescence every
    message sent on the last connection must have arrived completely and in
    order, earlier ones at least as an in-order prefix."""
    from twisted.internet import error, task
    from twisted.python.failure import Failure
    from twisted.words.protocols import irc
    rate, msgs = case["rate"], case["msgs"]
    assert rate > 0 and msgs
    clock = task.Clock()
    saved = irc.reactor
    irc.reactor = clock
    client = irc.IRCClient()
    client.performLogin = 0
    client.lineRate = rate
    wire = []       # (epoch, bytes) in the order written, over all connections
    stamps = []

    def connect(epoch):
        tr = _Recorder()

        def stamped(data):
            stamps.append(clock.seconds())
            wire.append((epoch, bytes(data)))
        tr.write = stamped
        client.makeConnection(tr)

    fmts, epochs = [], []
    epoch = 0
    try:
        connect(0)
        del wire[:]
        del stamps[:]
        total = 0
        for i, m in enumerate(msgs):
            for _h in range(m["idle"]):
                clock.advance(rate / 2.0)
            if m.get("reconnect") and i:
                armed = bool(stamps) and clock.seconds() - stamps[-1] < rate
                client.connectionLost(Failure(error.ConnectionLost()))
                for _h in range(m.get("down", 0)):
                    clock.advance(rate / 2.0)
                epoch += 1
                connect(epoch)
                ctx.count("queue: same client object connected again after a connection loss")
                if armed:
                    ctx.count("queue: connection lost while the drain timer was armed, then reconnected")
            cmd = "PRIVMSG" if m["how"] == "msg" else "NOTICE"
            fmt = f"{cmd} #q{i} :"
            fmts.append(fmt)
            epochs.append(epoch)
            limit = len(fmt) + 2 + m["extra"]
            if i and stamps:
                if clock.seconds() - stamps[-1] >= rate:
                    ctx.count("queue: message sent after the queue had drained and its timer gone idle")
                else:
                    ctx.count("queue: message sent while the drain timer was still armed")
            getattr(client, m["how"])(f"#q{i}", m["text"], limit)
            total += len(m["text"])
        quiet = 0
        for _t in range(total + 10):
            n0 = len(wire)
            clock.advance(rate)
            quiet = quiet + 1 if len(wire) == n0 else 0
            if quiet >= 3:
                break
    finally:
        irc.reactor = saved
        client.connectionLost(Failure(error.ConnectionDone()))
    ctx.nontrivial(case)
    ctx.count("queue nontrivial")
    ctx.count("queue: messages = %d" % len(msgs))
    # attribute lines to messages by their prefix; FIFO order across messages
    per = [[] for _m in msgs]
    last = 0
    for n, (_e, w) in enumerate(wire):
        owner = [i for i, f in enumerate(fmts) if w.startswith(f.encode("ascii"))]
        if not owner:
            ctx.violation("queued-line-prefix", case, f"line {n}: {w[:80]!r}")
        if owner[0] < last:
            ctx.violation("queued-lines-out-of-order", case,
                          f"line {n} belongs to message {owner[0]} after a line of message {last}")
        last = owner[0]
        per[owner[0]].append(w)
    for i, m in enumerate(msgs):
        _judge(ctx, case, fmts[i], m["text"], len(fmts[i]) + 2 + m["extra"], per[i], "queued",
               cut_short=epochs[i] != epoch)
    if len(msgs) > 1 and len(ctx.samples) < 5:
        ctx.sample(case)


def _run_quote(ctx, case):
    from twisted.words.protocols import irc
    s = case["s"]
    touched = any(c in "\x00\n\r\x10\\\x01" for c in s)
    if touched:
        ctx.nontrivial(case)
        ctx.count("quote nontrivial")
    if any(c in "\x00\n\r\x10" for c in s):
        ctx.count("quote: low-level specials")
    if any(c in "\\\x01" for c in s):
        ctx.count("quote: CTCP-level specials")
    lq = irc.lowQuote(s)
    if irc.lowDequote(lq) != s:
        ctx.violation("quote-roundtrip:low", case, f"{s!r} -> {lq!r} -> {irc.lowDequote(lq)!r}")
    if ref_low_dequote(lq) != s:
        ctx.violation("quote-low-output-means-something-else", case,
                      f"{s!r} -> {lq!r}, which the CTCP table reads as {ref_low_dequote(lq)!r}")
    cq = irc.ctcpQuote(s)
    if irc.ctcpDequote(cq) != s:
        ctx.violation("quote-roundtrip:ctcp", case, f"{s!r} -> {cq!r} -> {irc.ctcpDequote(cq)!r}")
    if s:
        # the CTCP framing that applies this quoting: stringify -> (wire) -> extract
        ctx.count("quote: CTCP message stringify -> extract")
        if "\x01" in s:
            ctx.count("quote: text with the CTCP delimiter through stringify -> extract")
        framed = irc.ctcpStringify([("VERIF", s), ("SECOND", s)])
        for label, arrived in (("plain", framed), ("low-quoted", irc.lowDequote(irc.lowQuote(framed))),
                               ("with-normal-text", "pre " + framed + " post")):
            ex = irc.ctcpExtract(arrived)
            want_normal = ["pre ", " post"] if label == "with-normal-text" else []
            if ex.get("extended") != [("VERIF", s), ("SECOND", s)] or ex.get("normal") != want_normal:
                ctx.violation("quote-roundtrip:ctcp-stringify-extract", case,
                              f"{label}: {s!r} -> {arrived!r} -> {ex!r}")
    both = irc.lowQuote(irc.ctcpQuote(s))
    back = irc.ctcpDequote(irc.lowDequote(both))
    if back != s:
        ctx.violation("quote-roundtrip:ctcp-inside-low", case, f"{s!r} -> {both!r} -> {back!r}")


def run_case(ctx, case):
    if case["kind"] == "split":
        _run_split(ctx, case)
    elif case["kind"] == "queue":
        _run_queue(ctx, case)
    else:
        _run_quote(ctx, case)


# --------------------------------------------------------------------------

SMALL_TEXT = ["a", " ", "\n", "\r", "\xe9", "-", "\x00"]
QUOTE_ALPHA = ["\x10", "\\", "\x01", "\x00", "\n", "\r", "n", "r", "0", "a"]


def _small_split_cases(arg):
    first, maxlen = arg
    user = "#c"
    minimum = len(f"PRIVMSG {user} :") + 2
    for n in range(0, maxlen + 1):
        for t in itertools.product(SMALL_TEXT, repeat=n):
            if n and t[0] != first:
                continue
            if not n and first != SMALL_TEXT[0]:
                continue
            text = "".join(t)
            for extra in (1, 2, 3):
                yield dict(kind="split", how="msg", user=user, text=text, limit=minimum + extra)


def _small_quote_cases():
    for n in range(0, 5):
        for t in itertools.product(QUOTE_ALPHA, repeat=n):
            yield dict(kind="quote", s="".join(t))


def _split_shard(sub, arg):
    enumerate_run(sub, _small_split_cases(arg), run_case, stop_after_violation=False)


ASCII_WORD = st.text(alphabet="abcdefghijklmnopqrstuvwxyzABC0123456789.,;:!?'\"()[]{}<>@#$%^&*_+=/\\|~`-",
                     min_size=1, max_size=12)
LONG_WORD = st.builds(lambda c, n: c * n, st.sampled_from(["x", "ab", "y-z", "w."]), st.integers(20, 300))
MB_WORD = st.text(alphabet=st.sampled_from(["\xe9", "€", "\U0001F600", "中", "\xdf", "a", "́"]),
                  min_size=1, max_size=40)
ANY_WORD = st.text(alphabet=st.characters(blacklist_categories=["Cs"]), min_size=1, max_size=10)
SPACE = st.sampled_from([" ", " ", "  ", "\n", "\n\n", "\r", "\r\n", "\t", "\x0b", "\x0c", " \n ", "\xa0", " "])
LOWQ = st.sampled_from(["\x00", "\x10", "\x10\x10", "a\x00b", "\x10n"])


def _text(tokens):
    return st.lists(tokens, max_size=14).map("".join)


USER = st.sampled_from(["#c", "#channel", "nick", "&local", "someone_else"])


@st.composite
def split_cases(draw):
    mode = draw(st.sampled_from(["calm", "calm", "multibyte", "any"]))
    if mode == "calm":
        text = draw(_text(st.one_of(ASCII_WORD, ASCII_WORD, LONG_WORD, SPACE.filter(lambda s: s.isascii()))))
    elif mode == "multibyte":
        text = draw(_text(st.one_of(ASCII_WORD, MB_WORD, MB_WORD, LONG_WORD, SPACE)))
    else:
        text = draw(_text(st.one_of(ASCII_WORD, MB_WORD, ANY_WORD, LONG_WORD, SPACE, LOWQ)))
    how = draw(st.sampled_from(["msg", "notice"]))
    user = draw(USER)
    minimum = len(f"{'PRIVMSG' if how == 'msg' else 'NOTICE'} {user} :") + 2
    limit = draw(st.one_of(st.integers(minimum + 1, minimum + 12), st.integers(minimum + 1, 512),
                           st.sampled_from([80, 255, 510, 511, 512])))
    segs = [g for g in text.split("\n") if g]
    if segs and draw(st.integers(0, 3)) == 0:
        # boundary class: some newline-delimited segment fits the width exactly (or nearly)
        g = draw(st.sampled_from(segs))
        limit = min(512, minimum + len(g) + draw(st.sampled_from([-1, 0, 0, 1, 2])))
    limit = max(limit, minimum + 1)
    return dict(kind="split", how=how, user=user, text=text, limit=limit)


QCHAR = st.one_of(st.sampled_from(QUOTE_ALPHA + ["\\a", "\x10n", "\x10\x10", "\\\\", " ", "\xe9"]),
                  st.characters(blacklist_categories=["Cs"]))
QUOTE_CASES = st.lists(QCHAR, max_size=20).map(lambda cs: dict(kind="quote", s="".join(cs)))


def _small_queue_cases():
    """Every schedule of 2 or 3 one-/three-line messages with 0..5 ticks
    (in half ticks) between them on a rate-limited client."""
    idles = [0, 1, 2, 3, 4, 6, 8, 10]
    texts = ["a", "a b c"]
    for n in (2, 3):
        for ts in itertools.product(texts, repeat=n):
            for gaps in itertools.product(idles, repeat=n - 1):
                base = [dict(how="msg" if k % 2 == 0 else "notice", text=t, extra=1,
                             idle=0 if k == 0 else gaps[k - 1]) for k, t in enumerate(ts)]
                yield dict(kind="queue", rate=1.0, msgs=base)
                # the same schedule with the connection lost and the client
                # connected again before the last message (0 or 3 half ticks down)
                for down in (0, 3):
                    again = [dict(m) for m in base]
                    again[-1].update(reconnect=True, down=down)
                    yield dict(kind="queue", rate=1.0, msgs=again)


QUEUE_TEXT = st.lists(st.one_of(ASCII_WORD, ASCII_WORD, st.sampled_from([" ", " ", "\n", "\t", "  "]),
                                st.builds(lambda c, n: c * n, st.sampled_from(["x", "ab"]), st.integers(5, 40))),
                      max_size=8).map("".join)
QUEUE_CASES = st.builds(
    lambda rate, msgs: dict(kind="queue", rate=rate, msgs=msgs),
    st.sampled_from([0.5, 1.0, 2.5]),
    st.lists(st.builds(lambda how, text, extra, idle, rc, down: dict(how=how, text=text, extra=extra, idle=idle,
                                                                     reconnect=rc, down=down),
                       st.sampled_from(["msg", "notice"]), QUEUE_TEXT,
                       st.sampled_from([1, 2, 3, 5, 10, 40, 400]), st.integers(0, 12),
                       st.sampled_from([False, False, False, True]), st.integers(0, 4)),
             min_size=1, max_size=4))


def _hyp_shard(sub, i):
    hyp_run(sub, split_cases(), run_case, 8000, label=f"split-{i}")
    hyp_run(sub, QUOTE_CASES, run_case, 3000, label=f"quote-{i}")
    hyp_run(sub, QUEUE_CASES, run_case, 3000, label=f"queue-{i}")


def run(ctx):
    maxlen = ctx.pick(4, 5)
    if ctx.thorough:
        ctx.shards(_split_shard, [(f, maxlen) for f in SMALL_TEXT])
    else:
        for first in SMALL_TEXT:
            _split_shard(ctx, (first, maxlen))
    enumerate_run(ctx, _small_quote_cases(), run_case, stop_after_violation=False)
    enumerate_run(ctx, _small_queue_cases(), run_case, stop_after_violation=False)
    ctx.extra["exhaustive_small_scope"] = ("split: all texts of <=%d characters over %r x limits minimum+1..minimum+3; "
                                           "quote: all strings of <=4 characters over %r" % (maxlen, SMALL_TEXT, QUOTE_ALPHA))
    ctx.exhaustive = False
    if ctx.has_violation():
        return
    if ctx.thorough:
        ctx.shards(_hyp_shard, list(range(16)))
    else:
        hyp_run(ctx, split_cases(), run_case, 3000, label="split")
        hyp_run(ctx, QUOTE_CASES, run_case, 2000, label="quote")
        hyp_run(ctx, QUEUE_CASES, run_case, 1000, label="queue")
