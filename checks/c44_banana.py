"""C44 -- banana: encode/decode round trip under any segmentation, with and without
the pb vocabulary; limits enforced when encoding and when decoding.

Two kinds of cases, both plain data:

  kind "rt"      a list of top-level expressions (nested lists of ints, floats,
                 byte strings; some deliberately over a limit).  Each is sent with
                 the real ``Banana.sendEncoded``; the model says which must be
                 refused (BananaError) and which must be accepted; the accepted
                 bytes are delivered to a second real Banana in generated
                 segments and must come out equal (tuples -> lists, floats
                 bit for bit, exact types).
  kind "stream"  a byte stream assembled from pieces by a reference encoder
                 written from docs/core/specifications/banana.rst (valid
                 elements, headers with arbitrary lengths, runs of prefix
                 digits, raw bytes, byte substitutions).  A reference scanner
                 (same spec, shares no code with banana.py) predicts the
                 expressions completed before the first *deciding byte* and
                 what that byte is: an oversized prefix, an oversized list
                 or string length (-> BananaError required), an unknown type
                 byte / vocabulary index (exception type not asserted), or the
                 end of the stream (nothing raised).  Delivery stops at the
                 deciding byte; non canonical but decodable elements (the
                 statement is silent on them) end the asserted part before
                 they start.
"""
import functools
import struct

from hypothesis import strategies as st

from lib.core import hyp_run, enumerate_run, dumps
from lib import harness

META = dict(
    property="C44",
    level="exploration",
    technique="Hypothesis structures/streams + boundary enumeration; real encoder -> real decoder round trip under generated segmentation; spec-derived reference encoder/scanner as oracle for limits and refusals",
    level_text="Random nested structures (depth up to 8) with boundary integers (2^31, 2^63, 2^(7*prefixLimit) +-1), NaN payloads/inf/-0.0/subnormals, pb vocabulary words, strings around SIZE_LIMIT, per-instance prefix limits 3..80 and (patched) small size limits are encoded by the real Banana, delivered whole / bytewise / at random cuts to a second real Banana and compared exactly. Generated and mutated byte streams are compared with a reference scanner written from the banana specification: expressions completed before the first oversized prefix / oversized length must be delivered and BananaError must be raised no earlier than the deciding byte and no later than the end of the stream. Sampled, not exhaustive.",
    level_note="Trusted: the reference encoder/scanner in this file (written from docs/core/specifications/banana.rst), struct for float bits. Some cases set the module constant banana.SIZE_LIMIT to a small value for the duration of the case so that list/string limits can be crossed cheaply; the real 640 KiB limit is exercised by a fixed set of boundary cases. A list of exactly SIZE_LIMIT elements is only encoded and its first bytes decoded (the decoder is quadratic in the number of elements). Exception type for unknown type bytes / vocabulary indices is not asserted (outside the statement).",
    design_ref="§5 C44",
    rule="case = (prefix limit, dialect, size limit, expressions or stream pieces, cuts). non-trivial = (round trip case delivered in >= 2 segments that has nesting depth >= 2 or a boundary integer or a special float or a vocabulary word under pb or a string/list at the size limit) or (a case in which an element is refused at encode) or (a stream whose deciding byte is an oversized prefix/length); distinct by canonical JSON of the case.",
)

LIST, INT, STRING, NEG, FLOAT, LONGINT, LONGNEG, VOCAB = range(0x80, 0x88)

# docs/core/specifications/banana.rst, "The pb profile"
VOCAB_WORDS = [
    b"None", b"class", b"dereference", b"reference", b"dictionary", b"function",
    b"instance", b"list", b"module", b"persistent", b"tuple", b"unpersistable",
    b"copy", b"cache", b"cached", b"remote", b"local", b"lcache", b"version",
    b"login", b"password", b"challenge", b"logged_in", b"not_logged_in",
    b"cachemessage", b"message", b"answer", b"error", b"decref", b"decache",
    b"uncache"]
VOCAB_ID = {w: i + 1 for i, w in enumerate(VOCAB_WORDS)}
VOCAB_BY_ID = {i + 1: w for i, w in enumerate(VOCAB_WORDS)}

REAL_SIZE_LIMIT = 640 * 1024


# --------------------------------------------------------------------------
# plain-data values  <->  python objects

@functools.lru_cache(maxsize=16)
def _repeat(pat, n):
    if n > 8192:
        pat = pat * (4096 // len(pat))
    return (pat * (n // len(pat) + 1))[:n]


def build(v, P, SL):
    """case value -> the python object handed to sendEncoded.

    Values are literal ints / bytes / lists / tuples, or small dicts that are
    resolved against the case's prefix limit P and size limit SL (so that the
    strategies do not depend on the limits):
      {"f": bits}                  float with exactly these 64 bits
      {"ib": [shift, delta, neg]}  +-((2^(7P) >> shift) + delta)
      {"im": x}                    x folded into the supported range
      {"s": [pattern, delta]}      byte string of length max(0, SL + delta)
      {"l": [elem, delta]}         list of max(0, SL + delta) copies of elem
    """
    if isinstance(v, dict):
        if "f" in v:
            return struct.unpack("!d", struct.pack("!Q", v["f"]))[0]
        if "ib" in v:
            shift, delta, neg = v["ib"]
            x = ((1 << (7 * P)) >> shift) + delta
            return -x if neg else x
        if "im" in v:
            x = v["im"]
            m = abs(x) % (1 << (7 * P))
            return -m if x < 0 else m
        if "s" in v:
            pat, delta = v["s"]
            return _repeat(pat or b"\0", max(0, SL + delta))
        if "l" in v:
            elem, delta = v["l"]
            return [build(elem, P, SL)] * max(0, SL + delta)
        raise ValueError(v)
    if isinstance(v, list):
        return [build(x, P, SL) for x in v]
    if isinstance(v, tuple):
        return tuple(build(x, P, SL) for x in v)
    return v



def normalize(o):
    if isinstance(o, (list, tuple)):
        return [normalize(x) for x in o]
    return o


def first_diff(a, b):
    """None if a and b are the same structure (exact types, floats bitwise),
    else a short class name for the first difference."""
    if isinstance(b, list):
        if type(a) is not list:
            return "structure"
        if len(a) != len(b):
            return "structure"
        for x, y in zip(a, b):
            d = first_diff(x, y)
            if d:
                return d
        return None
    if isinstance(b, float):
        if type(a) is not float or struct.pack("!d", a) != struct.pack("!d", b):
            return "float"
        return None
    if isinstance(b, bytes):
        if type(a) is not bytes or a != b:
            return "bytes"
        return None
    if type(a) is not int or a != b:
        return "int"
    return None


def over_limit(o, P, SL, dialect):
    """None, or which kind of element is outside the limits (first found)."""
    if isinstance(o, (list, tuple)):
        if len(o) > SL:
            return "list"
        seen = set()
        for x in o:
            if id(x) in seen:
                continue
            if isinstance(x, (list, tuple)):
                seen.add(id(x))
            k = over_limit(x, P, SL, dialect)
            if k:
                return k
        return None
    if isinstance(o, float):
        return None
    if isinstance(o, bytes):
        if dialect == "pb" and o in VOCAB_ID:
            return None
        return "bytes" if len(o) > SL else None
    return "int" if abs(o) > (1 << (7 * P)) - 1 else None


# --------------------------------------------------------------------------
# reference encoder / scanner (from the specification)

def b128(n):
    if n == 0:
        return b"\0"
    out = bytearray()
    while n:
        out.append(n & 0x7F)
        n >>= 7
    return bytes(out)


def ref_encode(o, dialect, out):
    if isinstance(o, (list, tuple)):
        out += b128(len(o))
        out.append(LIST)
        for x in o:
            ref_encode(x, dialect, out)
    elif isinstance(o, float):
        out.append(FLOAT)
        out += struct.pack("!d", o)
    elif isinstance(o, bytes):
        if dialect == "pb" and o in VOCAB_ID:
            out += b128(VOCAB_ID[o])
            out.append(VOCAB)
        else:
            out += b128(len(o))
            out.append(STRING)
            out += o
    else:
        if 0 <= o < 1 << 31:
            out += b128(o)
            out.append(INT)
        elif -(1 << 31) <= o < 0:
            out += b128(-o)
            out.append(NEG)
        elif o > 0:
            out += b128(o)
            out.append(LONGINT)
        else:
            out += b128(-o)
            out.append(LONGNEG)
    return out


def ref_scan(raw, P, SL, dialect):
    """-> dict(exprs, fault, at, end).

    fault: None (stream ends inside/after valid elements), "prefix",
    "listlen", "strlen" (BananaError required), "type", "vocab" (some
    refusal, type not asserted), "noncanonical" (assertions stop before the
    element: end = its first byte).  at = offset of the deciding byte.
    end = number of bytes of raw that the harness delivers."""
    exprs = []
    stack = []

    def emit(item):
        while True:
            if not stack:
                exprs.append(item)
                return
            stack[-1][1].append(item)
            if len(stack[-1][1]) < stack[-1][0]:
                return
            item = stack.pop()[1]

    pos = 0
    n_raw = len(raw)
    while pos < n_raw:
        j = pos
        while j < n_raw and raw[j] < 0x80:
            j += 1
            if j - pos > P:
                return dict(open=len(stack), tail=0, exprs=exprs, fault="prefix", at=j - 1, end=j)
        if j == n_raw:
            break
        digits = raw[pos:j]
        t = raw[j]
        n = 0
        for i, d in enumerate(digits):
            n |= d << (7 * i)
        canonical = len(digits) >= 1 and (len(digits) == 1 or digits[-1] != 0)
        nonc = dict(open=len(stack), tail=0, exprs=exprs, fault="noncanonical", at=pos, end=pos)
        if t == LIST:
            if n > SL:
                return dict(open=len(stack), tail=0, exprs=exprs, fault="listlen", at=j, end=j + 1)
            if not canonical:
                return nonc
            pos = j + 1
            if n == 0:
                emit([])
            else:
                stack.append((n, []))
        elif t == STRING:
            if n > SL:
                return dict(open=len(stack), tail=0, exprs=exprs, fault="strlen", at=j, end=j + 1)
            if not canonical:
                return nonc
            if n_raw - (j + 1) < n:
                break
            emit(bytes(raw[j + 1:j + 1 + n]))
            pos = j + 1 + n
        elif t == FLOAT:
            if len(digits):
                return nonc
            if n_raw - (j + 1) < 8:
                break
            emit(struct.unpack("!d", bytes(raw[j + 1:j + 9]))[0])
            pos = j + 9
        elif t in (INT, NEG, LONGINT, LONGNEG):
            ok = canonical and (
                (t == INT and n < 1 << 31) or (t == NEG and 1 <= n <= 1 << 31)
                or (t == LONGINT and n >= 1 << 31) or (t == LONGNEG and n > 1 << 31))
            if not ok:
                return nonc
            emit(n if t in (INT, LONGINT) else -n)
            pos = j + 1
        elif t == VOCAB:
            if dialect != "pb" or n not in VOCAB_BY_ID:
                return dict(open=len(stack), tail=0, exprs=exprs, fault="vocab", at=j, end=j + 1)
            if not canonical:
                return nonc
            emit(VOCAB_BY_ID[n])
            pos = j + 1
        else:
            return dict(open=len(stack), tail=0, exprs=exprs, fault="type", at=j, end=j + 1)
    return dict(open=len(stack), tail=n_raw - pos, exprs=exprs, fault=None, at=n_raw, end=n_raw)


def assemble(pieces, P, SL, dialect):
    """pieces -> bytes.  {"v": value} a valid element; {"cut": [value, k]} its first k (mod length) bytes; {"vm": [value, [[index, byte]..]]}
    a valid element with bytes substituted; {"raw": bytes}; {"hdr": [n, type]} prefix n
    + type byte; {"lhdr": [delta, type]} the same with n = SL + delta;
    {"digits": [delta, digit, type|None]} P + delta copies of a prefix digit (+ type)."""
    out = bytearray()
    for p in pieces:
        if "v" in p:
            ref_encode(build(p["v"], P, SL), dialect, out)
        elif "vm" in p:
            v, subs = p["vm"]
            b = ref_encode(build(v, P, SL), dialect, bytearray())
            for i, byte in subs:
                b[i % len(b)] = byte
            out += b
        elif "cut" in p:
            v, k = p["cut"]
            b = ref_encode(build(v, P, SL), dialect, bytearray())
            out += b[:k % len(b)]
        elif "raw" in p:
            out += p["raw"]
        elif "hdr" in p:
            n, t = p["hdr"]
            out += b128(n)
            out.append(t)
        elif "lhdr" in p:
            delta, t = p["lhdr"]
            out += b128(max(0, SL + delta))
            out.append(t)
        elif "digits" in p:
            delta, digit, t = p["digits"]
            out += bytes([digit & 0x7F]) * max(0, P + delta)
            if t is not None:
                out.append(t)
        else:
            raise ValueError(p)
    return bytes(out)



# --------------------------------------------------------------------------
# real protocol pair

class _Wire:
    disconnecting = False

    def __init__(self):
        self.data = bytearray()
        self.lost = False

    def write(self, b):
        self.data += b

    def take(self):
        b = bytes(self.data)
        del self.data[:]
        return b

    def loseConnection(self):
        self.lost = True


def connected_pair(banana, dialect, P, SL, case, ctx):
    """A real server and client Banana after the real dialect handshake."""
    d = dialect.encode()
    banana.SIZE_LIMIT = REAL_SIZE_LIMIT
    cls = type("VerifBanana", (banana.Banana,), {"knownDialects": [d]})
    server = banana.Banana(isClient=False)
    client = cls(isClient=True)
    sw, cw = _Wire(), _Wire()
    received = {"server": [], "client": []}
    server.expressionReceived = received["server"].append
    client.expressionReceived = received["client"].append
    server.makeConnection(sw)
    client.makeConnection(cw)
    client.dataReceived(sw.take())
    server.dataReceived(cw.take())
    ctx.check(server.currentDialect == d and client.currentDialect == d and not sw.lost and not cw.lost,
              "handshake-failed", case, f"server={server.currentDialect!r} client={client.currentDialect!r}")
    server.setPrefixLimit(P)
    client.setPrefixLimit(P)
    # the (possibly reduced) size limit applies after the handshake; run_case restores it
    banana.SIZE_LIMIT = SL
    return server, client, sw, cw, received


def segments(data, cuts):
    if cuts == "bytewise" and len(data) > 3000:
        step = max(1, len(data) // 11)
        cuts = list(range(step, len(data), step)) + [1, 2, len(data) - 1]
    return [s for s in harness.apply_cuts(data, cuts) if s]


def deliver(proto, segs, banana):
    """-> (index of the segment during which BananaError was raised or None, message)."""
    for i, s in enumerate(segs):
        try:
            proto.dataReceived(s)
        except banana.BananaError as e:
            return i, str(e)
    return None, ""


def depth_of(o):
    if isinstance(o, (list, tuple)):
        return 1 + max([depth_of(x) for x in o[:64]] or [0])
    return 0


def leaves(o, acc):
    if isinstance(o, (list, tuple)):
        for x in o[:64]:
            leaves(x, acc)
    else:
        acc.append(o)
    return acc


def _special_float(x):
    return x != x or x in (float("inf"), float("-inf")) or struct.pack("!d", x) == b"\x80" + b"\0" * 7


def run_case(ctx, case):
    from twisted.spread import banana
    if case["kind"] == "module":
        return _run_module(ctx, case, banana)
    P = case["limit"]
    dialect = case["dialect"]
    sl = case.get("size_limit")
    SL = REAL_SIZE_LIMIT if sl is None else sl
    saved = banana.SIZE_LIMIT
    if saved != REAL_SIZE_LIMIT:
        ctx.violation("size-limit-constant-changed", case, f"banana.SIZE_LIMIT is {saved}")
    try:
        if case["kind"] == "rt":
            _run_rt(ctx, case, banana, P, SL, dialect)
        else:
            _run_stream(ctx, case, banana, P, SL, dialect)
    finally:
        banana.SIZE_LIMIT = saved


def _run_rt(ctx, case, banana, P, SL, dialect):
    server, client, sw, cw, received = connected_pair(banana, dialect, P, SL, case, ctx)
    if case.get("dir") == "s2c":
        enc, wire, dec, got = server, sw, client, received["client"]
    else:
        enc, wire, dec, got = client, cw, server, received["server"]
    expected = []
    refused = 0
    interesting = False
    for v in case["exprs"]:
        obj = build(v, P, SL)
        why = over_limit(obj, P, SL, dialect)
        try:
            enc.sendEncoded(obj)
            err = None
        except banana.BananaError as e:
            err = str(e)
        if why is None:
            if err is not None:
                kind = ("int" if "int is too large" in err else
                        "bytes" if "byte string" in err else
                        "list" if "list/tuple" in err else "other")
                ctx.violation(f"encode-refused-in-limit-{kind}", case,
                              f"limit={P} SIZE_LIMIT={SL}: BananaError({err[:200]!r}) for a value within the limits")
            expected.append(normalize(obj))
        else:
            if err is None:
                ctx.violation(f"encode-accepted-over-limit-{why}", case,
                              f"limit={P} SIZE_LIMIT={SL}: an over-limit {why} was encoded without BananaError")
            refused += 1
            ctx.count(f"rt: refused at encode ({why})")
    stream = wire.take()
    trunc = case.get("truncate")
    if trunc is not None:
        # only for a single accepted expression cut strictly inside: nothing can be complete
        stream = stream[:trunc]
        expected = []
        ctx.count("rt: truncated big expression")
    segs = segments(stream, case["cuts"])
    at, msg = deliver(dec, segs, banana)
    if at is not None:
        # tell a segmentation problem from a plain decode problem
        sig = "roundtrip-refused-valid-stream"
        if len(segs) > 1 and _whole_ok(ctx, case, banana, dialect, P, SL, stream, expected):
            sig = "segmentation-refused-valid-stream"
        ctx.violation(sig, case, f"decoder raised BananaError({msg[:200]!r}) in segment {at} of {len(segs)} "
                                 f"for a stream produced by the encoder (limit={P} SIZE_LIMIT={SL})")
    d = first_diff(got, expected)
    if d:
        if len(got) != len(expected):
            d = "count"
        sig = f"roundtrip-mismatch-{d}"
        if len(segs) > 1 and _whole_ok(ctx, case, banana, dialect, P, SL, stream, expected):
            sig = f"segmentation-changes-result-{d}"
        ctx.violation(sig, case, f"limit={P} dialect={dialect} segments={len(segs)}: decoded "
                                 f"{_short(got)} expected {_short(expected)}")
    # bookkeeping
    ctx.count(f"rt: dialect={dialect}")
    ctx.count("rt: cuts=" + (case["cuts"] if isinstance(case["cuts"], str) else "list"))
    ctx.count("rt: segments>=2" if len(segs) >= 2 else "rt: segments<2")
    lv = []
    dmax = 0
    for e in expected:
        leaves(e, lv)
        dmax = max(dmax, depth_of(e))
    ctx.count(f"rt: depth={min(dmax, 7)}{'+' if dmax >= 7 else ''}")
    lim = (1 << (7 * P)) - 1
    for x in lv:
        if isinstance(x, float):
            if _special_float(x):
                ctx.count("rt: special float (nan/inf/-0.0)")
                interesting = True
        elif isinstance(x, bytes):
            if x in VOCAB_ID and dialect == "pb":
                ctx.count("rt: vocabulary word under pb")
                interesting = True
            elif x in VOCAB_ID:
                ctx.count("rt: vocabulary word under none")
            if len(x) >= SL - 1:
                ctx.count("rt: string at size limit")
                interesting = True
        else:
            a = abs(x)
            if a == lim:
                ctx.count("rt: int at +-(2^(7*limit)-1)")
                interesting = True
            elif a in ((1 << 31) - 1, 1 << 31, (1 << 31) + 1, (1 << 63) - 1, 1 << 63, (1 << 63) + 1):
                ctx.count("rt: int at 2^31/2^63 boundary")
                interesting = True
            if x > (1 << 31) - 1:
                ctx.count("rt: LONGINT")
            elif x < -(1 << 31):
                ctx.count("rt: LONGNEG")
    if any(isinstance(e, list) and len(e) >= SL for e in expected):
        interesting = True
        ctx.count("rt: list at size limit")
    if dmax >= 2:
        interesting = True
    if refused or (interesting and len(segs) >= 2):
        ctx.nontrivial(dumps(case))
        ctx.count("nontrivial")
        if len(dumps(case)) < 600:
            ctx.sample(case)


def _whole_ok(ctx, case, banana, dialect, P, SL, stream, expected):
    server, client, sw, cw, received = connected_pair(banana, dialect, P, SL, case, ctx)
    dec, got = (client, received["client"]) if case.get("dir") == "s2c" else (server, received["server"])
    try:
        dec.dataReceived(stream)
    except banana.BananaError:
        return False
    return first_diff(got, expected) is None


def _short(o):
    s = repr(o)
    return s if len(s) < 500 else s[:250] + " ... " + s[-200:]


def _run_module(ctx, case, banana):
    """The module level banana.encode / banana.decode (one shared decoder).

    ops: ["rt", value]: decode(encode(value)) must give the value back whatever
    earlier decode() calls were given; ["raw", pieces]: decode() of an
    arbitrary (truncated / trailing / refused) stream: its own result is
    asserted only where the reference scanner is definite, its purpose is to
    be the history of the following round trips."""
    P, SL, dialect = 64, REAL_SIZE_LIMIT, "none"
    shared = banana._i
    shared.buffer = b""
    del shared.listStack[:]
    state = dict(left_open=False, left_bytes=False)   # did an earlier decode() end with an open list / inside an item?
    rt_after_bytes = rt_after_open = 0

    def blame(kind):
        if state["left_open"]:
            return "module-decode-leaks-open-list"
        if state["left_bytes"]:
            return "module-decode-leaks-buffered-bytes"
        return "module-" + kind
    try:
        for idx, op in enumerate(case["ops"]):
            if op[0] == "raw":
                raw = assemble(op[1], P, SL, dialect)
                ref = ref_scan(raw, P, SL, dialect)
                data = raw[:ref["end"]]
                if not data:
                    continue
                got = None
                try:
                    got = [banana.decode(data)]
                    outcome = "value"
                except banana.BananaError:
                    outcome = "BananaError"
                except IndexError:
                    outcome = "IndexError"        # no complete expression in the input
                except (NotImplementedError, KeyError):
                    outcome = "invalid"
                fault = ref["fault"]
                if fault in ("prefix", "listlen", "strlen"):
                    if outcome != "BananaError":
                        ctx.violation(blame(f"decode-accepted-oversized-{fault}"), case,
                                      f"op {idx}: decode({data[:80].hex()}) -> {outcome}")
                elif fault in (None, "noncanonical"):
                    if ref["exprs"]:
                        d = "raised" if outcome != "value" else first_diff(got[0], ref["exprs"][0])
                        if d:
                            ctx.violation(blame(f"decode-first-expression-{d}"), case,
                                          f"op {idx}: decode({data[:80].hex()}) -> {outcome} "
                                          f"{_short(got) if outcome == 'value' else ''}, reference {_short(ref['exprs'][0])}")
                    elif outcome == "value":
                        ctx.violation(blame("decode-invented-expression"), case,
                                      f"op {idx}: decode({data[:80].hex()}) returned {_short(got)} but the input holds no complete expression")
                ctx.count(f"module: raw decode -> {outcome}")
                if ref["open"] > 0:
                    state["left_open"] = True
                elif ref["tail"] > 0 or (fault is not None and fault != "noncanonical"):
                    state["left_bytes"] = True
            else:
                obj = build(op[1], P, SL)
                why = over_limit(obj, P, SL, dialect)
                try:
                    enc = banana.encode(obj)
                except banana.BananaError as e:
                    if why is None:
                        ctx.violation("module-encode-refused-in-limit", case, f"op {idx}: {e}")
                    continue
                if why is not None:
                    ctx.violation(f"module-encode-accepted-over-limit-{why}", case, f"op {idx}")
                try:
                    got = banana.decode(enc)
                except (banana.BananaError, IndexError, NotImplementedError, KeyError) as e:
                    ctx.violation(blame("roundtrip-raised"), case,
                                  f"op {idx}: decode(encode({_short(obj)})) raised {type(e).__name__}({e}) after ops {_short(case['ops'][:idx])}")
                d = first_diff(got, normalize(obj))
                if d:
                    ctx.violation(blame(f"roundtrip-mismatch-{d}"), case,
                                  f"op {idx}: decode(encode({_short(obj)})) gave {_short(got)} after ops {_short(case['ops'][:idx])}")
                if state["left_open"]:
                    rt_after_open += 1
                elif state["left_bytes"]:
                    rt_after_bytes += 1
    finally:
        shared.buffer = b""
        del shared.listStack[:]
    if rt_after_bytes:
        ctx.count("module: round trip after a decode() that ended inside an item or was refused (no open list)")
    if rt_after_open:
        ctx.count("module: round trip after a decode() that left a list open")
    if rt_after_bytes or rt_after_open:
        ctx.nontrivial(dumps(case))
        ctx.count("nontrivial")
        if len(dumps(case)) < 500:
            ctx.sample(case)


def _run_stream(ctx, case, banana, P, SL, dialect):
    raw = assemble(case["pieces"], P, SL, dialect)
    ref = ref_scan(raw, P, SL, dialect)
    server, client, sw, cw, received = connected_pair(banana, dialect, P, SL, case, ctx)
    if case.get("dir") == "s2c":
        dec, got = client, received["client"]
    else:
        dec, got = server, received["server"]
    data = raw[:ref["end"]]
    segs = segments(data, case["cuts"])
    fault = ref["fault"]
    at = msg = other = None
    for i, s in enumerate(segs):
        try:
            dec.dataReceived(s)
        except banana.BananaError as e:
            at, msg = i, str(e)
            break
        except (NotImplementedError, KeyError) as e:
            if fault not in ("type", "vocab"):
                raise
            other = i
            break
    # segment that contains the deciding byte
    off = 0
    deciding_seg = None
    for i, s in enumerate(segs):
        if off <= ref["at"] < off + len(s):
            deciding_seg = i
        off += len(s)
    names = {"prefix": "oversized-prefix", "listlen": "oversized-list-length", "strlen": "oversized-string-length"}
    if fault in names:
        if at is None:
            ctx.violation(f"decode-accepted-{names[fault]}", case,
                          f"limit={P} SIZE_LIMIT={SL}: no BananaError for {names[fault]} at offset {ref['at']} "
                          f"of {data[max(0, ref['at'] - 70):ref['at'] + 1].hex()}")
        if at < deciding_seg:
            ctx.violation("decode-early-refusal", case,
                          f"BananaError({msg[:200]!r}) in segment {at}, before the deciding byte (segment {deciding_seg})")
    elif fault in ("type", "vocab"):
        if at is not None and at < deciding_seg or other is not None and other < deciding_seg:
            ctx.violation("decode-early-refusal", case, f"refused before the invalid byte (segment {deciding_seg})")
        ctx.count("stream: invalid type/vocab " + ("raised" if (at is not None or other is not None) else "not raised"))
    else:
        if at is not None:
            ctx.violation("decode-refused-valid-stream", case,
                          f"limit={P} SIZE_LIMIT={SL}: BananaError({msg[:200]!r}) in segment {at} for a stream of valid "
                          f"elements {data[:200].hex()}")
    d = first_diff(got, ref["exprs"])
    if d:
        if len(got) != len(ref["exprs"]):
            d = "count"
        ctx.violation(f"decode-expressions-mismatch-{d}", case,
                      f"limit={P} dialect={dialect} fault={fault}: delivered {_short(got)}, reference {_short(ref['exprs'])}")
    ctx.count(f"stream: deciding={fault}")
    ctx.count("stream: segments>=2" if len(segs) >= 2 else "stream: segments<2")
    if ref["exprs"]:
        ctx.count("stream: expressions completed before the deciding byte")
    if fault in names:
        if at == deciding_seg:
            ctx.count("stream: refused at the deciding byte")
        else:
            ctx.count("stream: refused after the deciding byte")
        ctx.nontrivial(dumps(case))
        ctx.count("nontrivial")
        if len(dumps(case)) < 500:
            ctx.sample(case)


# --------------------------------------------------------------------------
# generators

SPECIAL_FLOAT_BITS = [
    0x0000000000000000, 0x8000000000000000, 0x7FF0000000000000, 0xFFF0000000000000,
    0x7FF8000000000000, 0xFFF8000000000000, 0x7FF0000000000001, 0x7FF4000000000000,
    0x7FFFFFFFFFFFFFFF, 0xFFF0000000000001, 0x0000000000000001, 0x000FFFFFFFFFFFFF,
    0x0010000000000000, 0x7FEFFFFFFFFFFFFF, 0x3FF8000000000000, 0x3FF0000000000000,
    0x8000000000000001, 0x0080808080808080, 0x8180828384858687]

LIMITS = st.one_of(st.sampled_from([3, 4, 5, 9, 10, 64, 64, 64]), st.integers(3, 80))
CUTS = st.sampled_from(["whole", "bytewise", "bytewise", "bytewise"])
INT_POINTS = [0, 1, -1, 127, 128, -127, -128, 16383, 16384, (1 << 21) - 1, -(1 << 21) + 1]
INT_POINTS_31 = [(1 << 31) - 1, 1 << 31, (1 << 31) + 1, -(1 << 31) + 1, -(1 << 31), -(1 << 31) - 1]
INT_POINTS_63 = [(1 << 63) - 1, 1 << 63, (1 << 63) + 1, -(1 << 63) + 1, -(1 << 63), -(1 << 63) - 1]


def _strategies(small_sl, over):
    """Value strategy whose elements are literal or limit-relative (see build).
    small_sl: the case runs with a small patched SIZE_LIMIT (lists/strings at the
    limit are cheap); over: over-limit elements may appear."""
    ints = st.one_of(
        st.integers(-300, 300),
        st.sampled_from(INT_POINTS),
        # folded into the supported range; 2^31 / 2^63 points survive folding only if they fit
        st.sampled_from(INT_POINTS_31 + INT_POINTS_63).map(lambda x: {"im": x}),
        st.integers(-(1 << 33), 1 << 33).map(lambda x: {"im": x}),
        st.integers(-(1 << 560), 1 << 560).map(lambda x: {"im": x}),
        # around the largest supported magnitude 2^(7P)-1, its half and its 1/128
        st.tuples(st.sampled_from([0, 0, 1, 7]), st.integers(-3, -1), st.booleans()).map(lambda t: {"ib": list(t)}),
        st.tuples(st.sampled_from([1, 7]), st.integers(0, 2), st.booleans()).map(lambda t: {"ib": list(t)}),
    )
    over_ints = st.one_of(
        st.tuples(st.just(0), st.integers(0, 2), st.booleans()).map(lambda t: {"ib": list(t)}),
        st.tuples(st.sampled_from([1 << 7, 1 << 70, 3 << 500]), st.booleans()).map(lambda t: {"ib": [0, t[0], t[1]]}),
    )
    floats = st.one_of(
        st.sampled_from(SPECIAL_FLOAT_BITS),
        st.integers(0, (1 << 64) - 1),
        st.floats(allow_nan=False).map(lambda x: struct.unpack("!Q", struct.pack("!d", x))[0]),
    ).map(lambda bits: {"f": bits})
    byts = [st.binary(max_size=12), st.sampled_from(VOCAB_WORDS),
            st.sampled_from([b"none", b"NONE", b"lis", b"list ", b"", b"\x80", b"\x00\x81", b"\x7f\x7f\x7f"])]
    at_limit = st.tuples(st.binary(min_size=1, max_size=3), st.integers(-2, 0)).map(lambda t: {"s": list(t)})
    over_bytes = st.tuples(st.binary(min_size=1, max_size=3), st.integers(1, 3)).map(lambda t: {"s": list(t)})
    leaf_alts = [ints, ints, floats, st.one_of(byts)]
    if small_sl:
        leaf_alts.append(at_limit)
    if over:
        # (640 KiB strings only in big_top; here only where the size limit is small)
        leaf_alts.append(st.one_of(over_ints, over_ints, over_bytes) if small_sl else over_ints)
    leaf = st.one_of(leaf_alts)
    max_len = 3 if small_sl else 5

    def extend(c):
        alts = [st.lists(c, max_size=max_len), st.lists(c, max_size=max_len).map(tuple)]
        if small_sl:
            # lists of exactly SL-1 / SL (and, if over, SL+1..) simple elements
            alts.append(st.tuples(st.one_of(ints, st.just(b""), st.just([])), st.integers(-1, 2 if over else 0))
                        .map(lambda t: {"l": list(t)}))
        return st.one_of(alts)

    tree = st.recursive(leaf, extend, max_leaves=20)

    def nest(t):
        v, k = t
        for i in range(k):
            v = [v] if i % 2 == 0 else (v,)
        return v
    # the statement is about nested *lists*: the top level is always a list
    top = st.one_of(
        st.lists(tree, max_size=max_len),
        st.lists(tree, max_size=max_len).map(tuple),
        st.tuples(tree, st.integers(1, 7)).map(nest),          # deep chains
    )
    if small_sl:
        top = st.one_of(top, st.tuples(tree, st.integers(-1, 2 if over else 0)).map(lambda t: {"l": list(t)}))
    big_top = st.tuples(st.lists(leaf, max_size=2), at_limit if not over else st.one_of(at_limit, over_bytes),
                        st.lists(leaf, max_size=2)).map(lambda t: t[0] + [t[1]] + t[2])
    return dict(top=top, leaf=leaf, big_top=big_top)


_S = {(small, over): _strategies(small, over) for small in (False, True) for over in (False, True)}
_SIZE_LIMITS = st.one_of(st.none(), st.none(), st.integers(0, 12), st.integers(0, 40))


def _total_len(exprs, P, SL, dialect):
    total = 0
    for e in exprs:
        obj = build(e, P, SL)
        if over_limit(obj, P, SL, dialect) is None:
            total += len(ref_encode(obj, dialect, bytearray()))
    return total


@st.composite
def rt_cases(draw):
    P = draw(LIMITS)
    dialect = draw(st.sampled_from(["pb", "none"]))
    sl = draw(_SIZE_LIMITS)
    SL = REAL_SIZE_LIMIT if sl is None else sl
    over = draw(st.integers(0, 5)) == 0
    S = _S[(sl is not None, over)]
    if sl is None and draw(st.integers(0, 30)) == 0:
        exprs = [draw(S["big_top"])]        # a string at the real 640 KiB limit
    else:
        exprs = draw(st.lists(S["top"], min_size=1, max_size=3))
    total = _total_len(exprs, P, SL, dialect)
    cuts = draw(st.one_of(CUTS, st.lists(st.integers(1, max(1, total - 1)), min_size=1, max_size=6)))
    return dict(kind="rt", limit=P, dialect=dialect, size_limit=sl, exprs=exprs, cuts=cuts,
                dir=draw(st.sampled_from(["c2s", "s2c"])))


_TYPEBYTES = st.one_of(st.sampled_from([LIST, INT, STRING, NEG, FLOAT, LONGINT, LONGNEG, VOCAB]),
                       st.integers(0x80, 0xFF))
_RAW = st.binary(min_size=1, max_size=6).map(lambda b: {"raw": b})
_FAULTS = st.one_of(
    # more prefix digits than the limit, with any type byte or none at all
    st.tuples(st.integers(1, 3), st.sampled_from([0, 1, 0x7F, 0x55]), st.one_of(st.none(), _TYPEBYTES))
    .map(lambda t: {"digits": list(t)}),
    st.tuples(st.integers(1, 3), st.sampled_from([0, 1, 0x7F, 0x55]), st.one_of(st.none(), _TYPEBYTES))
    .map(lambda t: {"digits": list(t)}),
    # exactly the limit: legal
    st.tuples(st.just(0), st.sampled_from([1, 0x7F]), st.sampled_from([LONGINT, LONGNEG, None]))
    .map(lambda t: {"digits": list(t)}),
    # list / string length over, and at, the size limit
    st.tuples(st.integers(1, 3), st.sampled_from([LIST, STRING])).map(lambda t: {"lhdr": list(t)}),
    st.tuples(st.integers(1, 1 << 62), st.sampled_from([LIST, STRING])).map(lambda t: {"hdr": list(t)}),
    st.tuples(st.integers(-1, 0), st.sampled_from([LIST, STRING])).map(lambda t: {"lhdr": list(t)}),
    # unknown type byte, vocabulary indices
    st.tuples(st.integers(0, 300), st.integers(0x88, 0xFF)).map(lambda t: {"hdr": list(t)}),
    st.tuples(st.integers(0, 40), st.just(VOCAB)).map(lambda t: {"hdr": list(t)}),
    _RAW,
)


def _stream_pieces(S):
    valid = st.one_of(S["top"].map(lambda v: {"v": v}), S["leaf"].map(lambda v: {"v": v}))
    open_list = st.integers(1, 4).map(lambda n: {"hdr": [n, LIST]})
    mutated = st.tuples(S["top"], st.lists(st.tuples(st.integers(0, 400), st.integers(0, 255)).map(list),
                                           min_size=1, max_size=2)).map(lambda t: {"vm": [t[0], t[1]]})
    fault = st.one_of(_FAULTS, _FAULTS, _FAULTS, mutated)
    return st.tuples(st.lists(st.one_of(valid, valid, valid, open_list), max_size=4), fault,
                     st.lists(st.one_of(valid, _RAW, fault), max_size=2)).map(lambda t: t[0] + [t[1]] + t[2])


_PIECES = {small: _stream_pieces(_S[(small, False)]) for small in (False, True)}


def _module_cases():
    S = _S[(False, False)]
    So = _S[(False, True)]
    # mostly small values: the history matters here, deep structures are the rt kind's business
    small = st.lists(st.one_of(S["leaf"], st.lists(S["leaf"], max_size=2)), max_size=3)
    value = st.one_of(small, small, small, S["leaf"], S["top"], st.lists(So["leaf"], max_size=2))
    cut = st.tuples(value, st.integers(0, 60)).map(lambda t: {"cut": list(t)})
    scalar_cut = st.tuples(st.one_of(st.binary(min_size=2, max_size=9), st.integers(0, 1 << 40),
                                     st.integers(0, (1 << 64) - 1).map(lambda b: {"f": b})),
                           st.integers(1, 9)).map(lambda t: {"cut": list(t)})
    valid = value.map(lambda v: {"v": v})
    history = st.one_of(
        # whole expressions followed by the beginning of the next item
        st.tuples(st.lists(valid, max_size=2), st.one_of(scalar_cut, scalar_cut, cut)).map(lambda t: t[0] + [t[1]]),
        _PIECES[False],
    ).map(lambda p: ["raw", p])
    rt = value.map(lambda v: ["rt", v])
    return st.tuples(st.lists(st.one_of(history, rt), max_size=1), history, rt,
                     st.lists(st.one_of(history, rt, rt), max_size=2)).map(
        lambda t: dict(kind="module", ops=t[0] + [t[1], t[2]] + t[3]))


@st.composite
def stream_cases(draw):
    P = draw(LIMITS)
    dialect = draw(st.sampled_from(["pb", "none"]))
    sl = draw(st.one_of(st.none(), st.none(), st.integers(0, 40)))
    SL = REAL_SIZE_LIMIT if sl is None else sl
    pieces = draw(_PIECES[sl is not None])
    raw = assemble(pieces, P, SL, dialect)
    end = ref_scan(raw, P, SL, dialect)["end"]
    cuts = draw(st.one_of(CUTS, st.lists(st.integers(1, max(1, end - 1)), min_size=1, max_size=6)))
    return dict(kind="stream", limit=P, dialect=dialect, size_limit=sl, pieces=pieces, cuts=cuts,
                dir=draw(st.sampled_from(["c2s", "s2c"])))



# --------------------------------------------------------------------------
# fixed boundary cases (seed independent)

def boundary_cases(ctx):
    SL = REAL_SIZE_LIMIT
    for P in (3, 5, 9, 10, 64):
        lim = (1 << (7 * P)) - 1
        pts = [(1 << 31) - 1, 1 << 31, (1 << 31) + 1, (1 << 63) - 1, 1 << 63, lim - 1, lim, lim + 1, (lim + 1) << 7]
        vals = [s * x for x in pts for s in (1, -1)]
        for dialect in ("none", "pb"):
            for cuts in ("whole", "bytewise"):
                # each one alone (a refusal must not hide its neighbours) and all that fit together
                for v in vals:
                    yield dict(kind="rt", limit=P, dialect=dialect, size_limit=None, exprs=[[v, [v]]], cuts=cuts, dir="c2s")
                yield dict(kind="rt", limit=P, dialect=dialect, size_limit=None,
                           exprs=[[v for v in vals if abs(v) <= lim]], cuts=cuts, dir="s2c")
    # byte strings and lists at the real SIZE_LIMIT
    for d in (-1, 0, 1):
        n = SL + d
        for dialect in ("none", "pb"):
            yield dict(kind="rt", limit=64, dialect=dialect, size_limit=None,
                       exprs=[[1, {"s": [b"ab\x80", d]}, {"f": 0x7FF8000000000000}]],
                       cuts=[1, 2, 3, 4, 5, 6, 7, n // 2, n + 3, n + 4, n + 5], dir="c2s")
    for d in (0, 1):
        yield dict(kind="rt", limit=64, dialect="none", size_limit=None, exprs=[{"l": [7, d]}],
                   cuts=[1, 2, 3, 4, 5], truncate=200, dir="c2s")
        yield dict(kind="rt", limit=64, dialect="none", size_limit=None, exprs=[[{"l": [b"", d]}]],
                   cuts="whole", truncate=64, dir="s2c")
    # decoder limits at the real SIZE_LIMIT and prefix limits
    for n in (SL - 1, SL, SL + 1, SL + 2, 1 << 21, (1 << 21) - 1):
        for t in (LIST, STRING):
            for cuts in ("whole", "bytewise"):
                yield dict(kind="stream", limit=64, dialect="none", size_limit=None,
                           pieces=[{"v": [1]}, {"hdr": [2, LIST]}, {"hdr": [n, t]}, {"raw": b"\x01\x81\x01\x81"}],
                           cuts=cuts, dir="c2s")
    for P in (3, 10, 64):
        for delta in (-1, 0, 1, 2):
            for t in (None, LONGINT, LONGNEG, INT, LIST, STRING, FLOAT, VOCAB, 0x90):
                for digit in (1, 0x7F):
                    for cuts in ("whole", "bytewise", [P + delta + 3], [P + delta + 4], [P + delta + 5]):
                        yield dict(kind="stream", limit=P, dialect="pb", size_limit=None,
                                   pieces=[{"v": [b"x"]}, {"hdr": [1, LIST]}, {"digits": [delta, digit, t]}],
                                   cuts=cuts, dir="c2s")


def _hyp_shard(sub, i):
    n = sub.pick(0, 2500)
    hyp_run(sub, rt_cases(), run_case, n, label=f"rt-shard{i}")
    if not sub.has_violation():
        hyp_run(sub, stream_cases(), run_case, n, label=f"stream-shard{i}")
    if not sub.has_violation():
        hyp_run(sub, _module_cases(), run_case, n, label=f"module-shard{i}")


def run(ctx):
    enumerate_run(ctx, boundary_cases(ctx), run_case)
    if ctx.has_violation():
        return
    if ctx.thorough:
        ctx.shards(_hyp_shard, list(range(16)))
        return
    hyp_run(ctx, rt_cases(), run_case, 1200, label="rt")
    if ctx.has_violation():
        return
    hyp_run(ctx, stream_cases(), run_case, 1200, label="stream")
    if ctx.has_violation():
        return
    hyp_run(ctx, _module_cases(), run_case, 400, label="module")
