"""C45 -- jelly: the security policy is enforced when unjellying arbitrary
s-expressions, and jelly -> unjelly preserves graphs of allowed objects
(including shared and cyclic references).

Nothing dangerous can run here: the "forbidden" callables and classes are
stand-ins that live in throw-away modules (verif_c45_*) injected into
sys.modules; they only record that they were reached.  Names of real stdlib
callables (os.system, subprocess.Popen, builtins.eval, ...) appear in the
generated expressions too, but the unjellier can at most *resolve* them (no
generated policy allows their modules, and jelly never calls what it
resolves).

Two kinds of cases, both plain data:

  kind "sec"  {"policy": {...}, "expr": s-expression}
     The policy is built with the real SecurityOptions API.  The expression is
     generated from jelly's own tag grammar (each tag with its arity; a small
     share deliberately malformed) over names from: modules/classes the policy
     may allow, stand-in forbidden modules, an allowed module's attributes that
     alias forbidden things, a sibling module whose name has an allowed name
     as a prefix, an allowed package's *unloaded* submodule, real dangerous
     stdlib names, garbage.  Oracle (independent of SecurityOptions' own
     predicates; the harness derives the allowed sets from the policy data):
       * every name resolution jelly performs (namedAny / namedObject /
         __import__ as seen from jelly's namespace) is inside an allowed module;
       * every attribute looked up on a stand-in module, and every import of
         a not-yet-loaded tracked module, is inside an allowed module or on the
         way to one (parent package);
       * every class handed to _createBlank is an allowed class or a class
         registered as unjellyable;
       * no stand-in forbidden code ran;
       * if unjelly returns: every instance in the result graph has an allowed /
         registered / basic class, no real dangerous object is in it, and no
         evaluated node of a well-formed expression carried a type tag, module
         or class the policy does not allow.
     Any exception is an acceptable outcome (the statement: "either raises an
     error or ...").
  kind "rt"   {"policy": "secure"|"dummy", "graph": {"nodes": [...], "root": ref}}
     A graph of allowed objects (atoms of every jelly type, list/tuple/dict/
     set/frozenset, instances of an allowed class and of a registered
     Jellyable/Unjellyable class, bound methods, class/function/module
     references) with sharing and cycles; jelly() then unjelly() with the same
     policy must give an isomorphic graph: same types and values, and the
     same identity structure among mutable nodes.
"""
import datetime
import decimal
import struct
import sys
import types

from hypothesis import strategies as st

from lib.core import hyp_run, enumerate_run, dumps

META = dict(
    property="C45",
    level="exploration",
    technique="Hypothesis grammar-based s-expressions x generated SecurityOptions policies with name-resolution/import/instantiation instrumentation and recording stand-in modules; random shared/cyclic object graphs for the round trip",
    level_text="Arity-respecting expressions over all of jelly's tags (depth <= 5) are unjellied under policies built from the real SecurityOptions API (default, allowBasicTypes, allowTypes, allowModules, allowInstancesOf). Every name resolution, stand-in module attribute lookup, lazy import and blank instantiation during unjelly is checked against allowed sets derived by the harness from the policy data; returned graphs are walked. Round trip: random graphs (<= 10 nodes) with sharing and cycles through lists, dicts, sets, tuples, frozensets, instances and bound methods are compared up to isomorphism. Sampled, not exhaustive.",
    level_note="Trusted: the harness' model of which tags evaluate which children (written from jelly's documented s-expression forms), the wrappers installed in twisted.spread.jelly's namespace (namedAny, namedObject, __import__, _createBlank) and the recording module class. A resolution performed through some other route would only be seen if it touches a stand-in module, imports a tracked unloaded module or changes the result. Returning an object that an allowed module merely re-exports through the function tag is not asserted either way (DESIGN N).",
    design_ref="§5 C45",
    rule="sec case = (policy, expression); non-trivial = the expression names a module the policy does not allow under a tag the policy allows (in an evaluated position); distinct by canonical JSON. rt case = (policy, graph); non-trivial = the graph has a shared mutable node, a cycle, or two or more instances whose serialized state is a container built afresh by __getstate__/getStateFor; distinct by canonical JSON.",
)

# --------------------------------------------------------------------------
# environment: stand-in modules, recorder, lazy-import finder

A = "verif_c45_allowed"
AX = "verif_c45_allowedx"          # never allowed; its name has A as a prefix
F = "verif_c45_forbidden"
P = "verif_c45_pkg"
PUB = "verif_c45_pkg.pub"
HID = "verif_c45_pkg.hidden"       # not loaded until somebody imports it
U = "verif_c45_unloaded"           # not loaded until somebody imports it
STDLIB_UNLOADED = ["colorsys", "stringprep", "nturl2path"]

_SRC_A = '''
class Good:
    def meth(self):
        return "meth"
    def other(self):
        return 1
class Other:
    pass
def helper():
    return "helper"
const = 42
# instances whose serialized state is a container built afresh by every
# __getstate__ call (nothing else keeps it alive once it has been jellied)
class FreshDict:
    def __getstate__(self):
        return {k: v for k, v in self.__dict__.items()}
    def __setstate__(self, state):
        self.__dict__ = state if isinstance(state, dict) else {"_wrong_state": type(state).__name__}
class FreshNested:
    def __getstate__(self):
        return {"inner": {**self.__dict__}, "n": len(self.__dict__)}
    def __setstate__(self, state):
        inner = state.get("inner") if isinstance(state, dict) else None
        self.__dict__ = inner if isinstance(inner, dict) else {"_wrong_state": type(state).__name__}
def _pairs(self, state, kind):
    # (a state of the wrong shape is recorded, so that the comparison reports it)
    if type(state) is not kind or any(type(p) is not kind or len(p) != 2 for p in state):
        self.__dict__["_wrong_state"] = type(state).__name__
        return
    for k, v in state:
        self.__dict__[k] = v
class FreshList:
    def __getstate__(self):
        return [[k, v] for k, v in sorted(self.__dict__.items())]
    def __setstate__(self, state):
        _pairs(self, state, list)
class FreshTuple:
    def __getstate__(self):
        return tuple((k, v) for k, v in sorted(self.__dict__.items()))
    def __setstate__(self, state):
        _pairs(self, state, tuple)
'''
_SRC_DANGER = '''
calls = []
def danger(*a, **k):
    calls.append("danger()")
def run(*a, **k):
    calls.append("run()")
class Danger:
    def __new__(cls, *a, **k):
        calls.append(cls.__name__ + ".__new__")
        return object.__new__(cls)
    def __init__(self, *a, **k):
        calls.append("__init__")
    def __setstate__(self, state):
        calls.append("__setstate__")
    def go(self):
        calls.append("go()")
class Sub(Danger):
    pass
class Evil(Danger):
    pass
'''
_SRC_PUB = '''
class PubC:
    def meth(self):
        return 2
def pubf():
    return "pubf"
'''
_SRC_LAZY = '''
calls = []
calls.append("module body executed")
class HiddenC:
    pass
def hiddenf():
    return None
'''


class _Env:
    pass


_ENV = None


def env():
    """Create the stand-in modules once per process (idempotent)."""
    global _ENV
    if _ENV is not None:
        return _ENV
    import importlib.abc
    import importlib.machinery
    from twisted.spread import jelly
    e = _Env()
    e.events = []
    e.active = False

    class RecModule(types.ModuleType):
        def __getattribute__(self, name):
            if e.active and not (name.startswith("__") and name.endswith("__")):
                e.events.append(("attr", types.ModuleType.__getattribute__(self, "__name__"), name))
            return types.ModuleType.__getattribute__(self, name)

    def mk(name, src, package=False):
        m = RecModule(name)
        d = m.__dict__
        if package:
            d["__path__"] = []
            d["__package__"] = name
        exec(src, d)
        sys.modules[name] = m
        return m

    mods = {}
    mods[F] = mk(F, _SRC_DANGER)
    mods[AX] = mk(AX, _SRC_DANGER)
    mods[A] = mk(A, _SRC_A)
    mods[P] = mk(P, "", package=True)
    mods[PUB] = mk(PUB, _SRC_PUB)
    mods[P].__dict__["pub"] = mods[PUB]
    # attributes of allowed modules that alias disallowed things
    import os
    ad, fd = mods[A].__dict__, mods[F].__dict__
    ad["os"] = os
    ad["Danger"] = fd["Danger"]
    ad["danger"] = fd["danger"]
    ad["forbidden"] = mods[F]
    mods[PUB].__dict__["GoodAlias"] = ad["Good"]
    mods[PUB].__dict__["Danger"] = fd["Danger"]
    e.mods = mods
    e.lazy_loaded = {}

    class Finder(importlib.abc.MetaPathFinder, importlib.abc.Loader):
        def find_spec(self, fullname, path=None, target=None):
            if fullname in (HID, U):
                return importlib.machinery.ModuleSpec(fullname, self)
            return None

        def create_module(self, spec):
            return RecModule(spec.name)

        def exec_module(self, module):
            name = types.ModuleType.__getattribute__(module, "__name__")
            if e.active:
                e.events.append(("import", name))
            exec(_SRC_LAZY, module.__dict__)
            e.lazy_loaded[name] = module

    sys.meta_path.insert(0, Finder())

    # a Jellyable/Unjellyable class registered under a dotted and under a plain tag
    class Reg(jelly.Jellyable, jelly.Unjellyable):
        pass
    Reg.__module__ = "verif_c45_reg"
    Reg.__qualname__ = "Reg"
    regmod = types.ModuleType("verif_c45_reg")
    regmod.Reg = Reg
    sys.modules["verif_c45_reg"] = regmod
    jelly.setUnjellyableForClass(b"verif_c45_reg.Reg", Reg)
    jelly.setUnjellyableForClass(b"verifreg", Reg)
    e.Reg = Reg

    class RegFresh(jelly.Jellyable, jelly.Unjellyable):
        def getStateFor(self, jellier):
            return {**self.__dict__}
    RegFresh.__module__ = "verif_c45_reg"
    RegFresh.__qualname__ = "RegFresh"
    regmod.RegFresh = RegFresh
    jelly.setUnjellyableForClass(b"verif_c45_reg.RegFresh", RegFresh)
    e.RegFresh = RegFresh

    import builtins
    import pickle
    import shutil
    import socket
    import subprocess
    e.real_dangerous = [os.system, os.popen, subprocess.Popen, subprocess.call, builtins.eval, builtins.exec,
                        builtins.__import__, shutil.rmtree, pickle.loads, socket.socket, subprocess, shutil,
                        pickle, socket, builtins]
    for n in STDLIB_UNLOADED:
        sys.modules.pop(n, None)
    # the harness' own table: dotted name -> object, built without reflect
    table = {}
    for mn, m in mods.items():
        for k, v in m.__dict__.items():
            if not k.startswith("__"):
                table[mn + "." + k] = v
    table["verif_c45_reg.Reg"] = Reg
    e.table = table
    e.classes = {A + ".Good": ad["Good"], PUB + ".PubC": mods[PUB].__dict__["PubC"]}
    _ENV = e
    return e


def reset_lazy(e):
    """Forget lazily imported tracked modules so that every case starts equal."""
    loaded = []
    for n in (HID, U):
        if sys.modules.pop(n, None) is not None:
            loaded.append(n)
    e.mods[P].__dict__.pop("hidden", None)
    for n in STDLIB_UNLOADED:
        if sys.modules.pop(n, None) is not None:
            loaded.append(n)
    e.lazy_loaded.clear()
    return loaded


# --------------------------------------------------------------------------
# policy: plain data -> real SecurityOptions + the harness' own allowed sets

DEFAULT_TYPES = [b"None", b"bool", b"boolean", b"string", b"str", b"int", b"float", b"datetime", b"time",
                 b"date", b"timedelta", b"NoneType", b"unicode", b"decimal", b"set", b"frozenset"]
BASIC_TYPES = [b"dictionary", b"list", b"tuple", b"reference", b"dereference", b"unpersistable", b"persistent",
               b"long_int", b"long", b"dict"]


def build_policy(e, pol):
    from twisted.spread import jelly
    so = jelly.SecurityOptions()
    tset = set(DEFAULT_TYPES)
    mset = set()
    cset = []
    if pol["basic"]:
        so.allowBasicTypes()
        tset |= set(BASIC_TYPES)
    if pol["types"]:
        so.allowTypes(*pol["types"])
        tset |= {t.encode() if isinstance(t, str) else t for t in pol["types"]}
    if pol["modules"]:
        so.allowModules(*pol["modules"])
        mset |= set(pol["modules"])
    if pol["instances_of"]:
        so.allowInstancesOf(*[e.classes[n] for n in pol["instances_of"]])
        tset |= set(BASIC_TYPES) | {b"instance", b"class", b"classobj", b"module"}
        for n in pol["instances_of"]:
            tset.add(n.encode())
            mset.add(n.rpartition(".")[0])
            cset.append(e.classes[n])
    return so, tset, mset, cset


def module_ok(name, mset):
    return name in mset


def on_the_way(name, mset):
    """name is an allowed module or a parent package of one."""
    return name in mset or any(m.startswith(name + ".") for m in mset)


# --------------------------------------------------------------------------
# the model of which positions jelly evaluates (for well-formed expressions)

SEQ_TAGS = (b"list", b"tuple", b"set", b"frozenset")
ATOM_TAGS = {b"None": 0, b"boolean": 1, b"unicode": 1, b"decimal": 2, b"datetime": 1, b"date": 1, b"time": 1,
             b"timedelta": 1, b"persistent": 1, b"unpersistable": 1, b"dereference": 1}
REGISTERED = (b"verif_c45_reg.Reg", b"verifreg")


def _text(b):
    if isinstance(b, bytes):
        try:
            return b.decode("ascii")
        except UnicodeDecodeError:
            return None
    return b if isinstance(b, str) else None


def scan(expr, req):
    """Walk a well-formed expression the way the unjellier evaluates it.
    Appends ("type", tag) / ("module", name) / ("class", dotted) requirements
    to req.  Returns False if the expression is not well-formed (then no
    must-refuse claim is made)."""
    if type(expr) is not list:
        return isinstance(expr, (bytes, int, float, str)) and not isinstance(expr, bool)
    if not expr or not isinstance(expr[0], bytes):
        return False
    tag, rest = expr[0], expr[1:]
    req.append(("type", tag))
    if tag in REGISTERED:
        return len(rest) == 1 and scan(rest[0], req)
    if tag in SEQ_TAGS:
        return all([scan(x, req) for x in rest])
    if tag == b"dictionary":
        ok = True
        for kv in rest:
            if type(kv) is not list or len(kv) != 2:
                return False
            ok = scan(kv[0], req) and scan(kv[1], req) and ok
        return ok
    if tag == b"reference":
        return len(rest) == 2 and isinstance(rest[0], int) and scan(rest[1], req)
    if tag in ATOM_TAGS:
        return len(rest) == ATOM_TAGS[tag] and all(type(x) is not list for x in rest)
    if tag in (b"module", b"class", b"function"):
        if len(rest) != 1 or _text(rest[0]) is None:
            return False
        name = _text(rest[0])
        if tag == b"module":
            req.append(("module", name))
        else:
            req.append(("module", name.rpartition(".")[0]))
            if tag == b"class":
                req.append(("class", name))
        return True
    if tag == b"method":
        return len(rest) == 3 and type(rest[0]) is not list and scan(rest[1], req) and scan(rest[2], req)
    if tag == b"instance":
        return len(rest) == 2 and scan(rest[0], req) and scan(rest[1], req)
    name = _text(tag)
    if name is None:
        return False
    # any other tag: a dotted class name (or an unknown plain tag, which names the module "")
    req.append(("module", name.rpartition(".")[0]))
    req.append(("class", name))
    if len(rest) != 1:
        return False
    return scan(rest[0], req)


# --------------------------------------------------------------------------
# result walk

def basic_types():
    from twisted.persisted import crefutil
    from twisted.spread import jelly
    return (type(None), bool, int, float, bytes, str, decimal.Decimal, datetime.datetime, datetime.date,
            datetime.time, datetime.timedelta, jelly.Unpersistable, crefutil.NotKnown, crefutil._DictKeyAndValue,
            types.ModuleType, type, types.FunctionType, types.BuiltinFunctionType)


def walk_result(root, visit):
    seen = set()
    stack = [root]
    n = 0
    while stack and n < 5000:
        o = stack.pop()
        if id(o) in seen:
            continue
        seen.add(id(o))
        n += 1
        visit(o)
        if isinstance(o, (list, tuple, set, frozenset)):
            stack.extend(o)
        elif isinstance(o, dict):
            stack.extend(o.keys())
            stack.extend(o.values())
        elif isinstance(o, types.MethodType):
            stack.append(o.__self__)
        elif isinstance(o, (types.ModuleType, type, types.FunctionType, types.BuiltinFunctionType)):
            pass
        else:
            d = getattr(o, "__dict__", None)
            if isinstance(d, dict):
                stack.extend(d.values())


# --------------------------------------------------------------------------

def run_case(ctx, case):
    if case["kind"] == "sec":
        _run_sec(ctx, case)
    else:
        _run_rt(ctx, case)


def _run_sec(ctx, case):
    from twisted.spread import jelly
    e = env()
    pol = case["policy"]
    expr = case["expr"]
    so, tset, mset, cset = build_policy(e, pol)
    allowed_classes = list(cset) + [e.Reg]
    reset_lazy(e)
    fcalls = e.mods[F].__dict__["calls"]
    xcalls = e.mods[AX].__dict__["calls"]
    del fcalls[:], xcalls[:]
    del e.events[:]
    named = []
    blanks = []
    # wrap whichever resolvers jelly's namespace has (the set of imported helpers may change)
    jd = jelly.__dict__
    orig = {n: jd[n] for n in ("namedAny", "namedObject", "namedModule", "namedClass", "_createBlank") if n in jd}
    had_import = "__import__" in jd

    def resolver(fn_name):
        def w(name):
            named.append((fn_name, name))
            return orig[fn_name](name)
        return w

    def w_import(name, *a, **k):
        named.append(("__import__", name))
        return __import__(name, *a, **k)

    def w_createBlank(cls):
        if isinstance(cls, type):
            blanks.append(cls)
        return orig["_createBlank"](cls)

    for n in orig:
        jd[n] = w_createBlank if n == "_createBlank" else resolver(n)
    jelly.__dict__["__import__"] = w_import
    e.active = True
    outcome = None
    result = None
    try:
        try:
            result = jelly.unjelly(expr, so)
            outcome = "returned"
        except jelly.InsecureJelly:
            outcome = "InsecureJelly"
        except Exception as exc:  # the statement allows any error as the outcome of unjellying
            outcome = "error:" + type(exc).__name__
    finally:
        e.active = False
        jd.update(orig)
        if not had_import:
            del jd["__import__"]
    lazily = reset_lazy(e)

    # ---- oracle 1: names resolved by jelly
    for fn, name in named:
        if not isinstance(name, str):
            continue
        modpart = name if fn in ("__import__", "namedModule") else name.rpartition(".")[0]
        # (resolving an allowed module itself, or a parent package of one, is fine too)
        if not (module_ok(modpart, mset) or on_the_way(name, mset)):
            via = _via(expr, name)
            ctx.violation(f"resolved-name-in-disallowed-module-{via}", case,
                          f"{fn}({name!r}) although module {modpart!r} is not allowed (allowed modules: {sorted(mset)}); outcome {outcome}")
    # ---- oracle 2: stand-in modules touched, tracked modules imported
    for ev in e.events:
        if ev[0] == "attr":
            _, mn, attr = ev
            if not (module_ok(mn, mset) or on_the_way(mn + "." + attr, mset)):
                ctx.violation("attribute-looked-up-in-disallowed-module", case,
                              f"getattr({mn}, {attr!r}) during unjelly; allowed modules {sorted(mset)}; outcome {outcome}")
        else:
            if not on_the_way(ev[1], mset):
                via = _via(expr, ev[1])
                ctx.violation(f"imported-disallowed-module-{via}", case,
                              f"module {ev[1]!r} was imported (its body ran) during unjelly; allowed modules {sorted(mset)}; outcome {outcome}")
    for n in lazily:
        if not on_the_way(n, mset):
            ctx.violation(f"imported-disallowed-module-{_via(expr, n)}", case,
                          f"module {n!r} was imported during unjelly; allowed modules {sorted(mset)}")
    # ---- oracle 3: instantiation
    for cls in blanks:
        if not any(cls is c for c in allowed_classes):
            ctx.violation("instantiated-class-not-allowed-" + _via_instance(expr, cls, e), case,
                          f"_createBlank({cls.__module__}.{cls.__qualname__}) although the policy allows instances of "
                          f"{pol['instances_of']} only; outcome {outcome}")
    if fcalls or xcalls:
        ctx.violation("forbidden-code-executed", case, f"stand-in forbidden code ran: {fcalls + xcalls}")
    # ---- oracle 4: the returned graph / must-refuse model
    req = []
    wellformed = scan(expr, req)
    disallowed_named = False
    must_refuse = None
    for r in req:
        if r[0] == "type":
            ok = r[1] in tset or b"." in r[1]
            if not ok and must_refuse is None:
                must_refuse = f"type tag {r[1]!r} is not allowed"
        elif r[0] == "module":
            if r[1] not in mset:
                disallowed_named = True
                if must_refuse is None:
                    must_refuse = f"module {r[1]!r} is not allowed"
        else:
            obj = e.table.get(r[1])
            known_module = r[1].rpartition(".")[0] in e.mods or r[1] in e.table
            if known_module and not any(obj is c for c in cset) and must_refuse is None:
                must_refuse = f"class {r[1]!r} is not an allowed class"
    if outcome == "returned":
        bt = basic_types()

        def visit(o):
            if any(o is d for d in e.real_dangerous):
                ctx.violation("returned-real-dangerous-object", case, f"result contains {o!r}")
            if isinstance(o, bt) or type(o) in (list, tuple, dict, set, frozenset, types.MethodType):
                return
            if not any(type(o) is c for c in allowed_classes):
                ctx.violation("returned-instance-of-class-not-allowed-" + _via_instance(expr, type(o), e), case,
                              f"result contains an instance of {type(o).__module__}.{type(o).__qualname__}; "
                              f"policy allows instances of {pol['instances_of']}")
        walk_result(result, visit)
        if wellformed and must_refuse:
            kind = must_refuse.split()[0]
            ctx.violation(f"returned-despite-disallowed-{kind}", case,
                          f"unjelly returned {_short(result)} although {must_refuse} (policy {pol})")
    # ---- bookkeeping
    ctx.count("sec: outcome=" + (outcome if not outcome.startswith("error:") else "other error"))
    if outcome.startswith("error:"):
        ctx.count("sec: " + outcome)
    ctx.count("sec: well-formed" if wellformed else "sec: malformed")
    if wellformed and P in mset and HID not in mset and any(
            r[0] in ("module", "class") and (r[1] == HID or r[1].startswith(HID + ".")) for r in req):
        ctx.count("sec: names the not yet imported submodule of an allowed package (itself not allowed)")
    if named:
        ctx.count("sec: some name resolved (allowed)")
    if blanks:
        ctx.count("sec: allowed class instantiated")
    if lazily:
        ctx.count("sec: allowed unloaded module imported")
    if wellformed and outcome == "returned" and any(r[0] == "module" for r in req):
        ctx.count("sec: returned with module/class/function names inside")
    nt = False
    if wellformed and disallowed_named:
        # names a disallowed module; is the tag that names it allowed?
        nt = _names_disallowed_under_allowed_tag(expr, tset, mset)
    if nt:
        ctx.nontrivial(dumps(case))
        ctx.count("nontrivial (disallowed module under an allowed tag)")
        if len(dumps(case)) < 500:
            ctx.sample(case)


def _names_disallowed_under_allowed_tag(expr, tset, mset):
    """First-level model: some node whose tag the policy allows names a
    module that the policy does not allow, and all its ancestors' tags are allowed."""
    if type(expr) is not list or not expr or not isinstance(expr[0], bytes):
        return False
    tag = expr[0]
    if not (tag in tset or b"." in tag):
        return False
    req = []
    if tag in (b"module", b"class", b"function"):
        scan(expr, req)
        return any(r[0] == "module" and r[1] not in mset for r in req)
    if tag not in SEQ_TAGS and tag not in ATOM_TAGS and tag not in REGISTERED and tag not in (
            b"dictionary", b"reference", b"method", b"instance"):
        name = _text(tag)
        if name is not None and name.rpartition(".")[0] not in mset:
            return True
    for x in expr[1:]:
        if type(x) is list:
            if tag == b"dictionary":
                if any(_names_disallowed_under_allowed_tag(y, tset, mset) for y in x):
                    return True
            elif _names_disallowed_under_allowed_tag(x, tset, mset):
                return True
    return False


def _find_nodes(expr, out):
    if type(expr) is list:
        if expr and isinstance(expr[0], bytes):
            out.append(expr)
        for x in expr:
            _find_nodes(x, out)
    return out


def _via(expr, name):
    """Which tag carried this name (for a narrow, stable signature)."""
    tags = set()
    for node in _find_nodes(expr, []):
        tag = node[0]
        if tag in (b"module", b"class", b"function") and len(node) > 1 and _text(node[1]) is not None:
            t = _text(node[1])
            if t == name or t.startswith(name + "."):
                tags.add(tag.decode() + "-tag")
        elif b"." in tag and _text(tag) is not None and (_text(tag) == name or _text(tag).startswith(name + ".")):
            tags.add("dotted-class-tag")
    for r in ("function-tag", "class-tag", "dotted-class-tag", "module-tag"):
        if r in tags:
            return r
    return "unknown-route"


def _names(e, name, cls):
    """name denotes cls (by the harness' table, or by its own qualified name
    for classes of lazily imported modules)."""
    return e.table.get(name) is cls or name == f"{cls.__module__}.{cls.__qualname__}"


def _via_instance(expr, cls, e):
    """How did this class reach instantiation?  Looks for the nodes of the
    expression that name it (by the harness' own name table): the operand of
    the deprecated instance tag (and which tag produced that operand), or a
    dotted class tag."""
    routes = set()
    for node in _find_nodes(expr, []):
        if node[0] == b"instance" and len(node) > 1:
            op = node[1]
            if type(op) is list and len(op) == 2 and isinstance(op[0], bytes) and _text(op[1]) is not None:
                if _names(e, _text(op[1]), cls) and op[0] in (b"class", b"function"):
                    routes.add("instance-tag(" + op[0].decode() + ")")
        elif b"." in node[0] and node[0] not in REGISTERED and _text(node[0]) is not None:
            if _names(e, _text(node[0]), cls):
                routes.add("dotted-class-tag")
    if len(routes) > 1:
        # prefer the weakest link for a stable signature
        for r in ("instance-tag(function)", "instance-tag(class)", "dotted-class-tag"):
            if r in routes:
                return r
    return "+".join(sorted(routes)) or "unknown-route"


def _short(o):
    try:
        s = repr(o)
    except Exception as exc:  # repr of half-built objects may fail; only used for messages
        s = f"<unreprable {type(o).__name__}: {type(exc).__name__}>"
    return s if len(s) < 300 else s[:300] + "..."


# --------------------------------------------------------------------------
# round trip

def _atom(e, a):
    if isinstance(a, dict):
        if "f" in a:
            return struct.unpack("!d", struct.pack("!Q", a["f"]))[0]
        if "dec" in a:
            return decimal.Decimal(a["dec"])
        if "dt" in a:
            return datetime.datetime(*a["dt"])
        if "d" in a:
            return datetime.date(*a["d"])
        if "t" in a:
            return datetime.time(*a["t"])
        if "td" in a:
            return datetime.timedelta(days=a["td"][0], seconds=a["td"][1], microseconds=a["td"][2])
        if "cls" in a:
            return e.classes[a["cls"]]
        if "fn" in a:
            return e.table[a["fn"]]
        if "mod" in a:
            return e.mods[a["mod"]]
        raise ValueError(a)
    return a


FRESH_STATE_CLASSES = ("FreshDict", "FreshNested", "FreshList", "FreshTuple", "RegFresh")
ATOM_STATE_ONLY = ("FreshList", "FreshTuple")     # their __setstate__ copies, so no back references through them


def build_graph(e, g):
    nodes = g["nodes"]
    objs = [None] * len(nodes)
    kinds = {"Good": e.classes[A + ".Good"], "PubC": e.classes[PUB + ".PubC"], "Reg": e.Reg, "RegFresh": e.RegFresh}
    for fresh in FRESH_STATE_CLASSES:
        if fresh not in kinds:
            kinds[fresh] = e.table[A + "." + fresh]
    for i, n in enumerate(nodes):
        k = n["k"]
        if k == "list":
            objs[i] = []
        elif k == "dict":
            objs[i] = {}
        elif k == "set":
            objs[i] = set()
        elif k == "inst":
            c = kinds[n["cls"]]
            objs[i] = c.__new__(c)

    def ref(r):
        if isinstance(r, dict) and "n" in r:
            j = r["n"]
            if objs[j] is None:
                make(j)
            return objs[j]
        return _atom(e, r)

    def make(i):
        n = nodes[i]
        if n["k"] == "tuple":
            objs[i] = tuple(ref(r) for r in n["c"])
        elif n["k"] == "frozenset":
            objs[i] = frozenset(ref(r) for r in n["c"])
        elif n["k"] == "meth":
            objs[i] = getattr(ref(n["self"]), n["name"])
    for i, n in enumerate(nodes):
        if objs[i] is None:
            make(i)
    for i, n in enumerate(nodes):
        k = n["k"]
        if k == "list":
            objs[i].extend(ref(r) for r in n["c"])
        elif k == "dict":
            for kr, vr in n["c"]:
                objs[i][ref(kr)] = ref(vr)
        elif k == "set":
            objs[i].update(ref(r) for r in n["c"])
        elif k == "inst":
            for name, vr in n["c"]:
                objs[i].__dict__[name] = ref(vr)
    return ref(g["root"])


class _Diff(Exception):
    pass


def _canon(o):
    """Canonical form of a hashable element made of atoms (for matching
    unordered members); None if it contains an instance or a method."""
    if isinstance(o, float):
        return ("float", struct.pack("!d", o))
    if isinstance(o, (tuple, frozenset)):
        parts = [_canon(x) for x in o]
        if any(p is None for p in parts):
            return None
        return (type(o).__name__, tuple(parts) if isinstance(o, tuple) else tuple(sorted(parts, key=repr)))
    if isinstance(o, (type(None), bool, int, bytes, str, decimal.Decimal, datetime.datetime, datetime.date,
                      datetime.time, datetime.timedelta)):
        return (type(o).__name__, str(o) if isinstance(o, decimal.Decimal) else o)
    if isinstance(o, (type, types.FunctionType, types.ModuleType)):
        return ("ref", id(o))
    return None


def compare_graphs(orig, res):
    """Raise _Diff(kind, detail) unless res is isomorphic to orig."""
    from twisted.persisted import crefutil
    fwd, back = {}, {}
    MUT = (list, dict, set)

    def is_inst(o):
        return not isinstance(o, (list, dict, set, tuple, frozenset, types.MethodType)) and _canon(o) is None

    def go(o, r, path):
        if isinstance(r, crefutil.NotKnown) or isinstance(r, crefutil._DictKeyAndValue):
            raise _Diff(f"unresolved-placeholder({type(r).__name__})", f"at {path}: {type(r).__name__} left in the result")
        if type(o) is not type(r):
            raise _Diff("type", f"at {path}: {type(o).__name__} became {type(r).__name__}")
        mutable = isinstance(o, MUT) or is_inst(o)
        if mutable or isinstance(o, (tuple, frozenset, types.MethodType)):
            if id(o) in fwd:
                if fwd[id(o)] != id(r):
                    if mutable:
                        raise _Diff("sharing-lost", f"at {path}: a shared {type(o).__name__} came back as two objects")
                else:
                    return
            elif mutable and id(r) in back:
                raise _Diff("sharing-invented", f"at {path}: two distinct {type(o).__name__} objects came back as one")
            elif mutable:
                fwd[id(o)] = id(r)
                back[id(r)] = id(o)
        if isinstance(o, (list, tuple)):
            if len(o) != len(r):
                raise _Diff("length", f"at {path}: {len(o)} -> {len(r)} elements")
            for i, (x, y) in enumerate(zip(o, r)):
                go(x, y, f"{path}[{i}]")
        elif isinstance(o, dict):
            unordered(list(o.items()), list(r.items()), path, pairs=True)
        elif isinstance(o, (set, frozenset)):
            unordered(list(o), list(r), path, pairs=False)
        elif isinstance(o, types.MethodType):
            if o.__func__ is not r.__func__:
                raise _Diff("method", f"at {path}: method function changed")
            go(o.__self__, r.__self__, path + ".__self__")
        elif is_inst(o):
            go(o.__dict__, r.__dict__, path + ".__dict__")
        else:
            if _canon(o) != _canon(r):
                raise _Diff("value-" + type(o).__name__, f"at {path}: {o!r} became {r!r}")

    def unordered(oi, ri, path, pairs):
        if len(oi) != len(ri):
            raise _Diff("length", f"at {path}: {len(oi)} -> {len(ri)} members")
        key = (lambda it: it[0]) if pairs else (lambda it: it)
        rc = {}
        r_other = []
        for it in ri:
            c = _canon(key(it))
            if c is None:
                r_other.append(it)
            else:
                rc[c] = it
        o_other = []
        for it in oi:
            c = _canon(key(it))
            if c is None:
                o_other.append(it)
                continue
            if c not in rc:
                raise _Diff("member-missing", f"at {path}: member {key(it)!r} is missing from {_short([key(x) for x in ri])}")
            other = rc[c]
            if pairs:
                go(it[0], other[0], f"{path}.key({key(it)!r})")
                go(it[1], other[1], f"{path}[{key(it)!r}]")
            else:
                go(it, other, f"{path}.member({it!r})")
        if len(o_other) != len(r_other):
            raise _Diff("member-missing", f"at {path}: non-atomic members {len(o_other)} -> {len(r_other)}")
        # the generator puts at most one non-atomic member (an instance / a method / a tuple
        # holding one) into an unordered container, so the pairing is forced
        for a, b in zip(o_other, r_other):
            if pairs:
                go(a[0], b[0], f"{path}.key(<obj>)")
                go(a[1], b[1], f"{path}[<obj>]")
            else:
                go(a, b, f"{path}.member(<obj>)")
    go(orig, res, "root")


def _reachable(g):
    nodes = g["nodes"]
    if not (isinstance(g["root"], dict) and "n" in g["root"]):
        return set()

    def refs(n):
        out = []
        if n["k"] in ("list", "tuple", "set", "frozenset"):
            out = n["c"]
        elif n["k"] == "dict":
            out = [x for kv in n["c"] for x in kv]
        elif n["k"] == "inst":
            out = [v for _, v in n["c"]]
        elif n["k"] == "meth":
            out = [n["self"]]
        return [r["n"] for r in out if isinstance(r, dict) and "n" in r]
    reach, todo = set(), [g["root"]["n"]]
    while todo:
        i = todo.pop()
        if i not in reach:
            reach.add(i)
            todo.extend(refs(nodes[i]))
    return reach


def graph_features(g):
    """(has shared mutable node, has cycle)"""
    nodes = g["nodes"]
    indeg = [0] * len(nodes)
    edges = [[] for _ in nodes]

    def refs(n):
        out = []
        if n["k"] in ("list", "tuple", "set", "frozenset"):
            out = n["c"]
        elif n["k"] == "dict":
            out = [x for kv in n["c"] for x in kv]
        elif n["k"] == "inst":
            out = [v for _, v in n["c"]]
        elif n["k"] == "meth":
            out = [n["self"]]
        return [r["n"] for r in out if isinstance(r, dict) and "n" in r]
    for i, n in enumerate(nodes):
        for j in refs(n):
            edges[i].append(j)
            indeg[j] += 1
    if isinstance(g["root"], dict) and "n" in g["root"]:
        indeg[g["root"]["n"]] += 1
        start = g["root"]["n"]
    else:
        return False, False
    # reachable part only
    reach = set()
    st_ = [start]
    while st_:
        i = st_.pop()
        if i in reach:
            continue
        reach.add(i)
        st_.extend(edges[i])
    indeg = [0] * len(nodes)
    indeg[start] += 1
    for i in reach:
        for j in edges[i]:
            indeg[j] += 1
    shared = any(indeg[i] > 1 and nodes[i]["k"] in ("list", "dict", "set", "inst") for i in reach)
    color = {}

    def dfs(i):
        color[i] = 1
        for j in edges[i]:
            if color.get(j) == 1:
                return True
            if j not in color and dfs(j):
                return True
        color[i] = 2
        return False
    cyc = dfs(start)
    return shared, cyc


def _run_rt(ctx, case):
    from twisted.spread import jelly
    e = env()
    reset_lazy(e)
    g = case["graph"]
    obj = build_graph(e, g)
    if case["policy"] == "secure":
        so = jelly.SecurityOptions()
        so.allowInstancesOf(e.classes[A + ".Good"], e.classes[PUB + ".PubC"],
                            *[e.table[A + "." + c] for c in FRESH_STATE_CLASSES if c != "RegFresh"])
        so.allowTypes("function", "method", "verif_c45_reg.Reg", "verif_c45_reg.RegFresh")
        so.allowModules(A, P, PUB)
        sexp = jelly.jelly(obj, so)
        res = jelly.unjelly(sexp, so)
    else:
        sexp = jelly.jelly(obj)
        res = jelly.unjelly(sexp)
    try:
        compare_graphs(obj, res)
    except _Diff as d:
        kind, detail = d.args
        kinds = sorted({n["k"] for n in g["nodes"]})
        shared, cyc = graph_features(g)
        ctx.violation(f"roundtrip-{kind}" + ("-cyclic" if cyc else ""), case,
                      f"{detail}; node kinds {kinds}; jelly: {_short(sexp)}")
    shared, cyc = graph_features(g)
    ctx.count(f"rt: policy={case['policy']}")
    for k in sorted({n["k"] for n in g["nodes"]}):
        ctx.count(f"rt: has {k}")
    nfresh = sum(1 for i in _reachable(g) if g["nodes"][i]["k"] == "inst" and g["nodes"][i]["cls"] in FRESH_STATE_CLASSES)
    if nfresh >= 2:
        ctx.count("rt: >=2 instances whose state is a fresh container (__getstate__/getStateFor)")
    elif nfresh == 1:
        ctx.count("rt: 1 instance whose state is a fresh container")
    if shared:
        ctx.count("rt: shared mutable node")
    if cyc:
        ctx.count("rt: cycle")
    if shared or cyc or nfresh >= 2:
        ctx.nontrivial(dumps(case))
        ctx.count("nontrivial (shared or cyclic graph, or >=2 fresh-state instances)")
        if len(dumps(case)) < 500:
            ctx.sample(case)


# --------------------------------------------------------------------------
# generators

MODULE_NAMES = [A, A, A, P, PUB, PUB, HID, U, AX, F, "os", "subprocess", "builtins", "shutil", "colorsys",
                "stringprep", "nonexistent_mod_c45", "", A + ".Good", A + ".os", A + ".forbidden", P + ".nothing"]
DOTTED = (
    [A + "." + x for x in ("Good", "Good", "Good", "Other", "helper", "const", "os", "Danger", "danger", "forbidden",
                           "os.system", "forbidden.danger", "forbidden.Danger", "Good.meth", "missing")]
    + [PUB + "." + x for x in ("PubC", "PubC", "pubf", "GoodAlias", "Danger", "missing")]
    + [P + "." + x for x in ("pub", "hidden", "hidden.HiddenC", "hidden.hiddenf", "nothing")]
    + [HID + ".HiddenC", U + ".HiddenC", U + ".hiddenf"]
    + [AX + "." + x for x in ("Evil", "run", "Danger")]
    + [F + "." + x for x in ("Danger", "danger", "Sub", "Danger.go")]
    + ["os.system", "os.popen", "subprocess.Popen", "subprocess.call", "builtins.eval", "builtins.exec",
       "builtins.__import__", "shutil.rmtree", "pickle.loads", "socket.socket", "os.path.join", "colorsys.rgb_to_hsv",
       "nturl2path.url2pathname"]
    + ["eval", "system", "", ".", "..", "os.", ".os", A + ".", A + "..Good", "nonexistent_mod_c45.x",
       "verif_c45_reg.Reg"]
)
CLASS_NAMES = [A + ".Good", A + ".Good", PUB + ".PubC", PUB + ".GoodAlias", A + ".Other", A + ".Danger",
               F + ".Danger", AX + ".Evil", "subprocess.Popen", "socket.socket", HID + ".HiddenC", "builtins.object",
               # a submodule / top-level module that is not imported yet, named where a class is expected
               HID, HID, U, P + ".pub"]


def _b(s):
    return s.encode()


_names_mod = st.sampled_from(MODULE_NAMES).map(_b)
_names_dot = st.sampled_from(DOTTED).map(_b)
_names_cls = st.one_of(st.sampled_from(CLASS_NAMES).map(_b), _names_dot)
_atoms = st.one_of(st.integers(-5, 300), st.binary(max_size=6), st.sampled_from([b"x", b"data", b"meth", b"other", b"go"]),
                   st.floats(allow_nan=False, allow_infinity=False, width=32), st.sampled_from(["meth", "go", "x"]))
_simple = st.one_of(
    st.just([b"None"]), st.sampled_from([[b"boolean", b"true"], [b"boolean", b"false"]]),
    st.binary(max_size=4).map(lambda b: [b"unicode", b]),
    st.tuples(st.integers(-999, 999), st.integers(-3, 3)).map(lambda t: [b"decimal", t[0], t[1]]),
    st.sampled_from([[b"date", b"2020 1 2"], [b"time", b"1 2 3 4"], [b"datetime", b"2020 1 2 3 4 5 6"],
                     [b"timedelta", b"1 2 3"], [b"persistent", b"p"], [b"unpersistable", b"why"]]),
    st.integers(1, 3).map(lambda i: [b"dereference", i]),
)
_named = st.one_of(
    _names_mod.map(lambda n: [b"module", n]),
    _names_cls.map(lambda n: [b"class", n]),
    _names_dot.map(lambda n: [b"function", n]),
    _names_dot.map(lambda n: [b"function", n]),
)
_leaf = st.one_of(_atoms, _simple, _named, _named)
_class_expr = st.one_of(_names_cls.map(lambda n: [b"class", n]), _names_cls.map(lambda n: [b"class", n]),
                        _names_cls.map(lambda n: [b"function", n]), _names_dot.map(lambda n: [b"function", n]),
                        _names_mod.map(lambda n: [b"module", n]))


def _extend(c):
    state = st.one_of(
        st.lists(st.tuples(st.sampled_from([b"x", b"data", [b"unicode", b"x"], [b"unicode", b"y"], "z"]), c).map(list),
                 max_size=3).map(lambda kv: [b"dictionary"] + kv),
        st.just([b"None"]), c)
    return st.one_of(
        st.lists(c, max_size=3).map(lambda xs: [b"list"] + xs),
        st.lists(c, max_size=3).map(lambda xs: [b"tuple"] + xs),
        st.lists(c, max_size=2).map(lambda xs: [b"set"] + xs),
        st.lists(c, max_size=2).map(lambda xs: [b"frozenset"] + xs),
        st.lists(st.tuples(c, c).map(list), max_size=3).map(lambda kv: [b"dictionary"] + kv),
        st.tuples(st.integers(1, 3), c).map(lambda t: [b"reference", t[0], t[1]]),
        st.tuples(st.sampled_from([b"meth", "meth", "other", "go", b"go", "__init__", "helper"]), st.one_of(c, st.just([b"None"])),
                  st.one_of(_class_expr, c)).map(lambda t: [b"method", t[0], t[1], t[2]]),
        st.tuples(st.one_of(_class_expr, _class_expr, c), state).map(lambda t: [b"instance", t[0], t[1]]),
        st.tuples(_names_cls, state).map(lambda t: [t[0], t[1]]),
        st.tuples(_names_cls, state).map(lambda t: [t[0], t[1]]),
        st.tuples(st.sampled_from(REGISTERED), state).map(lambda t: [t[0], t[1]]),
        # unknown plain tags that the default policy lists as types
        st.tuples(st.sampled_from([b"string", b"int", b"long", b"dict", b"classobj", b"NoneType", b"bool", b"verifreg2",
                                   b"lyInto", b"SetOrFrozenset"]), c).map(lambda t: [t[0], t[1]]),
    )


_wellformed = st.recursive(_leaf, _extend, max_leaves=8)
_malformed = st.one_of(
    st.just([]), st.sampled_from([[b"method", b"meth"], [b"instance"], [b"class"], [b"module"], [b"function"],
                                  [b"reference", 1], [b"dictionary", [b"k"]], [b"decimal", b"x"], [5, 6], [[b"list"], 1],
                                  [b"module", 5], [b"class", [b"None"]], [b"function", b"\xff\xfe.x"], [b"\xff.x", [b"None"]],
                                  [b"unicode"], [b"boolean", b"maybe"], [b"date", b"x"]]),
    st.tuples(st.sampled_from([b"module", b"class", b"function"]), _names_dot, _wellformed).map(list),
    st.tuples(_names_cls, _wellformed, _wellformed).map(list),
)
_expr = st.sampled_from(list(range(40))).flatmap(
    lambda k: _malformed if k in (17, 29) else
    st.tuples(st.sampled_from([b"list", b"tuple"]), _wellformed, _malformed).map(list) if k == 23 else _wellformed)

_ALL_TYPES = ["function", "method", "instance", "class", "module", "list", "tuple", "dictionary", "reference",
              "dereference", "persistent", "unpersistable", "classobj", "verifreg", "verif_c45_reg.Reg"]
_policy_rich = st.builds(
    dict, basic=st.just(True),
    types=st.lists(st.sampled_from(_ALL_TYPES), min_size=3, max_size=9, unique=True).map(sorted),
    modules=st.lists(st.sampled_from([A, A, P, PUB, PUB, HID, U]), max_size=3, unique=True).map(sorted),
    instances_of=st.lists(st.sampled_from([A + ".Good", A + ".Good", PUB + ".PubC"]), max_size=2, unique=True).map(sorted))
_policy_any = st.builds(
    dict, basic=st.booleans(),
    types=st.lists(st.sampled_from(_ALL_TYPES), max_size=4, unique=True).map(sorted),
    modules=st.lists(st.sampled_from([A, P, PUB]), max_size=2, unique=True).map(sorted),
    instances_of=st.lists(st.sampled_from([A + ".Good", PUB + ".PubC"]), max_size=1, unique=True).map(sorted))
_policy_full = st.builds(
    dict, basic=st.just(True), types=st.just(sorted(_ALL_TYPES)),
    modules=st.sampled_from([[A, P, PUB], [A, PUB], [A], [PUB]]),
    instances_of=st.sampled_from([[A + ".Good", PUB + ".PubC"], [A + ".Good"], []]))
_policy = st.sampled_from([0, 1, 1, 2, 2, 3, 1]).flatmap(
    lambda k: [st.just(dict(basic=False, types=[], modules=[], instances_of=[])), _policy_rich, _policy_full, _policy_any][k])

sec_cases = st.builds(lambda p, x: dict(kind="sec", policy=p, expr=x), _policy, _expr)


# ---- round trip graphs

_key_atoms = st.one_of(st.integers(-3, 40), st.binary(max_size=3), st.text(max_size=3), st.none(), st.booleans())
_rt_atoms = st.one_of(
    _key_atoms, _key_atoms,
    st.one_of(st.sampled_from([0, 0x8000000000000000, 0x7FF0000000000000, 0x7FF8000000000000, 0x3FF8000000000000]),
              st.integers(0, (1 << 64) - 1)).map(lambda b: {"f": b}),
    st.sampled_from(["0", "1.50", "-12.345", "1E+5", "-0.001", "123456789012345678901234567890", "7E-20"]).map(lambda s: {"dec": s}),
    st.tuples(st.integers(1, 9999), st.integers(1, 12), st.integers(1, 28), st.integers(0, 23), st.integers(0, 59),
              st.integers(0, 59), st.integers(0, 999999)).map(lambda t: {"dt": list(t)}),
    st.tuples(st.integers(1, 9999), st.integers(1, 12), st.integers(1, 28)).map(lambda t: {"d": list(t)}),
    st.tuples(st.integers(0, 23), st.integers(0, 59), st.integers(0, 59), st.integers(0, 999999)).map(lambda t: {"t": list(t)}),
    st.tuples(st.integers(-999, 999), st.integers(0, 86399), st.integers(0, 999999)).map(lambda t: {"td": list(t)}),
    st.sampled_from([{"cls": A + ".Good"}, {"cls": PUB + ".PubC"}, {"fn": A + ".helper"}, {"fn": PUB + ".pubf"},
                     {"mod": A}, {"mod": PUB}, {"mod": P}]),
    st.integers(-(1 << 70), 1 << 70),
)


@st.composite
def rt_graphs(draw):
    n = draw(st.integers(1, 10))
    kinds = draw(st.lists(st.sampled_from(["list", "list", "dict", "inst", "inst", "tuple", "tuple", "set", "frozenset", "meth"]),
                          min_size=n, max_size=n))
    # a bound method needs an instance before it
    for i, k in enumerate(kinds):
        if k == "meth" and "inst" not in kinds[:i]:
            kinds[i] = "inst"
    # one graph in three takes all its instances from the classes with custom, freshly built state
    fresh_mode = draw(st.sampled_from([0, 1, 2])) == 1
    pool = list(FRESH_STATE_CLASSES) if fresh_mode else ["Good", "Good", "PubC", "Reg"] + list(FRESH_STATE_CLASSES)
    if fresh_mode:
        kinds = [draw(st.sampled_from(["inst", k])) if k != "meth" else k for k in kinds]
    clsnames = [draw(st.sampled_from(pool)) if k == "inst" else None for k in kinds]
    hashable = [None] * n          # decided as nodes are defined (tuples depend on their members)
    nodes = [None] * n

    def pick(i, need_hashable, immutable_parent):
        """A reference usable from node i."""
        cands = []
        for j in range(n):
            if immutable_parent and kinds[j] in ("tuple", "frozenset", "meth") and j >= i:
                continue        # immutable nodes only point backwards among immutables
            if need_hashable:
                if kinds[j] in ("list", "dict", "set"):
                    continue
                if kinds[j] in ("tuple", "frozenset", "meth") and (j >= i or not hashable[j]):
                    continue
            cands.append(j)
        if cands and draw(st.integers(0, 2)) > 0:
            return {"n": draw(st.sampled_from(cands))}
        return draw(_key_atoms if need_hashable else _rt_atoms)

    for i, k in enumerate(kinds):
        if k in ("list", "tuple"):
            c = [pick(i, False, k == "tuple") for _ in range(draw(st.integers(0, 3)))]
            nodes[i] = {"k": k, "c": c}
            hashable[i] = k == "tuple" and all(not (isinstance(r, dict) and "n" in r) or
                                               kinds[r["n"]] == "inst" or hashable[r["n"]] for r in c)
        elif k in ("set", "frozenset"):
            c = []
            objs = 0
            for _ in range(draw(st.integers(0, 3))):
                r = pick(i, True, k == "frozenset")
                if isinstance(r, dict) and "n" in r:
                    objs += 1
                    if objs > 1:
                        continue
                c.append(r)
            nodes[i] = {"k": k, "c": c}
            hashable[i] = k == "frozenset"
        elif k == "dict":
            c = []
            objs = 0
            for _ in range(draw(st.integers(0, 3))):
                kr = pick(i, True, False)
                if isinstance(kr, dict) and "n" in kr:
                    objs += 1
                    if objs > 1:
                        kr = draw(_key_atoms)
                c.append([kr, pick(i, False, False)])
            nodes[i] = {"k": k, "c": c}
        elif k == "inst":
            if clsnames[i] in ATOM_STATE_ONLY:
                c = [[draw(st.sampled_from(["a", "b", "data"])), draw(_rt_atoms)] for _ in range(draw(st.integers(0, 3)))]
            else:
                c = [[draw(st.sampled_from(["a", "b", "data"])), pick(i, False, False)] for _ in range(draw(st.integers(0, 3)))]
            nodes[i] = {"k": k, "cls": clsnames[i], "c": c}
        else:
            insts = [j for j in range(i) if kinds[j] == "inst" and clsnames[j] in ("Good", "PubC")]
            if not insts:
                nodes[i] = {"k": "tuple", "c": []}
                kinds[i] = "tuple"
                hashable[i] = True
            else:
                nodes[i] = {"k": "meth", "self": {"n": draw(st.sampled_from(insts))}, "name": "meth"}
                hashable[i] = True
    if fresh_mode and draw(st.sampled_from([0, 1, 2])) > 0:
        # all nodes side by side under one list: siblings are serialized one after the other
        nodes.append({"k": "list", "c": [{"n": i} for i in range(n)]})
        root = {"n": n}
    else:
        root = {"n": draw(st.integers(0, n - 1))}
    return dict(kind="rt", policy=draw(st.sampled_from(["secure", "secure", "dummy"])), graph=dict(nodes=nodes, root=root))


def fixed_cases():
    """Seed-independent cases: every name of the universe under every naming tag, with permissive
    type policies that differ in which modules / packages / classes they allow (complete small scope:
    names x naming forms x module policies)."""
    policies = [
        dict(basic=True, types=sorted(_ALL_TYPES), modules=[A, PUB], instances_of=[A + ".Good"]),
        # the package is allowed, its (unloaded) submodule is not
        dict(basic=True, types=sorted(_ALL_TYPES), modules=[P], instances_of=[]),
        dict(basic=True, types=sorted(_ALL_TYPES), modules=[A, P, PUB], instances_of=[A + ".Good", PUB + ".PubC"]),
        # the unloaded submodule is allowed, its package is not
        dict(basic=True, types=sorted(_ALL_TYPES), modules=[HID], instances_of=[]),
    ]
    names = sorted(set(DOTTED + CLASS_NAMES))
    for pol in policies:
        for name in names:
            n = name.encode()
            yield dict(kind="sec", policy=pol, expr=[b"function", n])
            yield dict(kind="sec", policy=pol, expr=[b"class", n])
            yield dict(kind="sec", policy=pol, expr=[n, [b"dictionary", [b"x", 1]]])
            yield dict(kind="sec", policy=pol, expr=[b"instance", [b"class", n], [b"dictionary", [b"x", 1]]])
            yield dict(kind="sec", policy=pol, expr=[b"instance", [b"function", n], [b"dictionary", [b"x", 1]]])
            yield dict(kind="sec", policy=pol, expr=[b"method", "go", [b"None"], [b"class", n]])
        for name in sorted(set(MODULE_NAMES)):
            yield dict(kind="sec", policy=pol, expr=[b"module", name.encode()])
    # simple cyclic / shared graphs of every mutable kind
    for pol_name in ("secure", "dummy"):
        yield dict(kind="rt", policy=pol_name, graph=dict(nodes=[{"k": "list", "c": [{"n": 0}]}], root={"n": 0}))
        yield dict(kind="rt", policy=pol_name, graph=dict(nodes=[{"k": "dict", "c": [[b"me", {"n": 0}]]}], root={"n": 0}))
        yield dict(kind="rt", policy=pol_name, graph=dict(
            nodes=[{"k": "inst", "cls": "Good", "c": [["a", {"n": 0}]]}], root={"n": 0}))
        yield dict(kind="rt", policy=pol_name, graph=dict(
            nodes=[{"k": "list", "c": [{"n": 1}, {"n": 1}]}, {"k": "list", "c": [1]}], root={"n": 0}))
        yield dict(kind="rt", policy=pol_name, graph=dict(
            nodes=[{"k": "list", "c": [{"n": 1}]}, {"k": "tuple", "c": [{"n": 0}, 1]}], root={"n": 1}))


def _hyp_shard(sub, i):
    env()
    hyp_run(sub, sec_cases, run_case, 10000, label=f"sec-shard{i}")
    if not sub.has_violation():
        hyp_run(sub, rt_graphs(), run_case, 4000, label=f"rt-shard{i}")


def run(ctx):
    env()
    enumerate_run(ctx, fixed_cases(), run_case)
    if ctx.has_violation():
        return
    if ctx.thorough:
        ctx.shards(_hyp_shard, list(range(16)))
        return
    hyp_run(ctx, sec_cases, run_case, 4000, label="sec")
    if ctx.has_violation():
        return
    hyp_run(ctx, rt_graphs(), run_case, 1500, label="rt")
