"""C46 — quoteStringArgument round-trips through endpoint description parsing.

Oracle = the round trip itself: a description is assembled from generated
texts (each passed through quoteStringArgument) as positional / keyword
arguments, parsed by the real code, and compared with the texts that went in.
Four routes per generic case: endpoints._parse, the public
serverFromString / clientFromString dispatching to a recording stand-in parser
plugin, and serverFromString through twisted's 'haproxy:' wrapper parser (which
un-parses = re-quotes its arguments and parses them again) in front of that
plugin (endpoints.getPlugins is replaced for the duration of the call, so the
plugin cache on disk is never touched).  A second family of cases drives the
concrete unix:/tcp: server and client string forms and reads the text back
from the constructed endpoint object.
"""
import itertools

from hypothesis import strategies as st

from lib.core import hyp_run, enumerate_run

META = dict(
    property="C46",
    level="exploration",
    technique="round trip quoteStringArgument -> description -> _parse / serverFromString / clientFromString; complete enumeration of short texts over {':','=','\\\\','a'} in 5 argument layouts + Hypothesis layouts of up to 5 arguments",
    level_text="Every text of length <= 5 (quick) / <= 7 (thorough) over the alphabet {':', '=', '\\\\', 'a'} is placed as sole positional, positional between neighbours, keyword value, keyword value between neighbours and last positional after a keyword, and through 11 concrete unix:/tcp: server/client forms; Hypothesis adds random layouts of up to 5 mixed arguments over an alphabet with ':', '=', '\\\\', space, NUL, non-ASCII and astral characters. Sampled beyond the enumerated lengths.",
    level_note="The expected value is the text itself (round trip), no model of the tokenizer is trusted. Keyword *names* are harness-chosen ASCII identifiers (the statement is about argument values). ssl:/tls: forms are not driven (need key files / pyOpenSSL); the plugin route uses a recording stand-in plugin injected by replacing endpoints.getPlugins.",
    design_ref="§5 C46",
    rule="case = list of items ('p', text) | ('k', name, text) or (concrete form, text). non-trivial = some text contains ':', '=', '\\\\' or a non-ASCII/NUL character; distinct by the whole case.",
)

SPECIAL = ":=\\"
KEYS = ["k0", "k1", "k2", "k3", "k4", "interface", "path"]

FORMS = [
    "s-unix-pos", "s-unix-pos-kw", "s-unix-kw", "s-tcp-iface", "s-tcp-iface-first",
    "c-unix-pos", "c-unix-pos-kw", "c-unix-kw", "c-tcp-host-pos", "c-tcp-host-kw", "c-tcp-bind",
    # every documented mix of positional and keyword arguments of the built-in parsers, which shuffle
    # their arguments themselves (_parseClientTCP, _parseClientUNIX, _parseTCP, _parseUNIX)
    "c-tcp-hostpos-portkw", "c-tcp-portkw-hostpos", "c-tcp-hostkw-portpos", "c-tcp-portpos-hostkw", "c-tcp-portkw-hostkw",
    "c-tcp-hostkw-portpos-kw", "c-tcp-bind-hostkw-portpos", "c-unix-kw-pos", "c-unix-kw-pathkw",
    "s-tcp-ifacekw-portpos", "s-unix-kw-pos",
    # the same server forms behind the 'haproxy:' wrapper prefix (description is un-parsed and parsed again)
    "h-s-unix-pos", "h-s-unix-pos-kw", "h-s-unix-kw", "h-s-tcp-iface", "h-s-tcp-iface-first",
]
# forms in which the text is a positional argument
POSITIONAL_FORMS = {"s-unix-pos", "s-unix-pos-kw", "c-unix-pos", "c-unix-pos-kw", "c-tcp-host-pos",
                    "h-s-unix-pos", "h-s-unix-pos-kw", "c-tcp-hostpos-portkw", "c-tcp-portkw-hostpos", "c-unix-kw-pos",
                    "s-unix-kw-pos"}
# forms in which the text is a keyword argument while another argument is positional
MIXED_FORMS = {"c-tcp-hostkw-portpos", "c-tcp-portpos-hostkw", "c-tcp-hostkw-portpos-kw", "c-tcp-bind-hostkw-portpos",
               "s-tcp-ifacekw-portpos", "c-tcp-hostpos-portkw", "c-tcp-portkw-hostpos", "c-unix-kw-pos", "s-unix-kw-pos"}


def classes(text):
    out = []
    if ":" in text:
        out.append("colon")
    if "=" in text:
        out.append("equals")
    if "\\" in text:
        out.append("backslash")
    if any(ord(c) > 127 or ord(c) < 32 for c in text):
        out.append("nonascii")
    return out


class _Recorder:
    """Stand-in string-parser plugin: records what the public function passed on."""
    prefix = "verifake"

    def __init__(self):
        self.got = None

    def parseStreamServer(self, reactor, *args, **kw):
        self.got = (list(args), dict(kw))
        return self

    def parseStreamClient(self, reactor, *args, **kw):
        self.got = (list(args), dict(kw))
        return self


def _call(fn):
    """Run one call into twisted; -> ('ok', value) | ('exc', 'Type: msg')."""
    try:
        return "ok", fn()
    except Exception as e:  # turned into a violation by the caller, never dropped
        return "exc", f"{type(e).__name__}: {e}"


def _via_plugin(which, desc):
    """serverFromString / clientFromString with the plugin lookup replaced by a
    recording stand-in parser (prefix verifake) and, for servers, twisted's own
    'haproxy:' wrapper parser, which un-parses (re-quotes) its arguments and
    parses the result again."""
    from twisted.internet import endpoints
    from twisted.protocols.haproxy._parser import HAProxyServerParser
    rec = _Recorder()
    saved = endpoints.getPlugins
    endpoints.getPlugins = lambda iface: [rec, HAProxyServerParser()]
    try:
        if which == "server":
            ep = endpoints.serverFromString(None, desc)
        else:
            ep = endpoints.clientFromString(None, desc)
    finally:
        endpoints.getPlugins = saved
    return rec.got, ep


def _body(items, quote_pos, quote_kw):
    parts = []
    for it in items:
        if it[0] == "p":
            parts.append(quote_pos(it[1]))
        else:
            parts.append(it[1] + "=" + quote_kw(it[2]))
    return ":".join(parts)


def _generic_routes(body):
    from twisted.internet import endpoints
    return [
        ("_parse", "pfx", lambda: endpoints._parse("pfx:" + body)),
        ("serverFromString", None, lambda: _via_plugin("server", "verifake:" + body)[0]),
        ("clientFromString", None, lambda: _via_plugin("client", "verifake:" + body)[0]),
        # re-quoted and re-parsed by the wrapping parser
        ("serverFromString[haproxy:]", None, lambda: _via_plugin("server", "haproxy:verifake:" + body)[0]),
    ]


def run_generic(ctx, case):
    from twisted.internet.endpoints import quoteStringArgument as q
    items = case["items"]
    pos = [it[1] for it in items if it[0] == "p"]
    kw = {it[1]: it[2] for it in items if it[0] == "k"}
    body = _body(items, q, q)
    # the same description if '=' had additionally been escaped in positional arguments
    fixed_body = _body(items, lambda t: q(t).replace("=", "\\="), q)
    eq_in_pos = any("=" in t for t in pos)
    for (route, head, fn), (_, _, fixed_fn) in zip(_generic_routes(body), _generic_routes(fixed_body)):
        want = ((([head] if head else []) + pos), kw)
        status, got = _call(fn)
        if status == "ok":
            got = (list(got[0]), dict(got[1]))
            if got == want:
                continue
        # diverged: find the root cause class
        if eq_in_pos:
            s2, g2 = _call(fixed_fn)
            if s2 == "ok" and (list(g2[0]), dict(g2[1])) == want:
                ctx.violation("positional-equals-not-escaped", case,
                              f"{route}({('pfx:' if head else 'verifake:') + body!r}) -> {got!r}, expected {want!r}; "
                              "escaping '=' as well gives the expected result")
        if status == "exc":
            ctx.violation(f"raises-{got.split(':')[0]}", case,
                          f"{route}({body!r}) raised {got}; expected {want!r}")
        # which item is wrong
        gargs, gkw = got
        wargs = want[0]
        bad = None
        for i, (a, b) in enumerate(itertools.zip_longest(gargs, wargs)):
            if a != b:
                bad = ("positional", b if b is not None else a)
                break
        if bad is None:
            for k in sorted(set(gkw) | set(kw)):
                if gkw.get(k) != kw.get(k):
                    bad = ("keyword", kw.get(k, gkw.get(k)))
                    break
        cl = "+".join(classes(bad[1] or "")) or "plain"
        ctx.violation(f"{bad[0]}-not-roundtripped[{cl}]", case,
                      f"{route}({body!r}) -> {got!r}, expected {want!r}")
    nt = [c for it in items for c in classes(it[-1])]
    if nt:
        ctx.nontrivial(("g", items))
    for c in sorted(set(nt)):
        ctx.count("generic: some text has " + c)
    if pos and kw:
        ctx.count("generic: mixed positional+keyword")
    ctx.count(f"generic: {len(items)} items")
    if eq_in_pos:
        ctx.count("generic: '=' in a positional text")
    if "nonascii" in nt:
        ctx.count("generic: non-ASCII text through the haproxy: re-quoting route")
    last = items[-1][-1]
    if last and (last != last.strip()):
        ctx.count("generic: first/last slot text with edge whitespace")
    if len(nt) >= 3 and len(items) >= 3:
        ctx.sample(case)


def _form(form, qt):
    """-> (callable building the endpoint, {attribute: expected}) ; text attr is given as ... placeholder"""
    from twisted.internet import endpoints as E
    S = lambda d: (lambda: E.serverFromString(None, d))
    C = lambda d: (lambda: E.clientFromString(None, d))
    if form.startswith("h-"):
        def S(d):
            def build():
                from twisted.internet.endpoints import _WrapperServerEndpoint
                ep = _via_plugin("server", "haproxy:" + d)[1]
                if not isinstance(ep, _WrapperServerEndpoint):
                    raise ValueError(f"haproxy: description did not give a wrapper endpoint but {ep!r}")
                return ep._wrappedEndpoint
            return build
        form = form[2:]
    T = Ellipsis
    table = {
        "s-unix-pos": (S(f"unix:{qt}"), dict(_address=T, _mode=0o666, _backlog=50, _wantPID=True)),
        "s-unix-pos-kw": (S(f"unix:{qt}:mode=660:lockfile=0:backlog=7"),
                          dict(_address=T, _mode=0o660, _backlog=7, _wantPID=False)),
        "s-unix-kw": (S(f"unix:address={qt}:mode=600"), dict(_address=T, _mode=0o600, _backlog=50, _wantPID=True)),
        "s-tcp-iface": (S(f"tcp:8080:interface={qt}:backlog=3"), dict(_port=8080, _interface=T, _backlog=3)),
        "s-tcp-iface-first": (S(f"tcp:interface={qt}:port=8080"), dict(_port=8080, _interface=T, _backlog=50)),
        "c-unix-pos": (C(f"unix:{qt}"), dict(_path=T, _timeout=30, _checkPID=0)),
        "c-unix-pos-kw": (C(f"unix:{qt}:lockfile=1:timeout=9"), dict(_path=T, _timeout=9, _checkPID=True)),
        "c-unix-kw": (C(f"unix:path={qt}:timeout=9"), dict(_path=T, _timeout=9, _checkPID=0)),
        "c-tcp-host-pos": (C(f"tcp:{qt}:80"), dict(_host=T, _port=80, _bindAddress=None)),
        "c-tcp-host-kw": (C(f"tcp:host={qt}:port=80:timeout=4"), dict(_host=T, _port=80, _timeout=4)),
        "c-tcp-bind": (C(f"tcp:example.org:80:bindAddress={qt}"), dict(_host="example.org", _port=80, _bindAddress=T)),
        "c-tcp-hostpos-portkw": (C(f"tcp:{qt}:port=80"), dict(_host=T, _port=80, _timeout=30)),
        "c-tcp-portkw-hostpos": (C(f"tcp:port=80:{qt}"), dict(_host=T, _port=80, _timeout=30)),
        "c-tcp-hostkw-portpos": (C(f"tcp:host={qt}:80"), dict(_host=T, _port=80, _timeout=30)),
        "c-tcp-portpos-hostkw": (C(f"tcp:80:host={qt}"), dict(_host=T, _port=80, _timeout=30)),
        "c-tcp-portkw-hostkw": (C(f"tcp:port=80:host={qt}"), dict(_host=T, _port=80, _timeout=30)),
        "c-tcp-hostkw-portpos-kw": (C(f"tcp:host={qt}:80:timeout=3"), dict(_host=T, _port=80, _timeout=3)),
        "c-tcp-bind-hostkw-portpos": (C(f"tcp:host=example.org:80:bindAddress={qt}"), dict(_host="example.org", _port=80, _bindAddress=T)),
        "c-unix-kw-pos": (C(f"unix:timeout=3:{qt}"), dict(_path=T, _timeout=3, _checkPID=0)),
        "c-unix-kw-pathkw": (C(f"unix:timeout=3:path={qt}:lockfile=1"), dict(_path=T, _timeout=3, _checkPID=True)),
        "s-tcp-ifacekw-portpos": (S(f"tcp:interface={qt}:8080"), dict(_port=8080, _interface=T, _backlog=50)),
        "s-unix-kw-pos": (S(f"unix:mode=660:{qt}"), dict(_address=T, _mode=0o660, _backlog=50, _wantPID=True)),
    }
    return table[form]


def _form_diff(form, ep, exp, text):
    out = []
    for attr, want in sorted(exp.items()):
        if want is Ellipsis:
            want = (text, 0) if attr == "_bindAddress" else text
        got = getattr(ep, attr)
        if got != want or type(got) is not type(want):
            out.append((attr, got, want))
    return out


def run_form(ctx, case):
    from twisted.internet.endpoints import quoteStringArgument as q
    form, text = case["form"], case["text"]
    qt = q(text)
    fn, exp = _form(form, qt)
    status, got = _call(fn)
    diff = None
    if status == "ok":
        diff = _form_diff(form, got, exp, text)
        if not diff:
            got = None
    if got is not None:
        if "=" in text and form in POSITIONAL_FORMS:
            fn2, _ = _form(form, qt.replace("=", "\\="))
            s2, g2 = _call(fn2)
            if s2 == "ok" and not _form_diff(form, g2, exp, text):
                ctx.violation("positional-equals-not-escaped", case,
                              f"{form} with text {text!r}: {('raised ' + got) if status == 'exc' else diff!r}; "
                              "escaping '=' as well gives the expected endpoint")
        cl = "+".join(classes(text)) or "plain"
        if status == "exc":
            ctx.violation(f"form-raises-{got.split(':')[0]}[{cl}]", case, f"{form} with text {text!r} raised {got}")
        attr = diff[0][0]
        textattr = [a for a, w in exp.items() if w is Ellipsis][0]
        if attr == textattr:
            ctx.violation(f"form-text-not-roundtripped[{cl}]", case, f"{form} with text {text!r}: {diff!r}")
        ctx.violation(f"form-neighbour-damaged[{cl}]", case, f"{form} with text {text!r}: {diff!r}")
    cl = classes(text)
    if cl:
        ctx.nontrivial(("f", form, text))
    ctx.count("form: " + form)
    if form in MIXED_FORMS:
        ctx.count("form: mixed positional/keyword built-in form" + (", empty text" if text == "" else ""))
    if text == "":
        ctx.nontrivial(("f", form, text))
    if form.startswith("h-") and "nonascii" in cl:
        ctx.count("form: haproxy: form with non-ASCII text")
    for c in cl:
        ctx.count("form: text has " + c)


def run_case(ctx, case):
    if case["kind"] == "generic":
        run_generic(ctx, case)
    else:
        run_form(ctx, case)


# -- generation ---------------------------------------------------------------

def _layouts(t):
    yield [["p", t]]
    yield [["p", "n:1"], ["p", t], ["p", "n\\2"]]
    yield [["k", "k0", t]]
    yield [["p", "a"], ["k", "k1", "v=1"], ["k", "k0", t], ["k", "k2", "w:\\"]]
    yield [["k", "k1", "x"], ["p", t]]


def _short_texts(maxlen, alphabet=":=\\a"):
    for n in range(maxlen + 1):
        for tup in itertools.product(alphabet, repeat=n):
            yield "".join(tup)


def _enum_shard(ctx, arg):
    maxlen, shard, nshards = arg

    def cases():
        for i, t in enumerate(_short_texts(maxlen)):
            if i % nshards != shard:
                continue
            for items in _layouts(t):
                yield dict(kind="generic", items=items)
            for form in FORMS:
                yield dict(kind="form", form=form, text=t)
        if shard == 0:
            # second small scope: blanks / non-ASCII at the edges of a text, every layout and form
            for t in _short_texts(3, " \t\u00a0\u00e9:"):
                for items in _layouts(t):
                    yield dict(kind="generic", items=items)
                for form in FORMS:
                    yield dict(kind="form", form=form, text=t)
    enumerate_run(ctx, cases(), run_case)


def strategies():
    alpha = st.one_of(
        st.sampled_from([":", "=", "\\", ":", "=", "\\", " ", "a", "/", "\x00", "\u00e9", "\u2603", "\U0001f600", "\n"]),
        st.characters(blacklist_categories=("Cs",)),
    )
    text = st.one_of(st.text(alpha, max_size=10), st.text(st.sampled_from(SPECIAL), max_size=6))

    @st.composite
    def generic(draw):
        n = draw(st.integers(1, 5))
        keys = draw(st.permutations(KEYS))
        items = []
        for i in range(n):
            if draw(st.booleans()):
                items.append(["p", draw(text)])
            else:
                items.append(["k", keys[i], draw(text)])
        return dict(kind="generic", items=items)

    form = st.builds(lambda f, t: dict(kind="form", form=f, text=t), st.sampled_from(FORMS), text)
    return generic(), form


def _hyp_shard(sub, i):
    generic, form = strategies()
    hyp_run(sub, generic, run_case, 12000, label=f"generic{i}")
    if not sub.has_violation():
        hyp_run(sub, form, run_case, 5000, label=f"form{i}")


def run(ctx):
    maxlen = ctx.pick(5, 7)
    if ctx.thorough:
        ctx.shards(_enum_shard, [(maxlen, i, 16) for i in range(16)])
    else:
        _enum_shard(ctx, (maxlen, 0, 1))
    ctx.extra["exhaustive_scope"] = (f"all texts of length <= {maxlen} over ':', '=', '\\\\', 'a' "
                                     f"in 5 generic layouts x 4 routes and {len(FORMS)} concrete forms; "
                                     "all texts of length <= 3 over ' ', TAB, U+00A0, U+00E9, ':' likewise")
    ctx.exhaustive = False  # the statement quantifies over all texts; only this scope is complete
    if ctx.has_violation():
        return
    generic, form = strategies()
    if ctx.thorough:
        ctx.shards(_hyp_shard, list(range(16)))
    else:
        hyp_run(ctx, generic, run_case, 4000, label="generic")
        if ctx.has_violation():
            return
        hyp_run(ctx, form, run_case, 2500, label="form")
