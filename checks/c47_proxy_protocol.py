"""C47 — PROXY protocol (v1/v2) wrapper: header parsed regardless of segmentation.

A structured header description is encoded by an encoder written from the
PROXY protocol specification (independent of twisted's parsers), followed by a
payload, cut into segments, and delivered to a HAProxyProtocolWrapper around a
recording protocol on an in-memory transport.  Delivery stops once the
transport has been asked to close (a real transport stops reading then).

Oracle
  valid header   : never closed, the application receives exactly the payload,
                   getPeer/getHost at every dataReceived and at the end are the
                   header's addresses (UNKNOWN/LOCAL/UNSPEC: the transport's own).
  invalid stream : closed by the end of the stream, zero bytes forwarded, no
                   exception out of dataReceived (includes a v1 line with no CRLF
                   within its first 107 bytes).
  several connections: other connections of the same factory that are in
                   mid-header (or past it) while a connection is served see exactly
                   their own header and payload (no state shared between them).  Only mutations that are
                   invalid under every reading of the specification are in this
                   class.
  gray stream    : inputs the specification calls invalid but which twisted's
                   own tests accept on purpose or a lenient receiver may accept
                   (unspecified family/protocol nibble combinations, address
                   text / port range, trailing fields): either
                   outcome is accepted, but it has to be the same for whole and
                   segmented delivery, accepted streams must forward exactly the
                   payload, and nothing may raise.
"""
import ipaddress
import itertools
import struct

from hypothesis import strategies as st

from lib.core import hyp_run, enumerate_run
from lib import harness

META = dict(
    property="C47",
    level="exploration",
    technique="spec-written header encoder + segmentation metamorphic driver over HAProxyProtocolWrapper on an in-memory transport; all 1-cuts of 13 representative headers and all 2-cuts of the short ones, Hypothesis headers/payloads/cuts/mutations",
    level_text="13 representative v1/v2 headers (TCP4, TCP6, UNKNOWN with and without tail, line of exactly 107 bytes; v2 INET/INET6/UNIX x STREAM/DGRAM, UNSPEC, LOCAL, TLVs) are delivered with every single cut of header region + 2 bytes and every pair of cuts for the headers of <= 110 bytes (quick) / all 13 (thorough); Hypothesis generates random headers of every family with random payloads (including payloads that look like headers) and random cuts, 20 classes of mutated headers and non-header streams. Every ordered pair of the representative headers is also run as two connections of one factory, one waiting in mid-header while the other is served (state must not be shared between connections); Hypothesis adds 0-2 such waiting connections to any case. Segmentations are sampled for long headers; the byte-level fuzzing campaign (atheris) mentioned in DESIGN §4 is not run.",
    level_note="The header encoder and the address comparison (ipaddress module) are the trusted base. Delivery stops when the transport is asked to close; twisted.internet.testing.StringTransport is the transport double. Addresses are compared by value (any textual form of the same IP is accepted).",
    design_ref="§5 C47",
    rule="case = (header description, mutation or none, payload, cuts, other connections of the same factory with the number of bytes each received first). non-trivial = a valid header with a non-empty payload and a cut strictly inside the header region, or a mutated/non-header stream, or a case with a second connection; distinct by (stream bytes, effective cut set, other connections).",
)

SIG = b"\r\n\r\n\x00\r\nQUIT\n"
FAM = dict(UNSPEC=0, INET=1, INET6=2, UNIX=3)
PROTO = dict(UNSPEC=0, STREAM=1, DGRAM=2)
ADDRLEN = dict(INET=12, INET6=36, UNIX=216)

HOST = ("10.9.8.7", 4321)
PEER = ("10.1.2.3", 1234)


# -- encoder (written from the PROXY protocol specification) -------------------

def enc_v1(h, mut):
    proto = h["proto"].encode()
    fields = None
    if h["proto"] == "UNKNOWN":
        rest = h.get("tail", b"")
    else:
        fields = [h["src"].encode(), h["dst"].encode(), str(h["sport"]).encode(), str(h["dport"]).encode()]
    head = b"PROXY "
    crlf = b"\r\n"
    if mut:
        m = mut[0]
        if m == "sig":
            head = head[:mut[1]] + bytes([mut[2]]) + head[mut[1] + 1:]
        elif m == "proto":
            proto = mut[1]
        elif m == "dropfields":
            fields = fields[:4 - mut[1]]
        elif m in ("port", "bigport", "oddport"):
            fields[2 + mut[1]] = mut[2] if isinstance(mut[2], bytes) else str(mut[2]).encode()
        elif m in ("addrbytes", "badip"):
            fields[mut[1]] = mut[2] if isinstance(mut[2], bytes) else mut[2].encode()
        elif m == "extrafield":
            fields = fields + [mut[1]]
        elif m == "doublespace":
            fields[mut[1]] = b" " + fields[mut[1]]
        elif m == "nocrlf":
            crlf = b""
        elif m == "overlong":
            pass
        else:
            raise AssertionError(m)
    if fields is not None:
        rest = b"".join(b" " + f for f in fields)
    line = head + proto + rest
    if mut and mut[0] == "overlong":
        line = line + b" " + b"y" * max(0, mut[1] - 2 - len(line) - 1)
    if mut and mut[0] == "nocrlf":
        line = line + b"z" * max(0, mut[1] - len(line))
    return line + crlf


def pack_addr(fam, text):
    if fam == "INET":
        return ipaddress.IPv4Address(text).packed
    return ipaddress.IPv6Address(text).packed


def enc_v2(h, mut):
    sig = SIG
    ver, cmd = 2, dict(LOCAL=0, PROXY=1)[h["cmd"]]
    if h["cmd"] == "LOCAL" and "fp" in h:
        fp = h["fp"]
    else:
        fp = FAM[h["fam"]] << 4 | PROTO[h["proto"]]
    fam = h.get("fam", "UNSPEC")
    if fam in ("INET", "INET6"):
        block = pack_addr(fam, h["src"]) + pack_addr(fam, h["dst"]) + struct.pack("!HH", h["sport"], h["dport"])
    elif fam == "UNIX":
        block = h["src"].ljust(108, b"\0") + h["dst"].ljust(108, b"\0")
    else:
        block = h.get("extra", b"")
    for t, v in h.get("tlvs", []):
        block += bytes([t]) + struct.pack("!H", len(v)) + v
    if mut:
        m = mut[0]
        if m == "sig":
            sig = sig[:mut[1]] + bytes([mut[2]]) + sig[mut[1] + 1:]
        elif m == "ver":
            ver = mut[1]
        elif m == "cmd":
            cmd = mut[1]
        elif m == "fam":
            fp = mut[1] << 4 | (fp & 15)
        elif m == "protonib":
            fp = (fp & 0xF0) | mut[1]
        elif m == "shortlen":
            block = block[:mut[1]]
        elif m == "combo":
            fp = mut[1]
        else:
            raise AssertionError(m)
    return sig + bytes([ver << 4 | cmd, fp]) + struct.pack("!H", len(block)) + block


def encode(h, mut):
    if h["v"] == 0:
        return h["raw"]
    return enc_v1(h, mut) if h["v"] == 1 else enc_v2(h, mut)


CLEAR_INVALID = {"sig", "proto", "dropfields", "port", "addrbytes", "doublespace", "nocrlf", "overlong",
                 "ver", "cmd", "fam", "protonib", "shortlen"}
GRAY = {"bigport", "oddport", "badip", "extrafield", "combo"}


def classify(h, mut):
    if h["v"] == 0:
        return "invalid"
    if not mut:
        return "valid"
    if h["v"] == 1 and len(enc_v1(h, mut)) > 107:
        return "invalid"      # no CRLF within the first 107 bytes: "must fail" per the specification
    return "invalid" if mut[0] in CLEAR_INVALID else "gray"


def expected_addrs(h):
    """-> None (transport's own addresses) or (src, dst) descriptions."""
    if h["v"] == 1:
        if h["proto"] == "UNKNOWN":
            return None
        cls = "IPv4" if h["proto"] == "TCP4" else "IPv6"
        return ((cls, "TCP", ipaddress.ip_address(h["src"]), h["sport"]),
                (cls, "TCP", ipaddress.ip_address(h["dst"]), h["dport"]))
    if h["cmd"] == "LOCAL" or h["fam"] == "UNSPEC" or h["proto"] == "UNSPEC":
        return None
    if h["fam"] == "UNIX":
        return (("UNIX", h["src"]), ("UNIX", h["dst"]))
    cls = "IPv4" if h["fam"] == "INET" else "IPv6"
    typ = "TCP" if h["proto"] == "STREAM" else "UDP"
    return ((cls, typ, ipaddress.ip_address(h["src"]), h["sport"]),
            (cls, typ, ipaddress.ip_address(h["dst"]), h["dport"]))


def addr_matches(got, want):
    from twisted.internet import address
    if want[0] == "UNIX":
        return isinstance(got, address.UNIXAddress) and got.name == want[1]
    cls = address.IPv4Address if want[0] == "IPv4" else address.IPv6Address
    if not isinstance(got, cls) or got.type != want[1] or got.port != want[3]:
        return False
    try:
        return ipaddress.ip_address(got.host) == want[2]
    except (ValueError, TypeError):
        return False


# -- driver ---------------------------------------------------------------------

class _Conn:
    """One connection to the wrapping factory, on its own in-memory transport."""

    def __init__(self, factory):
        from twisted.internet import address
        from twisted.internet.testing import StringTransport
        self.events = events = []
        self.p = factory.buildProtocol(address.IPv4Address("TCP", *PEER))
        self.p.wrappedProtocol.events = events
        self.t = StringTransport(hostAddress=address.IPv4Address("TCP", *HOST),
                                 peerAddress=address.IPv4Address("TCP", *PEER))
        self.p.makeConnection(self.t)
        self.fed = 0
        self.exc = None

    def feed(self, segs):
        for s in segs:
            if self.t.disconnecting or self.exc:
                break
            try:
                self.p.dataReceived(s)
            except Exception as e:  # always reported as a violation by check_exc(), never dropped
                tb, where = e.__traceback__, "?"
                while tb is not None:
                    where = tb.tb_frame.f_code.co_filename.rsplit("/", 1)[-1] + ":" + tb.tb_frame.f_code.co_name
                    tb = tb.tb_next
                self.exc = (type(e).__name__, where, repr(e)[:200], isinstance(e, ValueError))
                break
            self.fed += 1

    def outcome(self):
        return dict(closed=bool(self.t.disconnecting), received=b"".join(e[0] for e in self.events), exc=self.exc,
                    events=self.events, peer=self.p.getPeer(), host=self.p.getHost(), fed=self.fed, written=self.t.value())


def deliver(segs, others=()):
    """Deliver segs to one connection.  `others` = [(stream, k)]: further connections to the
    same factory that have received only their first k bytes when the main connection's data
    arrives, and get the rest afterwards.  -> (main outcome, [other outcomes])"""
    from twisted.internet.protocol import Factory, Protocol
    from twisted.protocols.haproxy._wrapper import HAProxyWrappingFactory

    class Recorder(Protocol):
        events = None

        def dataReceived(self, data):
            self.events.append((bytes(data), self.transport.getPeer(), self.transport.getHost()))

    f = HAProxyWrappingFactory(Factory.forProtocol(Recorder))
    waiting = []
    for stream, k in others:
        c = _Conn(f)
        c.feed([stream[:k]])
        waiting.append(c)
    main = _Conn(f)
    main.feed(segs)
    for c, (stream, k) in zip(waiting, others):
        c.feed([stream[k:]])
    return main.outcome(), [c.outcome() for c in waiting]


def check_exc(ctx, case, kind, h, mut, out, how):
    """Nothing may be raised out of dataReceived, whatever the stream."""
    if out["exc"] is None:
        return
    name, where, text, is_value_error = out["exc"]
    cls = mut[0] if mut else ("nonheader" if h["v"] == 0 else "none")
    if (kind == "invalid" and h["v"] == 1 and cls in ("port", "doublespace", "addrbytes")
            and is_value_error and where == "_v1parser.py:parse"):
        ctx.violation("v1-invalid-field-conversion-raises", case,
                      f"{how}: {name} out of dataReceived ({text}) for an invalid v1 header (mutation {mut!r})")
    ctx.violation(f"{kind}-raises-{name}[v{h['v']}-{cls}]@{where}", case, f"{how}: {text}")


def check_valid(ctx, case, h, stream, hlen, payload, segs, out, how):
    from twisted.internet import address
    thr = 16 if h["v"] == 2 else 8
    if out["closed"]:
        if h["v"] == 1 and h["proto"] == "UNKNOWN" and not h.get("tail"):
            ctx.violation("v1-unknown-without-trailing-fields-rejected", case,
                          f"{how}: valid header {stream[:hlen]!r} closed the connection")
        if segs and len(segs[0]) < thr and out["received"] == b"" and out["fed"] == 1:
            ctx.violation("short-first-delivery-closes", case,
                          f"{how}: valid v{h['v']} header, first delivery of {len(segs[0])} bytes (< {thr}) closed the connection")
        ctx.violation(f"valid-header-closed[v{h['v']}]", case,
                      f"{how}: header {stream[:hlen]!r} segs={[len(s) for s in segs]} closed after {out['fed']} deliveries")
    if out["received"] != payload:
        r = out["received"]
        if len(r) > len(payload) and r.endswith(payload):
            sig = "header-bytes-forwarded"
        elif len(r) < len(payload):
            sig = "payload-bytes-lost"
        else:
            sig = "payload-corrupted"
        ctx.violation(sig, case, f"{how}: segs={[len(s) for s in segs]} application got {r!r}, payload was {payload!r}")
    want = expected_addrs(h)
    views = [(e[1], e[2], "at dataReceived") for e in out["events"]] + [(out["peer"], out["host"], "at end")]
    for peer, host, when in views:
        if want is None:
            ok = (peer == address.IPv4Address("TCP", *PEER) and host == address.IPv4Address("TCP", *HOST))
            fam = "fallback"
        else:
            ok = addr_matches(peer, want[0]) and addr_matches(host, want[1])
            fam = want[0][0]
        if not ok:
            ctx.violation(f"address-mismatch[{fam}]", case,
                          f"{how} {when}: getPeer()={peer!r} getHost()={host!r}, header says {want!r}")
    if out["written"]:
        ctx.violation("wrapper-wrote-bytes", case, f"{how}: {out['written']!r}")


def run_case(ctx, case):
    h, mut, payload = case["hdr"], case.get("mut"), case["payload"]
    kind = classify(h, mut)
    header = encode(h, mut)
    if mut and mut[0] == "nocrlf":
        payload = b""
    hlen = len(header)
    stream = header + payload
    segs = [s for s in harness.apply_cuts(stream, case["cuts"]) if s]
    others = []
    for o in case.get("others", []):
        ostream = encode(o["hdr"], None) + o["payload"]
        others.append((ostream, 1 + o["k"] % (len(ostream) - 1)))
    whole, wothers = deliver([stream], others)
    seg, sothers = deliver(segs, others)
    check_exc(ctx, case, kind, h, mut, whole, "whole delivery")
    check_exc(ctx, case, kind, h, mut, seg, "segmented delivery")
    # connections that were waiting in mid-header while this one was served must be unaffected
    for how, outs in (("main delivered whole", wothers), ("main delivered segmented", sothers)):
        for i, (o, (ostream, k), out) in enumerate(zip(case.get("others", []), others, outs)):
            ohl = len(ostream) - len(o["payload"])
            desc = f"other connection {i} (first {k} of {ohl} header bytes before the main connection; {how})"
            check_exc(ctx, case, "valid", o["hdr"], None, out, desc)
            check_valid(ctx, case, o["hdr"], ostream, ohl, o["payload"], [ostream[:k], ostream[k:]], out, desc)
    for o, (ostream, k) in zip(case.get("others", []), others):
        ohl = len(ostream) - len(o["payload"])
        same = o["hdr"]["v"] == h["v"]
        ctx.count("connections: other connection waiting "
                  + ("in mid-header" if k < ohl else "after its header")
                  + (", same PROXY version as the main one" if same else ", other version")
                  + ("" if k < ohl and k >= (16 if o["hdr"]["v"] == 2 else 8) or k >= ohl else " (version not yet identifiable)"))
    label = ("v%d" % h["v"]) + (":" + (h.get("proto") if h["v"] == 1 else f"{h.get('cmd')}/{h.get('fam', '-')}/{h.get('proto', '-')}") if h["v"] else "")

    if kind == "valid":
        check_valid(ctx, case, h, stream, hlen, payload, [stream], whole, "whole delivery")
        check_valid(ctx, case, h, stream, hlen, payload, segs, seg, "segmented delivery")
        inner = [len(s) for s in segs]
        offs = set(itertools.accumulate(inner[:-1]))
        cut_in_header = any(0 < o < hlen for o in offs)
        ctx.count("valid " + label)
        if cut_in_header:
            ctx.count("valid: cut inside header")
        if h["v"] == 1 and (hlen - 1) in offs:
            ctx.count("valid: cut between CR and LF")
        if hlen in offs:
            ctx.count("valid: cut exactly at header end")
        if h.get("tlvs"):
            ctx.count("valid: v2 with TLVs")
        if payload[:5] == b"PROXY" or payload[:4] == SIG[:4]:
            ctx.count("valid: payload looks like a header")
        if case.get("others"):
            ctx.nontrivial((stream, sorted(offs), others))
        if payload and cut_in_header:
            ctx.nontrivial((stream, sorted(offs)))
            if len(offs) >= 2:
                ctx.sample(case)
    elif kind == "invalid":
        cls = mut[0] if mut else "nonheader"
        if h["v"] == 1 and hlen > 107:
            cls = "overlong"
        for how, out, ss in (("whole", whole, [stream]), ("segmented", seg, segs)):
            if out["received"]:
                ctx.violation(f"invalid-bytes-forwarded[v{h['v']}-{cls}]", case,
                              f"{how}: stream {stream!r} segs={[len(s) for s in ss]}: application got {out['received']!r}")
            if not out["closed"]:
                ctx.violation(f"invalid-not-closed[v{h['v']}-{cls}]", case,
                              f"{how}: stream {stream!r} segs={[len(s) for s in ss]}: connection still open")
        ctx.count(f"invalid v{h['v']}-{cls}")
        ctx.nontrivial((stream, [len(s) for s in segs]))
    else:
        cls = mut[0]
        if h["v"] == 1 and hlen > 107:
            cls = "overlong"        # whatever made the line longer than 107 bytes, this is the deciding feature
        for how, out in (("whole", whole), ("segmented", seg)):
            if not out["closed"] and out["received"] != payload:
                ctx.violation(f"gray-accepted-payload-mismatch[v{h['v']}-{cls}]", case,
                              f"{how}: application got {out['received']!r}, payload {payload!r}")
            if out["closed"] and out["received"]:
                ctx.violation(f"gray-closed-after-forwarding[v{h['v']}-{cls}]", case,
                              f"{how}: application got {out['received']!r}")
        if whole["closed"] != seg["closed"]:
            thr = 16 if h["v"] == 2 else 8
            if seg["closed"] and len(segs[0]) < thr and seg["fed"] == 1:
                ctx.violation("short-first-delivery-closes", case,
                              f"gray header accepted whole, first delivery of {len(segs[0])} bytes closed the connection")
            ctx.violation(f"outcome-depends-on-segmentation[v{h['v']}-{cls}]", case,
                          f"stream {stream[:hlen]!r}+payload: whole delivery closed={whole['closed']}, "
                          f"segs={[len(s) for s in segs]} closed={seg['closed']}")
        ctx.count(f"gray v{h['v']}-{cls}: " + ("closed" if whole["closed"] else "accepted"))
        ctx.nontrivial((stream, [len(s) for s in segs]))


# -- generation -------------------------------------------------------------------

V6 = "2001:db8:85a3::8a2e:370:7334"
REPRESENTATIVE = [
    dict(v=1, proto="TCP4", src="192.168.0.1", dst="10.0.0.255", sport=56324, dport=443),
    dict(v=1, proto="TCP6", src=V6, dst="::1", sport=1, dport=65535),
    dict(v=1, proto="TCP6", src="ffff:ffff:ffff:ffff:ffff:ffff:ffff:ffff", dst="FFFF:0000:0000:0000:0000:0000:0000:FFFF",
         sport=65535, dport=65535),
    dict(v=1, proto="UNKNOWN", tail=b""),
    dict(v=1, proto="UNKNOWN", tail=b" ffff::1 1.2.3.4 x y"),
    dict(v=1, proto="UNKNOWN", tail=b" " + b"u" * (107 - 2 - len(b"PROXY UNKNOWN") - 1)),
    dict(v=2, cmd="PROXY", fam="INET", proto="STREAM", src="1.2.3.4", dst="250.0.13.10", sport=80, dport=256),
    dict(v=2, cmd="PROXY", fam="INET", proto="DGRAM", src="0.0.0.0", dst="255.255.255.255", sport=0, dport=65535,
         tlvs=[[1, b"h2"], [0x20, b"\x00" * 5]]),
    dict(v=2, cmd="PROXY", fam="INET6", proto="STREAM", src=V6, dst="::", sport=8080, dport=9),
    dict(v=2, cmd="PROXY", fam="UNIX", proto="STREAM", src=b"/var/run/src.sock", dst=b"d" * 108),
    dict(v=2, cmd="PROXY", fam="UNSPEC", proto="UNSPEC", extra=b"\x01\x02\x03"),
    dict(v=2, cmd="LOCAL", fam="UNSPEC", proto="UNSPEC", fp=0),
    dict(v=2, cmd="LOCAL", fam="UNSPEC", proto="UNSPEC", fp=0x11, extra=b"\x7f\x00\x00\x01" * 3),
]
ENUM_PAYLOAD = b"hello\r\nPROXY world"


def enum_cases(pairs_below):
    for h in REPRESENTATIVE:
        n = len(encode(h, None))
        yield dict(hdr=h, mut=None, payload=ENUM_PAYLOAD, cuts="whole")
        yield dict(hdr=h, mut=None, payload=ENUM_PAYLOAD, cuts="bytewise")
        yield dict(hdr=h, mut=None, payload=b"", cuts=[n - 1])
        for c in range(1, n + 3):
            yield dict(hdr=h, mut=None, payload=ENUM_PAYLOAD, cuts=[c])
        if n <= pairs_below:
            for a, b in itertools.combinations(range(1, n + 3), 2):
                yield dict(hdr=h, mut=None, payload=ENUM_PAYLOAD, cuts=[a, b])


def enum_pairs():
    """Two connections on one factory: the other one is in mid-header (or just past it) while the
    main connection is served.  Every ordered pair of representative headers."""
    for h in REPRESENTATIVE:
        n = len(encode(h, None))
        for o in REPRESENTATIVE:
            on = len(encode(o, None))
            for k in sorted({5, 8, 12, 16, 20, on - 1, on, on + 3}):
                if 0 < k <= on + 3:
                    for cuts in ("whole", [min(20, n - 1)]):
                        yield dict(hdr=h, mut=None, payload=ENUM_PAYLOAD, cuts=cuts,
                                   others=[dict(hdr=o, payload=b"other\r\npayload", k=k - 1)])
    # an invalid main stream must not disturb a waiting connection either
    bad = [["proto", b"TCP5"], ["dropfields", 2], ["nocrlf", 120]]
    for o in REPRESENTATIVE:
        on = len(encode(o, None))
        for m in bad:
            for k in (9, 17, on - 1):
                if 0 < k < on:
                    yield dict(hdr=REPRESENTATIVE[0], mut=m, payload=b"x", cuts=[30],
                               others=[dict(hdr=o, payload=b"other", k=k - 1)])


def _ipv4():
    return st.one_of(
        st.integers(0, 2 ** 32 - 1).map(lambda n: str(ipaddress.IPv4Address(n))),
        st.sampled_from(["0.0.0.0", "255.255.255.255", "127.0.0.1", "1.1.1.1"]))


def _ipv6_text():
    def forms(n, f):
        a = ipaddress.IPv6Address(n)
        return [a.compressed, a.exploded, a.exploded.upper(), a.compressed.upper()][f]
    sparse = st.lists(st.sampled_from([0, 0, 0, 1, 0xffff, 0xdb8]), min_size=8, max_size=8).map(
        lambda g: sum(x << (16 * i) for i, x in enumerate(g)))
    return st.builds(forms, st.one_of(st.integers(0, 2 ** 128 - 1), sparse, st.sampled_from([0, 1, 2 ** 128 - 1])),
                     st.integers(0, 3))


def _port():
    return st.one_of(st.integers(0, 65535), st.sampled_from([0, 1, 80, 255, 256, 65535]))


def headers():
    v1_4 = st.builds(lambda s, d, sp, dp: dict(v=1, proto="TCP4", src=s, dst=d, sport=sp, dport=dp),
                     _ipv4(), _ipv4(), _port(), _port())
    v1_6 = st.builds(lambda s, d, sp, dp: dict(v=1, proto="TCP6", src=s, dst=d, sport=sp, dport=dp),
                     _ipv6_text(), _ipv6_text(), _port(), _port())

    def unk(t):
        t = t.replace(b"\r\n", b"\r.")     # same length: the line may not outgrow 107 bytes
        if t.endswith(b"\r"):
            t = t[:-1] + b"."
        return dict(v=1, proto="UNKNOWN", tail=(b" " + t) if t else b"")
    v1_u = st.one_of(st.binary(max_size=30), st.binary(min_size=88, max_size=91).map(lambda b: b[:91])).map(unk)
    tlvs = st.lists(st.tuples(st.integers(0, 255), st.one_of(st.binary(max_size=12), st.binary(min_size=200, max_size=400))).map(list),
                    max_size=3)
    v2_4 = st.builds(lambda p, s, d, sp, dp, t: dict(v=2, cmd="PROXY", fam="INET", proto=p, src=s, dst=d, sport=sp, dport=dp, tlvs=t),
                     st.sampled_from(["STREAM", "DGRAM"]), _ipv4(), _ipv4(), _port(), _port(), tlvs)
    v2_6 = st.builds(lambda p, s, d, sp, dp, t: dict(v=2, cmd="PROXY", fam="INET6", proto=p, src=s, dst=d, sport=sp, dport=dp, tlvs=t),
                     st.sampled_from(["STREAM", "DGRAM"]), _ipv6_text(), _ipv6_text(), _port(), _port(), tlvs)
    path = st.one_of(st.binary(max_size=108), st.binary(min_size=107, max_size=108),
                     st.sampled_from([b"", b"/tmp/sock", b"\xff\xfe"])).map(lambda b: b.replace(b"\0", b"/"))
    v2_u = st.builds(lambda p, s, d, t: dict(v=2, cmd="PROXY", fam="UNIX", proto=p, src=s, dst=d, tlvs=t),
                     st.sampled_from(["STREAM", "DGRAM"]), path, path, tlvs)
    v2_unspec = st.builds(lambda e: dict(v=2, cmd="PROXY", fam="UNSPEC", proto="UNSPEC", extra=e), st.binary(max_size=40))
    v2_local = st.builds(lambda fp, e: dict(v=2, cmd="LOCAL", fam="UNSPEC", proto="UNSPEC", fp=fp, extra=e),
                         st.one_of(st.sampled_from([0, 0x11, 0x12, 0x21, 0x22, 0x31, 0x32]), st.integers(0, 255)),
                         st.one_of(st.just(b""), st.binary(max_size=40)))
    return dict(v1_4=v1_4, v1_6=v1_6, v1_u=v1_u, v2_4=v2_4, v2_6=v2_6, v2_u=v2_u, v2_unspec=v2_unspec, v2_local=v2_local)


def payloads():
    return st.one_of(
        st.binary(max_size=40),
        st.sampled_from([b"", b"\r\n", b"x", b"PROXY TCP4 9.9.9.9 8.8.8.8 9 8\r\nrest", SIG + b"\x21\x11\x00\x0c" + b"\x09" * 12 + b"rest",
                         b"GET / HTTP/1.1\r\nHost: a\r\n\r\n", b"\x00" * 20]),
        st.binary(min_size=100, max_size=300))


def cuts_for(maxlen):
    maxlen = max(maxlen, 20)
    return st.one_of(
        st.just("bytewise"),
        st.lists(st.integers(1, maxlen), min_size=1, max_size=4),
        st.lists(st.integers(8, maxlen), min_size=1, max_size=6),
        st.lists(st.integers(16, maxlen), min_size=1, max_size=6))


def strategies():
    H = headers()
    any_hdr = st.one_of(*H.values())
    v1_tcp = st.one_of(H["v1_4"], H["v1_6"])
    v1_any = st.one_of(H["v1_4"], H["v1_6"], H["v1_u"])
    v2_addr = st.one_of(H["v2_4"], H["v2_6"], H["v2_u"])
    v2_any = st.one_of(H["v2_4"], H["v2_6"], H["v2_u"], H["v2_unspec"], H["v2_local"])
    v2_proxy = st.one_of(H["v2_4"], H["v2_6"], H["v2_u"], H["v2_unspec"])

    other = st.builds(lambda h, p, k: dict(hdr=h, payload=p, k=k), any_hdr, payloads(),
                      st.one_of(st.integers(0, 40), st.integers(0, 400)))
    others = st.one_of(st.just([]), st.just([]), st.lists(other, min_size=1, max_size=2))

    @st.composite
    def valid(draw):
        h = draw(any_hdr)
        n = len(encode(h, None))
        return dict(hdr=h, mut=None, payload=draw(payloads()), cuts=draw(cuts_for(n + 4)), others=draw(others))

    def mk(hs, ms):
        @st.composite
        def s(draw):
            h = draw(hs)
            m = ms(h) if callable(ms) else draw(ms)
            n = len(encode(h, m))
            return dict(hdr=h, mut=m, payload=draw(payloads()), cuts=draw(st.one_of(st.just("whole"), cuts_for(n + 4))),
                        others=draw(others))
        return s()

    other = lambda orig: st.integers(0, 255).filter(lambda b: b != orig)
    idx = st.integers(0, 1)
    muts = [
        # ---- invalid under every reading
        mk(v1_any, st.integers(0, 5).flatmap(lambda i: other(b"PROXY "[i]).map(lambda b: ["sig", i, b]))),
        mk(v1_any, st.sampled_from([b"TCP5", b"UDP4", b"tcp4", b"TCP", b"", b"UNKNOWNX", b"TCP46"]).map(lambda p: ["proto", p])),
        mk(v1_tcp, st.integers(1, 4).map(lambda k: ["dropfields", k])),
        mk(v1_tcp, st.tuples(idx, st.sampled_from([b"x", b"80a", b"0x50", b"", b"http", b"1e3", b"\xff"])).map(lambda t: ["port", t[0], t[1]])),
        mk(v1_tcp, st.tuples(idx, st.sampled_from([b"1.1.\xff.1", b"\xc3", b"::\xfe"])).map(lambda t: ["addrbytes", t[0], t[1]])),
        mk(v1_tcp, st.integers(0, 3).map(lambda i: ["doublespace", i])),
        mk(v1_any, st.sampled_from([108, 109, 120, 300]).map(lambda n: ["nocrlf", n])),
        mk(v2_any, st.integers(0, 11).flatmap(lambda i: other(SIG[i]).map(lambda b: ["sig", i, b]))),
        mk(v2_any, st.integers(0, 15).filter(lambda v: v != 2).map(lambda v: ["ver", v])),
        mk(v2_any, st.integers(2, 15).map(lambda c: ["cmd", c])),
        mk(v2_proxy, st.integers(4, 15).map(lambda f: ["fam", f])),
        mk(v2_proxy, st.integers(3, 15).map(lambda p: ["protonib", p])),
        mk(v2_addr, lambda h: ["shortlen", (ADDRLEN[h["fam"]] - 1) * 1]),
        mk(v2_addr, lambda h: ["shortlen", 0]),
        # ---- gray
        mk(v1_tcp, st.tuples(idx, st.sampled_from([65536, 70000, 99999999])).map(lambda t: ["bigport", t[0], t[1]])),
        mk(v1_tcp, st.tuples(idx, st.sampled_from([b"080", b"-1", b"+80", b"00"])).map(lambda t: ["oddport", t[0], t[1]])),
        mk(v1_tcp, st.tuples(idx, st.sampled_from(["999.1.1.1", "1.2.3", "::g", "01.2.3.4", "1.2.3.4.5", "host"])).map(lambda t: ["badip", t[0], t[1]])),
        mk(v1_tcp, st.sampled_from([b"extra", b"1", b""]).map(lambda e: ["extrafield", e])),
        mk(H["v1_u"].filter(lambda h: len(h["tail"]) < 60), st.sampled_from([108, 109, 130, 250, 400]).map(lambda n: ["overlong", n])),
        mk(v2_proxy, st.sampled_from([0x10, 0x20, 0x30, 0x01, 0x02]).map(lambda b: ["combo", b])),
    ]

    def nonheader(raw):
        for ref in (b"PROXY", SIG):
            k = min(len(raw), len(ref))
            if raw[:k] == ref[:k]:
                return None
        return raw
    garbage = st.one_of(st.binary(min_size=1, max_size=60),
                        st.sampled_from([b"GET / HTTP/1.1\r\n\r\n", b"PROXZ TCP4 1.1.1.1 2.2.2.2 1 2\r\n", b"\r\n\r\n\x00\r\nQUIT\r" + b"\x21\x11\x00\x0c" + b"\x01" * 12,
                                         b"proxy TCP4 1.1.1.1 2.2.2.2 1 2\r\n", b"\x16\x03\x01\x02\x00\x01\x00"])
                        ).map(nonheader).filter(lambda r: r is not None)
    nonhdr = st.builds(lambda r, c: dict(hdr=dict(v=0, raw=r), mut=None, payload=b"", cuts=c), garbage,
                       st.one_of(st.just("whole"), cuts_for(60)))
    return valid(), st.one_of(*muts), nonhdr


def run(ctx):
    enumerate_run(ctx, enum_cases(ctx.pick(110, 300)), run_case)
    ctx.extra["enumerated"] = ("13 representative headers: whole, bytewise and every single cut in 1..len(header)+2; "
                               f"every pair of cuts for headers of <= {ctx.pick(110, 300)} bytes")
    ctx.exhaustive = False
    if ctx.has_violation():
        return
    enumerate_run(ctx, enum_pairs(), run_case)
    ctx.extra["enumerated_connections"] = ("every ordered pair of the 13 representative headers as (main, other) connection of one "
                                           "factory, the other one having received 5, 8, 12, 16, 20, len-1, len, len+3 bytes first")
    if ctx.has_violation():
        return
    if ctx.thorough:
        ctx.shards(_hyp_shard, list(range(16)))
        return
    valid, mutated, nonhdr = strategies()
    hyp_run(ctx, valid, run_case, 1800, label="valid")
    if ctx.has_violation():
        return
    hyp_run(ctx, mutated, run_case, 1800, label="mutated")
    if ctx.has_violation():
        return
    hyp_run(ctx, nonhdr, run_case, 300, label="nonheader")


def _hyp_shard(sub, i):
    valid, mutated, nonhdr = strategies()
    hyp_run(sub, valid, run_case, 5000, label=f"valid{i}")
    if not sub.has_violation():
        hyp_run(sub, mutated, run_case, 5000, label=f"mutated{i}")
    if not sub.has_violation():
        hyp_run(sub, nonhdr, run_case, 1000, label=f"nonheader{i}")
