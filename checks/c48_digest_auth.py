"""C48 — HTTP Digest credentials accept exactly the right responses.

A case is a history on one DigestCredentialFactory (clock = _getTime owned by
the harness, secureRandom replaced by a deterministic stream taken from the
case): challenges issued to client addresses, clock advances, and client
responses.  The client side (RFC 2617 request-digest for qop=auth and for the
RFC 2069 form; MD5 / SHA-1 / MD5-sess) is implemented here with hashlib,
independently of twisted.cred._digest.  A response is built honestly from an
issued challenge and then *altered* in named ways (other password, other or
mutated nonce, swapped / re-timed / re-addressed / forged / byte-mutated
opaque, other client address, elapsed time, post-computation changes and
deletions of single fields, header truncation / garbage).

Oracle (from how the response was built, not from re-running twisted's math):
  * honest, unaltered, same address, elapsed <= lifetime-1  ->  decode succeeds
    and checkPassword(p) is True exactly for the password the client used;
  * a definite alteration (see _verdict)  ->  LoginFailed from decode or
    checkPassword(p) False for every candidate password;
  * alterations that do not change what the server is entitled to look at
    (base64-equivalent opaque, deleted qop, realm *field*, elapsed within one
    second of the lifetime, header-level damage)  ->  either, but a password
    the client did not use is never accepted;
  * nothing but LoginFailed may be raised by decode, nothing at all by
    checkPassword;
  * every decoded credentials object is judged through both public verification
    methods: checkPassword(password) and checkHash(H(username:realm:password))
    (IUsernameDigestHash, the path of a checker that stores hashes) -- the same
    verdict is required from both.
"""
import base64
import binascii
import hashlib

from hypothesis import strategies as st

from lib.core import hyp_run, enumerate_run
from lib import harness

META = dict(
    property="C48",
    level="exploration",
    technique="challenge/response histories against DigestCredentialFactory with owned clock and randomness; independent RFC 2617 client; catalogue of single alterations enumerated for every algorithm/form/route + Hypothesis histories with combined alterations",
    level_text="Every alteration of a ~70-entry catalogue (password, nonce, opaque content/signature/time/address/base64 bytes, address, elapsed time around the lifetime, change or deletion of each response field, header damage) is applied alone to an honest response for md5/sha/md5-sess x qop=auth/RFC2069 form x cred/web/guard route (guard = the whole login through twisted.web.guard.HTTPAuthSessionWrapper with a portal, the Authorization header's scheme part included); Hypothesis generates histories of up to 3 challenges and 3 responses with 0-3 combined alterations, random credentials/uris/cnonces and header layouts. Sampled, not exhaustive.",
    level_note="Trusted: hashlib, the client-side digest written here from RFC 2617, the description of the opaque layout (digest '-' base64(nonce,address,time)) used to forge altered opaques. Acceptance is judged from how the response was constructed. Values avoid '\"', control characters other than TAB and leading/trailing blanks (inner blanks, runs of blanks and TAB are generated) (the header grammar subset every client uses); quoted-pair escapes are not generated.",
    design_ref="§5 C48",
    rule="case = (algorithm, realm, key, route, ops); non-trivial = a response op that is honest (must be accepted) or carries at least one alteration; distinct by the whole response spec + elapsed time + addresses.",
)

LIFETIME = 15 * 60
T0 = 1_000_000_000
ADDRS = [b"10.0.0.1", "10.0.0.1", "10.0.0.2", None, "", "::1", b"10.0.0.10", "10.0.0.2"]
WEB_ADDRS = [1, 2, 5, 7]          # indexes usable through the web wrapper (str hosts)
ALGOS = ["md5", "sha", "md5-sess"]


def norm_addr(a):
    if not a:
        return b""
    return a.encode("ascii") if isinstance(a, str) else a


# -- independent client side ------------------------------------------------------

def _h(algo, data):
    fn = hashlib.sha1 if algo == "sha" else hashlib.md5
    return binascii.hexlify(fn(data).digest())


def client_digest(algo, user, realm, pw, nonce, method, uri, form, nc, cnonce, qop):
    ha1 = _h(algo, user + b":" + realm + b":" + pw)
    if algo == "md5-sess":
        ha1 = _h(algo, ha1 + b":" + nonce + b":" + cnonce)
    ha2 = _h(algo, method + b":" + uri)
    if form == "auth":
        return _h(algo, b":".join([ha1, nonce, nc, cnonce, qop, ha2]))
    return _h(algo, b":".join([ha1, nonce, ha2]))


def lenient_b64(x):
    try:
        return base64.b64decode(x)
    except (binascii.Error, ValueError):
        return None


UNQUOTED = {"nc", "qop", "algorithm"}


def build_header(fields, order, style):
    names = [n for n in order if n in fields] + [n for n in fields if n not in order]
    parts = []
    for n in names:
        v = fields[n]
        if n in UNQUOTED and style.get("bare", True) and v and all(c in b"abcdefghijklmnopqrstuvwxyzABCDEFGHIJKLMNOPQRSTUVWXYZ0123456789-_." for c in v):
            parts.append(n.encode() + b"=" + v)
        else:
            parts.append(n.encode() + b'="' + v + b'"')
    sep = [b", ", b",", b",\r\n  ", b" , "][style.get("sep", 0)]
    return sep.join(parts)


# -- the oracle: what does this construction deserve -------------------------------

def _verdict(spec, issued, elapsed, same_addr):
    """-> (definite reasons, either reasons)"""
    definite, either = [], []
    if not same_addr:
        definite.append("other-address")
    if elapsed >= LIFETIME + 1:
        definite.append("expired")
    elif elapsed > LIFETIME - 1:
        either.append("lifetime-boundary")
    return definite, either


class _Req:
    def __init__(self, method, host):
        self.method = method
        self._host = host

    def getClientAddress(self):
        from twisted.internet import address
        cls = address.IPv6Address if ":" in self._host else address.IPv4Address
        return cls("TCP", self._host, 40000)


class _GuardReq(_Req):
    """What HTTPAuthSessionWrapper needs of a request."""

    def __init__(self, method, host, authorization):
        _Req.__init__(self, method, host)
        self._authorization = authorization
        self.prepath, self.postpath = [b"protected"], []

    def getHeader(self, name):
        return self._authorization if name.lower() == b"authorization" else None


def _make_guard(webfactory):
    """HTTPAuthSessionWrapper over a portal whose checker records the decoded credentials and
    lets the login succeed iff checkPassword(the password the client used) says so."""
    from zope.interface import implementer
    from twisted.cred.checkers import ICredentialsChecker
    from twisted.cred.credentials import IUsernameHashedPassword
    from twisted.cred.error import UnauthorizedLogin
    from twisted.cred.portal import IRealm, Portal
    from twisted.internet import defer
    from twisted.web.guard import HTTPAuthSessionWrapper
    from twisted.web.resource import IResource, Resource

    @implementer(ICredentialsChecker)
    class Checker:
        credentialInterfaces = (IUsernameHashedPassword,)
        pw = None
        seen = ()

        def requestAvatarId(self, c):
            self.seen = self.seen + (c,)
            if c.checkPassword(self.pw):
                return defer.succeed(c.username)
            return defer.fail(UnauthorizedLogin())

    @implementer(IRealm)
    class Realm:
        def requestAvatar(self, avatarId, mind, *interfaces):
            return IResource, Resource(), lambda: None

    checker = Checker()
    return HTTPAuthSessionWrapper(Portal(Realm(), [checker]), [webfactory]), checker


def _through_guard(guard, method, from_addr, authorization, pw):
    """-> (verdict 'accepted'|'rejected'|'error500', credentials seen by the checker or None, logged failures)"""
    from twisted.web._auth.wrapper import UnauthorizedResource
    from twisted.web.util import DeferredResource
    wrapper, checker = guard
    checker.pw, checker.seen = pw, ()
    with harness.captured_log() as events:
        res = wrapper.getChildWithDefault(b"protected", _GuardReq(method, from_addr, authorization))
        if isinstance(res, DeferredResource):
            box = []
            res.d.addBoth(box.append)
            res = box[0] if box else None
    failures = [ev["log_failure"] for ev in events if ev.get("log_failure") is not None]
    if isinstance(res, UnauthorizedResource):
        verdict = "rejected"
    elif res is None or getattr(res, "code", None) == 500 or failures:
        verdict = "error500"
    else:
        verdict = "accepted"
    return verdict, (checker.seen[0] if checker.seen else None), failures


def _exc_name(e):
    t = type(e)
    return t.__name__ if t.__module__ == "builtins" else f"{t.__module__}.{t.__name__}"


def respond(ctx, case, fac, route, algo, realm, challenges, now, spec, guard=None):
    """One response op: build, alter, submit, judge."""
    from twisted.cred import error
    ch = challenges[spec["ch"] % len(challenges)]
    issued_nonce, issued_opaque = ch["challenge"]["nonce"], ch["challenge"]["opaque"]
    iss_digest, _, iss_b64 = issued_opaque.partition(b"-")
    iss_key = base64.b64decode(iss_b64)
    user, pw, method, uri = spec["user"], spec["pw"], spec["method"], spec["uri"]
    form = spec["form"]
    use_algo = spec.get("algo") or algo
    if use_algo == "md5-sess":
        form = "auth"
    nc, cnonce, qop = spec["nc"], spec["cnonce"], b"auth"
    nonce, opaque, use_realm = issued_nonce, issued_opaque, realm
    definite, either, header_level = [], [], []
    alts = spec.get("alter", [])
    HEX = b"0123456789abcdef"

    # -- alterations of what the client believes the challenge was (before computing)
    compute_algo = use_algo
    for a in alts:
        k = a[0]
        if k == "nonce-other":
            nonce = challenges[a[1] % len(challenges)]["challenge"]["nonce"]
        elif k == "nonce-mut":
            i = a[1] % len(nonce)
            nonce = nonce[:i] + HEX[(HEX.index(nonce[i:i + 1]) + 1 + a[2] % 15) % 16:][:1] + nonce[i + 1:]
        elif k == "realm-pre":
            use_realm = a[1]
        elif k == "algo-pre" and not (a[1] == "md5-sess" and form != "auth"):
            compute_algo = a[1]          # client computes with another algorithm than it announces
    response = client_digest(compute_algo, user, use_realm, pw, nonce, method, uri, form, nc, cnonce, qop)
    fields = dict(username=user, realm=use_realm, nonce=nonce, uri=uri, response=response, opaque=opaque)
    if spec.get("send_algo", True) or use_algo != "md5":
        fields["algorithm"] = use_algo.encode()
    if form == "auth":
        fields.update(qop=qop, nc=nc, cnonce=cnonce)
    computed = dict(fields)

    # -- alterations of the opaque
    for a in alts:
        k = a[0]
        new = None
        if k == "opaque-other":
            new = challenges[a[1] % len(challenges)]["challenge"]["opaque"]
        elif k == "opaque-hex":
            i = a[1] % len(iss_digest)
            new = iss_digest[:i] + HEX[(HEX.index(iss_digest[i:i + 1]) + 1 + a[2] % 15) % 16:][:1] + iss_digest[i + 1:] + b"-" + iss_b64
        elif k == "opaque-retime":
            n_, ip_, t_ = iss_key.split(b",")
            new = iss_digest + b"-" + base64.b64encode(b",".join([n_, ip_, b"%d" % (int(t_) + a[1])]))
        elif k == "opaque-readdr":
            n_, ip_, t_ = iss_key.split(b",")
            new = iss_digest + b"-" + base64.b64encode(b",".join([n_, norm_addr(ADDRS[a[1] % len(ADDRS)]), t_]))
        elif k == "opaque-renonce":
            n_, ip_, t_ = iss_key.split(b",")
            new = iss_digest + b"-" + base64.b64encode(b",".join([fields["nonce"], ip_, t_]))
        elif k == "opaque-forge":
            new = binascii.hexlify(hashlib.md5(iss_key + a[1]).digest()) + b"-" + iss_b64
        elif k == "opaque-b64":
            op, i, c = a[1], a[2] % max(1, len(iss_b64)), a[3]
            if op == "del":
                nb = iss_b64[:i] + iss_b64[i + 1:]
            elif op == "ins":
                nb = iss_b64[:i] + c + iss_b64[i:]
            elif op == "rep":
                nb = iss_b64[:i] + c + iss_b64[i + 1:]
            elif op == "trunc":
                nb = iss_b64[:i]
            else:
                nb = iss_b64 + c
            new = iss_digest + b"-" + nb
        elif k == "opaque-raw":
            new = a[1]
        if new is not None:
            fields["opaque"] = new

    # -- alterations after the digest was computed
    for a in alts:
        k = a[0]
        if k == "field-del" and a[1] in fields:
            del fields[a[1]]
        elif k == "field-set" and a[1] in fields:
            fields[a[1]] = a[2]
        elif k == "field-char" and a[1] in fields and fields[a[1]]:
            name = a[1]
            v = fields[name]
            i = a[2] % len(v)
            alphabet = HEX if name in ("response", "nonce") else b"0123456789abcdefghijklmnopqrstuvwxyz"
            old = v[i:i + 1].lower()
            j = alphabet.index(old) if old in alphabet else -1
            fields[name] = v[:i] + alphabet[(j + 1 + a[3] % (len(alphabet) - 1)) % len(alphabet):][:1] + v[i + 1:]

    # -- verdict from the final state of what is sent vs. what was issued / computed
    orig_ch = ch
    for other in challenges:
        # nonce and opaque both swapped for those of one other challenge = an honest answer to that one
        if (other is not ch and fields.get("nonce") == other["challenge"]["nonce"]
                and fields.get("opaque") == other["challenge"]["opaque"]):
            ch = other
            issued_nonce, issued_opaque = ch["challenge"]["nonce"], ch["challenge"]["opaque"]
            iss_digest, _, iss_b64 = issued_opaque.partition(b"-")
            iss_key = base64.b64decode(iss_b64)
            break
    if use_realm != realm:
        definite.append("digest-over-other-realm")
    for name in ("username", "uri", "response") + (("nc", "cnonce") if form == "auth" else ()):
        if name not in fields or not fields[name]:
            definite.append(name + "-missing")
        elif fields[name] != computed[name]:
            definite.append(name + "-altered")
    if "nonce" not in fields:
        definite.append("nonce-missing")
    elif fields["nonce"] != issued_nonce:
        definite.append("nonce-altered")
    if "opaque" not in fields:
        definite.append("opaque-missing")
    elif fields["opaque"] != issued_opaque:
        d_, _, b_ = fields["opaque"].partition(b"-")
        if fields["opaque"].count(b"-") == 1 and d_ == iss_digest and lenient_b64(b_) == iss_key:
            either.append("opaque-reencoded-same-content")
        else:
            definite.append("opaque-altered")
    if form == "auth":
        if "qop" not in fields:
            either.append("qop-missing")
        elif fields["qop"] != b"auth":
            definite.append("qop-altered")
    final_algo = fields.get("algorithm", b"md5")
    if final_algo.lower() != compute_algo.encode():
        definite.append("algorithm-mismatch")
    elif final_algo.lower() != algo.encode():
        either.append("algorithm-not-the-challenged-one")
    elif final_algo != final_algo.lower():
        either.append("algorithm-case")
    if fields.get("realm") != realm:
        either.append("realm-field-altered")
    header = build_header(fields, spec.get("order", []), spec.get("style", {}))
    for a in alts:
        k = a[0]
        if k == "hdr-trunc":
            header = header[:a[1] % (len(header) + 1)]
            header_level.append(k)
        elif k == "hdr-garbage":
            header = a[1]
            header_level.append(k)
        elif k == "hdr-insert":
            i = a[1] % (len(header) + 1)
            header = header[:i] + a[2] + header[i:]
            header_level.append(k)
        elif k == "hdr-dup":
            header = header + b", " + a[1].encode() + b'="' + a[2] + b'"'
            header_level.append(k)

    from_addr = ADDRS[spec["from"] % len(ADDRS)] if spec.get("from") is not None else orig_ch["addr"]
    if route in ("web", "guard") and not isinstance(from_addr, str):
        from_addr = orig_ch["addr"]
    elapsed = now - ch["t"]
    d2, e2 = _verdict(spec, ch, elapsed, norm_addr(from_addr) == norm_addr(ch["addr"]))
    definite += d2
    either += e2

    # -- the Authorization header's scheme part (only the guard route sees it)
    scheme = b"Digest "
    if route == "guard":
        for a in alts:
            if a[0] == "auth-scheme":
                scheme = a[1]
        if scheme != b"Digest ":
            if scheme.lower().rstrip(b" \t") == b"digest" and scheme[-1:] in (b" ", b"\t"):
                # scheme names are case-insensitive; extra blanks / a TAB as separator are a leniency either way
                either.append("scheme-case-or-extra-blank")
            else:
                definite.append("scheme-altered")

    # -- submit
    creds, outcome, guard_verdict = None, None, None

    class _Logged(Exception):
        pass
    try:
        if route == "guard":
            guard_verdict, creds, failures = _through_guard(guard, method, from_addr, scheme + header, pw)
            if creds is None and failures:
                raise _Logged(failures[0].value)
            outcome = "decoded" if creds is not None else "loginfailed"
        elif route == "web":
            creds = fac.decode(header, _Req(method, from_addr))
            outcome = "decoded"
        else:
            creds = fac.decode(header, method, from_addr)
            outcome = "decoded"
    except error.LoginFailed:
        outcome = "loginfailed"
    except Exception as e:  # anything else is exactly what the property forbids; reported below
        if isinstance(e, _Logged):
            e = e.args[0]       # what the wrapper logged before answering 500
        name = _exc_name(e)
        tb, funcs = e.__traceback__, []
        while tb is not None:
            funcs.append(tb.tb_frame.f_code.co_name)
            tb = tb.tb_next
        if name == "binascii.Error" and funcs[-3:-1] == ["decode", "_verifyOpaque"] and funcs[-1] == "b64decode":
            ctx.violation("decode-binascii.Error-on-undecodable-opaque-base64", case,
                          f"decode({header!r}) raised {e!r}")
        if name == "UnicodeDecodeError" and funcs[-2:] == ["decode", "nativeString"] and any(c > 127 for c in header):
            ctx.violation("decode-UnicodeDecodeError-on-non-ascii-parameter-name", case,
                          f"decode({header!r}) raised {e!r}")
        site = "guard" if (route == "guard" and "decode" not in funcs) else "decode"
        ctx.violation(f"{site}-raises-{name}[{','.join(sorted(set(definite + either + header_level))) or 'honest'}]", case,
                      f"{site}({(scheme + header) if site == 'guard' else header!r}, {method!r}, {from_addr!r}) raised {e!r}")
    if outcome == "decoded" and creds is None:
        ctx.violation("decode-returned-None", case, f"decode({header!r}) returned None")

    tag = ",".join(sorted(set(definite))) or ("either:" + ",".join(sorted(set(either + header_level))) if (either or header_level) else "honest")
    cands = [pw] + [p for p in spec.get("others", [b"", b"wrong"]) if p != pw]

    def pre_ha1(p):
        # what a checker that stores H(username:realm:password) hands to checkHash (IUsernameDigestHash)
        al = creds.fields.get("algorithm", b"md5").lower()
        return _h("sha" if al == b"sha" else "md5", creds.username + b":" + realm + b":" + p)

    # the same verdict is required through both public verification methods
    for vname, pfx in (("checkPassword", ""), ("checkHash", "checkHash-")):
        for p in cands:
            if creds is None:
                got = False
            else:
                try:
                    got = creds.checkPassword(p) if vname == "checkPassword" else creds.checkHash(pre_ha1(p))
                except Exception as e:
                    name = _exc_name(e)
                    f = creds.fields
                    al = f.get("algorithm", b"md5").lower()
                    if vname == "checkPassword":
                        if name == "KeyError" and al not in (b"md5", b"sha", b"md5-sess"):
                            ctx.violation("checkPassword-KeyError-on-unknown-algorithm", case, f"{header!r}: {e!r}")
                        if name == "TypeError" and al in (b"md5", b"sha", b"md5-sess"):
                            if "uri" not in f:
                                ctx.violation("checkPassword-TypeError-on-missing-uri", case, f"{header!r}: {e!r}")
                            if al == b"md5-sess" and "cnonce" not in f:
                                ctx.violation("checkPassword-TypeError-on-md5-sess-without-cnonce", case, f"{header!r}: {e!r}")
                            if f.get("qop") == b"auth-int":
                                ctx.violation("checkPassword-TypeError-on-qop-auth-int", case, f"{header!r}: {e!r}")
                    ctx.violation(f"{vname}-raises-{name}[{tag}]", case,
                                  f"header {header!r}: {vname}({'hash of ' if pfx else ''}{p!r}) raised {e!r}")
                if got is not True and got is not False:
                    ctx.violation(f"{vname}-not-bool", case, f"{got!r}")
            if p != pw:
                if got:
                    ctx.violation(pfx + "accepts-password-the-client-did-not-use", case,
                                  f"header {header!r}: {vname}({'hash of ' if pfx else ''}{p!r}) is True, client used {pw!r}")
                continue
            if definite:
                if got:
                    ctx.violation(f"{pfx}accepted-despite[{','.join(sorted(set(definite)))}]", case,
                                  f"header {header!r} from {from_addr!r} elapsed {elapsed}: accepted by {vname}; "
                                  f"alterations {sorted(set(definite))}")
            elif not either and not header_level:
                if not got:
                    ctx.violation(f"{pfx}honest-response-rejected[{use_algo},{form}]", case,
                                  f"header {header!r} method {method!r} from {from_addr!r} elapsed {elapsed}: "
                                  f"{'LoginFailed' if creds is None else vname + ' False'}")
        if creds is not None:
            ctx.count(f"{vname}: verdict checked on decoded credentials, algorithm {use_algo}, "
                      + ("must-reject" if definite else "either" if (either or header_level) else "must-accept"))
    if route == "guard":
        # the verdict of the whole login, for the password the client used
        if guard_verdict == "error500":
            ctx.violation(f"guard-internal-error[{tag}]", case,
                          f"Authorization: {scheme + header!r}: HTTPAuthSessionWrapper answered 500 / logged a failure")
        if definite and guard_verdict == "accepted":
            ctx.violation(f"guard-accepted-despite[{','.join(sorted(set(definite)))}]", case,
                          f"Authorization: {scheme + header!r} from {from_addr!r} elapsed {elapsed}: login succeeded")
        if not definite and not either and not header_level and guard_verdict != "accepted":
            ctx.violation(f"guard-honest-response-rejected[{use_algo},{form}]", case,
                          f"Authorization: {scheme + header!r} method {method!r} from {from_addr!r} elapsed {elapsed}: 401")
        ctx.count("guard: login " + guard_verdict)
        if any((b"  " in v or b"\t" in v) for v in fields.values()):
            ctx.count("guard: a quoted value contains a run of blanks or a TAB, "
                      + ("must-reject" if definite else "either" if (either or header_level) else "must-accept"))
    if any((b"  " in v or b"\t" in v) for v in fields.values()):
        ctx.count("values: a quoted value contains a run of blanks or a TAB")
    # bookkeeping
    ctx.count("response: " + ("must-reject" if definite else "either" if (either or header_level) else "must-accept"))
    ctx.count(f"response: {use_algo}/{form}/{route}")
    for r in sorted(set(definite + either + header_level)):
        ctx.count("alteration: " + r.split(":")[0] + (":" + r.split(":")[1] if ":" in r else ""))
    ctx.count("outcome: " + outcome)
    if definite or either or header_level or alts == []:
        ctx.nontrivial((algo, route, spec, elapsed, repr(from_addr), repr(ch["addr"])))
    if len(set(definite)) >= 2:
        ctx.sample(case)
    return id(ch), ("must-reject" if definite else "either" if (either or header_level) else "must-accept"), sorted(set(definite))


def run_case(ctx, case):
    from twisted.cred import credentials
    algo, realm, route = case["algo"], case["realm"], case["route"]
    counter = [0]

    def det_random(n):
        counter[0] += 1
        out = b""
        i = 0
        while len(out) < n:
            out += hashlib.sha256(b"%d:%d:%d" % (case["rand"], counter[0], i)).digest()
            i += 1
        return out[:n]

    saved = credentials.secureRandom
    credentials.secureRandom = det_random
    try:
        guard = None
        if route in ("web", "guard"):
            from twisted.web._auth.digest import DigestCredentialFactory as WebFactory
            fac = WebFactory(algo.encode(), realm)
            inner = fac.digest
            if route == "guard":
                guard = _make_guard(fac)
        else:
            fac = inner = credentials.DigestCredentialFactory(algo.encode(), realm)
        inner.privateKey = case["key"]
        clock = [T0 + case.get("t0", 0)]
        inner._getTime = lambda: clock[0]
        challenges = []
        answered = set()
        for op in case["ops"]:
            if op[0] == "ch":
                addr = ADDRS[op[1] % len(ADDRS)]
                if route in ("web", "guard"):
                    addr = ADDRS[WEB_ADDRS[op[1] % len(WEB_ADDRS)]]
                    c = fac.getChallenge(_Req(b"GET", addr))
                else:
                    c = fac.getChallenge(addr)
                for k in ("nonce", "opaque", "qop", "algorithm", "realm"):
                    if k not in c:
                        ctx.violation("challenge-field-missing", case, f"{k} not in {c!r}")
                if c["realm"] != realm or c["algorithm"] != algo.encode():
                    ctx.violation("challenge-wrong-realm-or-algorithm", case, repr(c))
                if any(c["nonce"] == o["challenge"]["nonce"] for o in challenges):
                    ctx.violation("challenge-nonce-reused", case, repr(c))
                challenges.append(dict(challenge=c, addr=addr, t=clock[0]))
            elif op[0] == "adv":
                clock[0] += op[1]
            elif op[0] == "resp":
                if challenges:
                    cid, verdict, why = respond(ctx, case, fac, route, algo, realm, challenges, clock[0], op[1], guard)
                    if cid in answered:
                        ctx.count("history: response to a challenge already answered successfully: " + verdict
                                  + (" (expired only)" if why == ["expired"] else ""))
                    if verdict == "must-accept":
                        answered.add(cid)
            else:
                raise AssertionError(op)
    finally:
        credentials.secureRandom = saved


# -- generation ----------------------------------------------------------------------

def base_spec(**kw):
    d = dict(ch=0, user=b"bob", pw=b"s3cret", method=b"GET", uri=b"/private/x?a=1,b=2", form="auth",
             nc=b"00000001", cnonce=b"0a4f113b", alter=[], order=[], style={}, others=[b"", b"wrong", b"s3cret "])
    d.update(kw)
    return d


VALUE_SHAPES = [b"bob", b"john smith", b"john  smith", b"tab\tuser", b"a \t  b", b"x,y=z", b"semi;colon", b"\xc3\xa9  \xc3\xa8"]

CATALOGUE = [
    [],                                                     # honest
    [["nonce-other", 1]], [["nonce-mut", 0, 0]], [["nonce-mut", 23, 7]],
    [["realm-pre", b"other realm"]], [["algo-pre", "md5"]], [["algo-pre", "sha"]],
    [["opaque-other", 1]], [["opaque-hex", 0, 0]], [["opaque-hex", 31, 3]],
    [["opaque-retime", 1]], [["opaque-retime", 100000]], [["opaque-retime", -1]],
    [["opaque-readdr", 2]], [["opaque-readdr", 3]], [["opaque-readdr", 6]],
    [["opaque-forge", b""]], [["opaque-forge", b"guess"]],
    [["nonce-other", 1], ["opaque-renonce"]], [["nonce-mut", 3, 1], ["opaque-renonce"]],
    [["opaque-b64", "del", 0, b""]], [["opaque-b64", "del", 5, b""]], [["opaque-b64", "trunc", 8, b""]],
    [["opaque-b64", "trunc", 41, b""]], [["opaque-b64", "trunc", 42, b""]], [["opaque-b64", "trunc", 43, b""]],
    [["opaque-b64", "ins", 3, b"A"]], [["opaque-b64", "ins", 3, b"!"]], [["opaque-b64", "rep", 2, b"B"]],
    [["opaque-b64", "rep", 2, b"*"]], [["opaque-b64", "app", 0, b"="]], [["opaque-b64", "app", 0, b"A"]],
    [["opaque-b64", "app", 0, b"AAAA"]], [["opaque-b64", "app", 0, b"\n"]],
    [["opaque-raw", b""]], [["opaque-raw", b"-"]], [["opaque-raw", b"abc"]], [["opaque-raw", b"a-b-c"]],
    [["opaque-raw", b"0123456789abcdef0123456789abcdef-"]], [["opaque-raw", b"x-!!!!"]], [["opaque-raw", b"x-QUJD"]],
    [["opaque-raw", b"x-YSxiLGM="]], [["opaque-raw", b"x-YSxiLGMsZA=="]],
    [["field-del", "username"]], [["field-del", "realm"]], [["field-del", "nonce"]], [["field-del", "uri"]],
    [["field-del", "response"]], [["field-del", "opaque"]], [["field-del", "algorithm"]], [["field-del", "qop"]],
    [["field-del", "nc"]], [["field-del", "cnonce"]], [["field-del", "nc"], ["field-del", "cnonce"]],
    [["field-set", "username", b""]], [["field-set", "username", b"bobby"]], [["field-set", "response", b""]],
    [["field-set", "uri", b"/private/y"]], [["field-set", "uri", b""]], [["field-set", "qop", b"auth-int"]],
    [["field-set", "qop", b"none"]], [["field-set", "algorithm", b"sha-256"]], [["field-set", "algorithm", b""]],
    [["field-set", "algorithm", b"MD5"]], [["field-set", "algorithm", b"md5"]], [["field-set", "algorithm", b"sha"]],
    [["field-set", "algorithm", b"md5-sess"]], [["field-set", "nc", b"00000002"]], [["field-set", "nc", b""]],
    [["field-set", "cnonce", b""]], [["field-set", "realm", b"elsewhere"]], [["field-set", "nonce", b""]],
    [["field-char", "response", 0, 0]], [["field-char", "response", 31, 5]], [["field-char", "uri", 1, 0]],
    [["field-char", "username", 0, 0]], [["field-char", "nc", 7, 0]], [["field-char", "cnonce", 0, 0]],
    [["field-char", "nonce", 5, 2]], [["field-char", "opaque", 40, 0]], [["field-char", "realm", 0, 0]],
    [["hdr-trunc", 10]], [["hdr-trunc", 60]], [["hdr-trunc", 0]], [["hdr-garbage", b""]], [["hdr-garbage", b"="]],
    [["hdr-garbage", b"\xff\xfe=1, username=\"x\""]], [["hdr-garbage", b"username=\"bob\""]],
    [["hdr-garbage", b"username=\"bob\", opaque=\"a-b\", nonce=\"c\""]], [["hdr-insert", 0, b"\xe9=1, "]],
    [["hdr-dup", "response", b"0" * 32]], [["hdr-dup", "opaque", b"a-YQ=="]],
    # the scheme part of the Authorization header (seen by the twisted.web.guard route only)
    [["auth-scheme", b"digest "]], [["auth-scheme", b"DIGEST "]], [["auth-scheme", b"Digest  "]], [["auth-scheme", b""]],
    [["auth-scheme", b" "]], [["auth-scheme", b"Basic "]], [["auth-scheme", b"Digest"]], [["auth-scheme", b"Digest\t"]],
    [["auth-scheme", b"\t"]], [["auth-scheme", b"Digestx "]],
    [["auth-scheme", b" "], ["hdr-garbage", b""]], [["auth-scheme", b"   "], ["hdr-garbage", b"  "]], [["auth-scheme", b"\t"], ["hdr-garbage", b""]],
    [["auth-scheme", b"Digest "], ["hdr-garbage", b""]], [["auth-scheme", b"Digest "], ["hdr-garbage", b" "]],
]


def enum_cases():
    n = 0
    for algo in ALGOS:
        for form in ("auth", "legacy"):
            if algo == "md5-sess" and form == "legacy":
                continue
            for route in ("cred", "web", "guard"):
                for alter in CATALOGUE:
                    n += 1
                    spec = base_spec(form=form, alter=alter, send_algo=(n % 3 != 0))
                    yield dict(algo=algo, realm=b"test realm", key=b"0123456789ab", rand=n, route=route,
                               ops=[["ch", 0], ["ch", 2], ["adv", 5], ["resp", spec]])
                # shapes of quoted values (inner blanks, runs of blanks, TAB, separators) -- must arrive at the verifier unchanged
                for user in VALUE_SHAPES:
                    for uri in (b"/x", b"/a  b", b"/t\tab?q=1, r=2"):
                        for pwx in (b"s3cret", b"pass  word"):
                            n += 1
                            yield dict(algo=algo, realm=(b"test  realm" if n % 2 else b"r"), key=b"0123456789ab", rand=n, route=route,
                                       ops=[["ch", 1], ["adv", 3], ["resp", base_spec(form=form, user=user, uri=uri, pw=pwx,
                                                                                        cnonce=(b"c  n" if n % 3 == 0 else b"0a4f113b"))]])
                # environment alone: address and time
                for frm in range(len(ADDRS)):
                    for chaddr in (0, 2, 3):
                        yield dict(algo=algo, realm=b"r", key=b"k" * 12, rand=frm, route=route,
                                   ops=[["ch", chaddr], ["adv", 1], ["resp", base_spec(form=form, **{"from": frm})]])
                # two responses on one challenge: what the first one did must not change the verdict on the second
                firsts = [dict(), dict(pw=b"other pw"), {"from": 2}, dict(alter=[["opaque-hex", 3, 1]]), dict(alter=[["field-char", "response", 2, 1]])]
                seconds = [dict(), dict(pw=b"other pw"), {"from": 2}, dict(alter=[["opaque-retime", 5000]]), dict(alter=[["nonce-mut", 1, 1]]),
                           dict(alter=[["field-set", "uri", b"/elsewhere"]])]
                for fi, first in enumerate(firsts):
                    for dt in (0, LIFETIME - 2, LIFETIME + 2, 10 * LIFETIME):
                        for se, second in enumerate(seconds):
                            yield dict(algo=algo, realm=b"r", key=b"k" * 12, rand=fi * 7 + se, route=route,
                                       ops=[["ch", 1], ["adv", 1], ["resp", base_spec(form=form, **first)], ["adv", dt],
                                            ["resp", base_spec(form=form, **second)]])
                for dt in (0, 1, LIFETIME - 2, LIFETIME - 1, LIFETIME - 0.5, LIFETIME, LIFETIME + 0.5, LIFETIME + 1,
                           LIFETIME + 2, 10 * LIFETIME, 10 ** 9):
                    for t0 in (0, 0.75):
                        yield dict(algo=algo, realm=b"r", key=b"k" * 12, rand=7, route=route, t0=t0,
                                   ops=[["ch", 1], ["adv", dt], ["resp", base_spec(form=form)]])


CONFIGS = [(a, f, r) for a in ALGOS for f in ("auth", "legacy") for r in ("cred", "web", "guard") if not (a == "md5-sess" and f == "legacy")]


def pair_cases(config):
    """Every ordered pair of catalogue alterations on one configuration."""
    algo, form, route = config
    n = 0
    for a in CATALOGUE[1:]:
        for b in CATALOGUE[1:]:
            n += 1
            spec = base_spec(form=form, alter=a + b, others=[b"wrong"])
            yield dict(algo=algo, realm=b"test realm", key=b"0123456789ab", rand=n % 17, route=route,
                       ops=[["ch", 0], ["ch", 2], ["adv", 5], ["resp", spec]])


def _pair_shard(sub, config):
    enumerate_run(sub, pair_cases(tuple(config)), run_case)


def strategies():
    safe = st.characters(min_codepoint=33, max_codepoint=126, blacklist_characters='"\\')
    word = st.one_of(
        st.text(safe, min_size=1, max_size=8).map(lambda s: s.encode()),
        st.sampled_from([b"john  smith", b"tab\tuser", b"a \t  b"]),
        st.sampled_from([b"bob", b"a:b", b"x y", b"a,b=c", b"\xc3\xa9l\xc3\xa8ve", b"Mufasa", b"p=1, q=\"".replace(b'"', b"'")]))
    pw = st.one_of(word, st.sampled_from([b"", b"Circle Of Life", b":", b"pass:word"]))
    uri = st.one_of(st.sampled_from([b"/", b"/dir/index.html", b"/a?b=c,d=e", b"*", b"http://h/p?q=1", b"/a  b", b"/t\tx"]),
                    st.text(safe, min_size=1, max_size=12).map(lambda s: b"/" + s.encode()))
    hexs = st.text(st.sampled_from("0123456789abcdef"), min_size=1, max_size=16).map(lambda s: s.encode())
    fieldname = st.sampled_from(["username", "realm", "nonce", "uri", "response", "opaque", "algorithm", "qop", "nc", "cnonce"])
    small = st.integers(0, 63)
    b64c = st.sampled_from([b"A", b"B", b"=", b"!", b"-", b"z", b"/", b"+", b"\n", b" "])
    alteration = st.one_of(
        st.tuples(st.just("nonce-other"), small).map(list),
        st.tuples(st.just("nonce-mut"), small, small).map(list),
        st.tuples(st.just("realm-pre"), word).map(list),
        st.tuples(st.just("algo-pre"), st.sampled_from(ALGOS)).map(list),
        st.tuples(st.just("opaque-other"), small).map(list),
        st.tuples(st.just("opaque-hex"), small, small).map(list),
        st.tuples(st.just("opaque-retime"), st.one_of(st.integers(-10 ** 6, 10 ** 6), st.sampled_from([1, -1, LIFETIME, 10 ** 12]))).filter(lambda a: a[1] != 0).map(list),
        st.tuples(st.just("opaque-readdr"), small).map(list),
        st.just(["opaque-renonce"]),
        st.tuples(st.just("opaque-forge"), st.binary(max_size=12)).map(list),
        st.tuples(st.just("opaque-b64"), st.sampled_from(["del", "ins", "rep", "trunc", "app"]), small, b64c).map(list),
        st.tuples(st.just("opaque-raw"), st.one_of(st.binary(max_size=20), st.sampled_from([b"", b"-", b"a-b", b"a-b-c", b"x-YSxiLGM="]))).map(list),
        st.tuples(st.just("field-del"), fieldname).map(list),
        st.tuples(st.just("field-set"), fieldname,
                  st.one_of(word, hexs, st.sampled_from([b"", b"auth-int", b"auth", b"md5", b"MD5", b"sha", b"md5-sess", b"SHA-256", b"00000001"]))).map(list),
        st.tuples(st.just("field-char"), fieldname, small, small).map(list),
        st.tuples(st.just("hdr-trunc"), st.integers(0, 400)).map(list),
        st.tuples(st.just("hdr-garbage"), st.one_of(st.binary(max_size=60), st.sampled_from(
            [b"", b"=", b"a=", b"=b", b"\xff=1", b'username="x", opaque="\xff-\xff", nonce="1"', b'username="x",opaque="a-AAA",nonce="1"']))).map(list),
        st.tuples(st.just("hdr-insert"), st.integers(0, 400), st.one_of(st.binary(max_size=6), st.sampled_from([b'"', b",", b"=", b"\r\n", b"\xe9=1, "]))).map(list),
        st.tuples(st.just("hdr-dup"), fieldname, st.one_of(word, hexs)).map(list),
        st.tuples(st.just("auth-scheme"), st.sampled_from([b"digest ", b"DIGEST ", b"Digest  ", b"", b" ", b"  ", b"\t", b"Basic ", b"Digest",
                                                          b"Digest\t", b"Negotiate "])).map(list),
    )
    spec = st.builds(
        lambda ch, user, p, method, u, form, nc, cn, alter, order, bare, sep, frm, algo, send_algo, others: dict(
            ch=ch, user=user, pw=p, method=method, uri=u, form=form, nc=nc, cnonce=cn, alter=alter, order=order,
            style=dict(bare=bare, sep=sep), **({"from": frm} if frm is not None else {}), algo=algo, send_algo=send_algo, others=others),
        st.integers(0, 2), word, pw, st.sampled_from([b"GET", b"POST", b"INVITE", b"OPTIONS"]), uri,
        st.sampled_from(["auth", "auth", "legacy"]), hexs.map(lambda h: h.rjust(8, b"0")[:8]), st.one_of(hexs, word),
        st.one_of(st.just([]), st.lists(alteration, min_size=1, max_size=3)),
        st.permutations(["username", "realm", "nonce", "uri", "response", "opaque", "algorithm", "qop", "nc", "cnonce"]),
        st.booleans(), st.integers(0, 3), st.one_of(st.none(), st.none(), st.integers(0, len(ADDRS) - 1)),
        st.one_of(st.none(), st.none(), st.sampled_from(ALGOS)), st.booleans(),
        st.lists(pw, min_size=1, max_size=3))
    dt = st.one_of(st.integers(0, 2 * LIFETIME), st.sampled_from([0, 1, LIFETIME - 1, LIFETIME, LIFETIME + 1, 10 ** 7]),
                   st.floats(0, 2 * LIFETIME, allow_nan=False).map(lambda f: round(f, 2)),
                   st.integers(LIFETIME - 3, LIFETIME + 3))
    op = st.one_of(st.tuples(st.just("ch"), st.integers(0, len(ADDRS) - 1)).map(list),
                   st.tuples(st.just("adv"), dt).map(list),
                   st.tuples(st.just("resp"), spec).map(list),
                   st.tuples(st.just("resp"), spec).map(list))
    case = st.builds(
        lambda algo, realm, key, rand, route, t0, first, ops: dict(algo=algo, realm=realm, key=key, rand=rand, route=route,
                                                                    t0=t0, ops=[["ch", first]] + ops),
        st.sampled_from(ALGOS), word, st.binary(min_size=1, max_size=12), st.integers(0, 2 ** 32), st.sampled_from(["cred", "cred", "web", "guard", "guard"]),
        st.sampled_from([0, 0, 0.5, 0.99]), st.integers(0, len(ADDRS) - 1), st.lists(op, min_size=1, max_size=6))
    return case


def run(ctx):
    enumerate_run(ctx, enum_cases(), run_case)
    ctx.extra["enumerated"] = (f"{len(CATALOGUE)} single alterations + address/time grids for every algorithm x form x route; "
                               f"all ordered pairs of catalogue alterations for "
                               + ("every configuration" if ctx.thorough else "md5/auth/cred"))
    ctx.exhaustive = False
    if ctx.has_violation():
        return
    if ctx.thorough:
        ctx.shards(_pair_shard, [list(c) for c in CONFIGS])
        if ctx.has_violation():
            return
        ctx.shards(_hyp_shard, list(range(16)))
    else:
        enumerate_run(ctx, pair_cases(("md5", "auth", "cred")), run_case)
        if ctx.has_violation():
            return
        hyp_run(ctx, strategies(), run_case, 2000, label="histories")


def _hyp_shard(sub, i):
    hyp_run(sub, strategies(), run_case, 5000, label=f"histories{i}")
