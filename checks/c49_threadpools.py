"""C49 — twisted._threads.Team (memory workers, harness-owned schedule) and the real ThreadPool.

(a) Team + createMemoryWorker coordinator + instrumented memory workers.  A
    case is a list of operations {do ok/raise, grow, shrink, quit, set limit,
    step coordinator, step worker j}; the harness decides every interleaving.
    The oracle does not re-implement the team's algorithm: it is a set of
    invariants over what the harness itself observes (tasks run, workers
    created / given work / quit, refusals by the limiter), checked after every
    operation, whenever the coordinator is drained, and at quiescence.

(b) real twisted.python.threadpool.ThreadPool under OS scheduling: generated
    mixes of callInThread / callInThreadWithCallback / adjustPoolsize /
    startAWorker / stopAWorker / start,
    then stop().  Order-insensitive oracle only.
"""
import itertools
import os
import sys
import threading
import time

from hypothesis import strategies as st

from lib.core import hyp_run, enumerate_run, HarnessError, dumps

META = dict(
    property="C49",
    level="exploration",
    technique="(a) complete enumeration of small schedules + Hypothesis histories over the real Team with harness-stepped memory workers, invariant oracle on harness-observed events; (b) randomized histories on the real ThreadPool with real threads, order-insensitive exactly-once/onResult/stop-joins oracle",
    level_text="(a) every history up to depth 5 (quick; 6 thorough) over an 11-letter alphabet for initial limits 1 and 2, one less for unlimited (histories whose step operations have nothing to step are pruned as equivalent to shorter ones), plus random histories of up to 60 operations with up to 6 workers; (b) a few hundred (thorough: thousands) generated ThreadPool histories with real threads; the OS schedules these, so (b) is exploration under scheduling noise. No TLA+ model: the quantifier's model checking is replaced by schedule enumeration on the real objects.",
    level_note="(a) trusts createMemoryWorker/MemoryWorker as the stepping device and the harness's own event log; the team is built by the real _pool.pool() so its limitedWorkerCreator is the limiter under test (only the module-level names LockWorker/ThreadWorker/err of _pool are replaced by harness-stepped doubles for the duration of a case), and the harness independently counts live workers at every creation. (b) the creation-time check reads ThreadPool.workers/max from inside the thread factory (coordinator context on the submitting thread), i.e. it trusts the team's statistics that layer (a) cross-checks. (b) cannot choose the interleaving; a watchdog turns a hang into exit 2.",
    design_ref="§5 C49",
    rule="(a) case = (initial limit, op list); non-trivial = a task waited in the backlog because the limiter refused a worker and later ran, or quit/shrink was coordinated while a worker was busy; (b) case = op list for the real pool; non-trivial = >=2 pool threads ran tasks and >=1 task raised and >=1 onResult was requested. Distinct by canonical JSON.",
)


class TaskError(Exception):
    pass


class TaskBaseError(BaseException):
    """A task may raise anything: this one is not an Exception subclass."""


def _raise_kind(k, kind):
    """kind 0: return; 1: raise an Exception subclass; 2: raise a BaseException
    that is not an Exception; 3: raise SystemExit."""
    if kind == 1:
        raise TaskError(f"task {k}")
    if kind == 2:
        raise TaskBaseError(f"task {k}")
    if kind == 3:
        raise SystemExit(f"task {k}")


_EXC_OF_KIND = {1: TaskError, 2: TaskBaseError, 3: SystemExit}


# ==========================================================================
# (a) Team with memory workers

class _W:
    """Instrumented worker: a MemoryWorker stepped by the harness."""

    def __init__(self, h, j):
        from twisted._threads import createMemoryWorker
        self.h = h
        self.j = j
        self.mw, self.perform = createMemoryWorker()
        self.out = 0           # work items given and not yet performed
        self.quits = 0
        self.given = 0

    def do(self, work):
        h = self.h
        if self.quits:
            h.viol("work-given-to-quit-worker", f"worker {self.j}")
        if self.out:
            h.viol("worker-given-second-task-while-busy", f"worker {self.j} already holds {self.out} item(s)")
        self.out += 1
        self.given += 1
        h.assigned += 1

        def item():
            try:
                work()
            except (TaskError, TaskBaseError, SystemExit) as e:
                h.viol("task-exception-escaped-the-team",
                       f"{type(e).__name__}({e}) raised by a task propagated out of the worker")
            finally:
                self.out -= 1
        self.mw.do(item)

    def quit(self):
        h = self.h
        if self.quits:
            h.viol("worker-quit-twice", f"worker {self.j}")
        if self.out:
            h.viol("busy-worker-quit", f"worker {self.j} was quit while holding {self.out} unperformed item(s)")
        if h.team.statistics().backloggedWorkCount > 0:
            # (the team's own backlog count is cross-checked against the
            # observed one whenever the coordinator is drained)
            h.viol("worker-quit-while-tasks-backlogged",
                   f"worker {self.j} quit with {h.team.statistics().backloggedWorkCount} task(s) waiting for a worker")
        self.quits += 1
        self.mw.quit()


class _TeamH:
    def __init__(self, ctx, case):
        from twisted._threads import createMemoryWorker, AlreadyQuit
        self.ctx, self.case = ctx, case
        self.AlreadyQuit = AlreadyQuit
        self.limit = case["limit"]
        self.workers = []
        self.assigned = 0
        self.accepted = []          # task ids accepted by do()
        self.runs = {}
        self.raises = {}
        self.refusals_at_submit = {}
        self.logged = 0
        self.flags = []
        self.quit_done = False
        self.coord, self.step_coord = createMemoryWorker()
        self.coord_quits = 0
        orig_quit = self.coord.quit

        def cq():
            self.coord_quits += 1
            orig_quit()
        self.coord.quit = cq
        # The team is built by the real twisted._threads._pool.pool(): its
        # limitedWorkerCreator is the limiter under test.  Only the module-level
        # worker classes are replaced (for the duration of the case, see
        # run_team) so that coordinator and workers are harness-stepped.
        self.attempts = 0
        from twisted._threads import _pool
        self.team = _pool.pool(self.current_limit, threadFactory=self.no_thread)
        self.cls = set()

    @property
    def refusals(self):
        return self.attempts - len(self.workers)

    def current_limit(self):
        self.attempts += 1
        if self.limit is not None and self.live() >= self.limit and any(
                not w.quits and not w.out for w in self.workers):
            self.cls.add("worker requested at the limit while idle workers exist (grow)")
        return self.limit if self.limit is not None else 10 ** 9

    def no_thread(self, **kw):
        raise HarnessError("memory workers start no threads")

    def viol(self, sig, detail):
        self.ctx.violation(sig, self.case, detail)

    def live(self):
        return sum(1 for w in self.workers if not w.quits)

    def log(self):
        self.logged += 1

    def new_worker(self, startThread=None, queue=None):
        """Stands in for ThreadWorker(startThread, queue): called by the real
        limitedWorkerCreator when it decides to create a worker."""
        lim = self.limit
        if lim is not None and self.live() >= lim:
            s = self.team.statistics()
            self.viol("worker-created-at-limit",
                      f"limit {lim}, {self.live()} live workers already exist (statistics: "
                      f"idle={s.idleWorkerCount} busy={s.busyWorkerCount})")
        w = _W(self, len(self.workers))
        self.workers.append(w)
        return w

    def mk_task(self, k, raises):
        def task():
            self.runs[k] += 1
            _raise_kind(k, int(raises))
        return task

    def coord_empty(self):
        p = self.coord._pending
        from twisted._threads._memory import NoMoreWork
        return not p or p[0] is NoMoreWork

    def expect_quit_state(self, fn, name):
        try:
            fn()
        except self.AlreadyQuit:
            return True
        return False

    # ---- operations --------------------------------------------------------
    def op(self, o):
        """returns False if the op was a no-op step (nothing to perform)."""
        name = o[0]
        t = self.team
        if name == "do":
            k = len(self.runs)
            self.runs[k] = 0
            self.raises[k] = bool(o[1])
            refused = self.expect_quit_state(lambda: t.do(self.mk_task(k, o[1])), "do")
            if refused != self.quit_done:
                self.viol("do-after-quit-not-refused" if self.quit_done else "do-refused-before-quit", f"task {k}")
            if not refused:
                self.accepted.append(k)
                self.refusals_at_submit[k] = self.refusals
            else:
                self.cls.add("do refused after quit")
        elif name == "grow":
            refused = self.expect_quit_state(lambda: t.grow(o[1]), "grow")
            if refused != self.quit_done:
                self.viol("grow-quit-state-mismatch", "")
        elif name == "shrink":
            refused = self.expect_quit_state(lambda: t.shrink(o[1]), "shrink")
            if refused != self.quit_done:
                self.viol("shrink-quit-state-mismatch", "")
            if any(w.out for w in self.workers):
                self.cls.add("shrink while a worker is busy")
        elif name == "quit":
            refused = self.expect_quit_state(t.quit, "quit")
            if refused != self.quit_done:
                self.viol("quit-quit-state-mismatch", "")
            if not self.quit_done and any(w.out for w in self.workers):
                self.cls.add("quit while a worker is busy")
            self.quit_done = True
        elif name == "lim":
            if self.limit == o[1]:
                return False
            self.limit = o[1]
        elif name == "c":
            if not self.step_coord():
                return False
        elif name == "w":
            if not self.workers or (self.case.get("prune") and o[1] >= len(self.workers)):
                return False
            w = self.workers[o[1] % len(self.workers)]
            if not w.perform():
                return False
        self.after()
        return True

    def after(self):
        for k, n in self.runs.items():
            if n > 1:
                self.viol("task-ran-twice", f"task {k} ran {n} times")
        if self.coord_empty():
            s = self.team.statistics()
            busy = sum(1 for w in self.workers if w.out)
            live = self.live()
            backlog = len(self.accepted) - self.assigned
            if (s.busyWorkerCount, s.idleWorkerCount, s.backloggedWorkCount) != (busy, live - busy, backlog):
                self.viol("statistics-disagree-with-observed",
                          f"statistics idle={s.idleWorkerCount} busy={s.busyWorkerCount} backlog={s.backloggedWorkCount}; "
                          f"observed idle={live - busy} busy={busy} backlog={backlog}")
            if backlog > 0 and live - busy > 0:
                self.viol("task-backlogged-while-worker-idle", f"backlog {backlog}, idle {live - busy}")
            if backlog > 0:
                self.cls.add("backlog")

    def quiescent(self):
        return self.coord_empty() and not any(w.out for w in self.workers)

    def drain(self):
        """Fair stepping to quiescence."""
        budget = 10 * (len(self.runs) + len(self.workers) + 10)
        while True:
            progressed = False
            while self.step_coord():
                progressed = True
                self.after()
            for w in list(self.workers):
                if w.perform():
                    progressed = True
                    self.after()
            if not progressed:
                break
            budget -= 1
            if budget < 0:
                self.viol("team-never-quiescent", "still stepping")
        if not self.quiescent():
            self.viol("work-stuck-in-quit-worker",
                      "stepping made no progress but work remains: "
                      + str([(w.j, w.out, w.quits) for w in self.workers if w.out]))

    def check_quiescent(self, stage):
        live = self.live()
        unrun = [k for k in self.accepted if self.runs[k] == 0]
        for k in unrun:
            if live > 0:
                self.viol("task-not-run-although-workers-live", f"{stage}: task {k}, {live} live workers")
            if self.refusals <= self.refusals_at_submit[k]:
                self.viol("task-not-run-without-refused-worker", f"{stage}: task {k}")
        if unrun:
            self.cls.add("task left un-run because no worker could be created")
        nraise = sum(1 for k in self.accepted if self.runs[k] and self.raises[k])
        if self.logged != nraise:
            self.viol("logException-count", f"{stage}: {self.logged} logged, {nraise} raising tasks ran")
        for k in self.runs:
            if k not in self.accepted and self.runs[k]:
                self.viol("refused-task-ran", f"task {k}")
        if self.quit_done:
            if live:
                self.viol("worker-alive-after-quit-at-quiescence",
                          f"{stage}: workers {[w.j for w in self.workers if not w.quits]} never quit")
            if self.coord_quits != 1:
                self.viol("coordinator-quit-count", f"{stage}: coordinator.quit() called {self.coord_quits} times")
        elif self.coord_quits:
            self.viol("coordinator-quit-before-team-quit", stage)


def run_team(ctx, case):
    from twisted._threads import _pool
    saved = (_pool.LockWorker, _pool.ThreadWorker, _pool.err)
    box = {}
    _pool.LockWorker = lambda lock, local: box["h"].coord
    _pool.ThreadWorker = lambda startThread, queue: box["h"].new_worker(startThread, queue)
    _pool.err = lambda *a, **kw: box["h"].log()
    try:
        box["h"] = _TeamH.__new__(_TeamH)
        box["h"].__init__(ctx, case)
        return _run_team(ctx, case, box["h"])
    finally:
        _pool.LockWorker, _pool.ThreadWorker, _pool.err = saved


def _run_team(ctx, case, h):
    for o in case["ops"]:
        if not h.op(o) and case.get("prune"):
            # complete enumeration only: equivalent to the history without this op
            ctx.count("team: pruned (step with nothing to do)")
            return
    backlogged_then = set(k for k in h.accepted if h.runs[k] == 0)
    h.drain()
    h.check_quiescent("closure-1")
    if not h.quit_done:
        # a worker can be created now: everything must run
        h.limit = None
        h.op(["grow", 1])
        h.drain()
        unrun = [k for k in h.accepted if h.runs[k] == 0]
        if unrun:
            h.viol("task-never-ran", f"tasks {unrun} not run after grow(1) with no limit")
        h.check_quiescent("closure-2")
        h.op(["quit"])
        h.drain()
        h.check_quiescent("closure-3")
    h.op(["do", 0])     # refused
    for k in h.cls:
        ctx.count("team: " + k)
    ctx.count("team: histories")
    if any(h.raises[k] and h.runs[k] for k in h.accepted) and any(o[0] == "do" and int(o[1]) >= 2 for o in case["ops"]):
        ctx.count("team: a task raising a non-Exception BaseException ran")
    waited = h.refusals > 0 and any(h.runs[k] for k in h.accepted if h.refusals > h.refusals_at_submit[k])
    if waited:
        ctx.count("team: task ran after waiting for a refused worker")
    if waited or "quit while a worker is busy" in h.cls or "shrink while a worker is busy" in h.cls:
        ctx.nontrivial(dumps(case))
        ctx.count("team: nontrivial")
        if len(ctx.samples) < 2:
            ctx.sample(case)


_TEAM_ALPHABET = [
    ["do", 0], ["do", 2], ["grow", 1], ["shrink", 1], ["shrink", None], ["quit"],
    ["c"], ["w", 0], ["w", 1], ["lim", 1], ["lim", 2],
]


def _team_small(arg):
    limit, depth, first = arg
    for d in range(1, depth + 1):
        for rest in itertools.product(_TEAM_ALPHABET, repeat=d - 1):
            yield dict(layer="team", limit=limit, prune=True, ops=[first] + [list(o) for o in rest])


def _team_enum_shard(ctx, arg):
    enumerate_run(ctx, _team_small(arg), run_case)


_TEAM_W = ([["do", 0]] * 9 + [["do", 1]] * 2 + [["do", 2]] * 2 + [["do", 3]] + [["grow", 1]] * 2 + [["grow", 2]] + [["shrink", 1]] * 2
           + [["shrink", None]] + [["quit"]] + [["c"]] * 14 + [["lim", None], ["lim", 0], ["lim", 1], ["lim", 2], ["lim", 3]])


def _team_histories():
    def dec(t):
        lim, xs = t
        ops = []
        for x in xs:
            k = x % 48
            if k < len(_TEAM_W):
                ops.append(list(_TEAM_W[k]))
            else:
                ops.append(["w", (x // 48) % 6])
        return dict(layer="team", limit=[1, 2, 3, None, 0][lim], ops=ops)
    return st.tuples(st.integers(0, 4), st.lists(st.integers(0, 48 * 6 - 1), max_size=60)).map(dec)


def _team_hyp_shard(ctx, i):
    hyp_run(ctx, _team_histories(), run_case, 8000, label=f"team{i}")


# ==========================================================================
# (c) LockWorker — the pool's coordinator — driven from one thread

def run_lock(ctx, case):
    """case = {"layer": "lock", "ops": [["do", spec] | ["quit"]]}, spec =
    [raises, [child specs]]: when the work runs it hands its children to the
    same LockWorker re-entrantly (they are queued behind it), then raises if
    asked to.  Oracle (single thread, so fully deterministic): work given from
    outside runs exactly once before do() returns or raises, with the lock
    held, never nested inside other work; do() leaves the lock released; a
    failing piece of work does not stop later do() calls from working; after
    quit() do() raises AlreadyQuit."""
    from twisted._threads import LockWorker, AlreadyQuit
    lock = threading.Lock()
    lw = LockWorker(lock, threading.local())
    st_ = dict(depth=0, n=0)
    runs = {}
    flags = []
    after_failure = [0]

    def mk(spec, top):
        k = st_["n"]
        st_["n"] += 1
        runs[k] = 0

        def work():
            runs[k] += 1
            if st_["depth"]:
                flags.append(("lockworker-work-nested-inside-other-work", f"work {k}"))
            if not lock.locked():
                flags.append(("lockworker-work-ran-without-the-lock", f"work {k}"))
            st_["depth"] += 1
            try:
                for child in spec[1]:
                    lw.do(mk(child, False)[1])
                if spec[0]:
                    raise TaskError(f"work {k}")
            finally:
                st_["depth"] -= 1
        return k, work

    quit_done = False
    failed_before = False
    for o in case["ops"]:
        if o[0] == "quit":
            if not quit_done:
                lw.quit()
                quit_done = True
            continue
        k, work = mk(o[1], True)
        raised = None
        try:
            lw.do(work)
        except TaskError as e:
            raised = "task"
        except AlreadyQuit:
            raised = "quit"
        if flags:
            ctx.violation(flags[0][0], case, flags[0][1])
        if quit_done:
            if raised != "quit" or runs[k]:
                ctx.violation("lockworker-do-after-quit-not-refused", case, f"work {k}: raised={raised}, ran {runs[k]} times")
            continue
        if raised == "quit":
            ctx.violation("lockworker-do-refused-before-quit", case, f"work {k}")
        if runs[k] != 1:
            ctx.violation("lockworker-work-not-run-by-do" + ("-after-earlier-work-raised" if failed_before else ""),
                          case, f"work {k} ran {runs[k]} times by the time do() returned"
                          + (" (an earlier piece of work had raised)" if failed_before else ""))
        if lock.locked():
            ctx.violation("lockworker-lock-left-held", case, f"after work {k}")
        if failed_before:
            after_failure[0] += 1
        if raised == "task" or any(c[0] for c in o[1][1]) or o[1][0]:
            failed_before = True
    for k, n in runs.items():
        if n > 1:
            ctx.violation("lockworker-work-ran-twice", case, f"work {k} ran {n} times")
    ctx.count("lock: histories")
    if after_failure[0]:
        ctx.count("lock: do() used again on the same thread after a piece of work had raised")
        ctx.nontrivial(dumps(case))


_LOCK_ALPHABET = [
    ["do", [0, []]], ["do", [1, []]], ["do", [0, [[0, []]]]], ["do", [0, [[1, []], [0, []]]]],
    ["do", [1, [[0, []]]]], ["quit"],
]


def _lock_small(depth):
    for d in range(1, depth + 1):
        for ops in itertools.product(_LOCK_ALPHABET, repeat=d):
            yield dict(layer="lock", ops=[list(o) for o in ops])


# ==========================================================================
# (b) the real ThreadPool

WATCHDOG = 600.0
JOIN_BOUND = 30.0   # hang-breaker for ThreadPool.stop(): a bounded join of a thread that should have been told to quit


def run_pool(ctx, case):
    """case = {"layer": "pool", "min": a, "max": b, "ops": [...]}
    ops: ["start"] | ["cit", raises, dur] | ["cb", raises, dur] | ["adjust", min, max] | ["startw"] | ["stopw"] | ["stop"]
    (a final stop is always performed)."""
    from twisted.python.threadpool import ThreadPool
    from twisted.python.failure import Failure
    name = f"c49-{os.getpid()}-{id(case) & 0xffff}"
    lock = threading.Lock()
    st_ = dict(running=0, peak=0)
    runs = {}        # k -> [thread idents]
    results = {}     # k -> [(ok, result)]
    spec = {}        # k -> (raises, wants_cb, submitted_before_stop)
    pool = ThreadPool(case["min"], case["max"], name=name)
    over = []        # worker threads created although the limit was reached

    fail_at = set(case.get("fail_threads", ()))   # creation indices (counted after start()) that fail
    fault = dict(armed=False, n=0, hit=0, in_op=False)
    hung = []

    class BoundedThread(threading.Thread):
        """A pool thread whose un-timed join() is bounded, so that a pool that
        never tells its workers to quit becomes a violation instead of a hang."""

        def __init__(self, *a, **kw):
            super().__init__(*a, **kw)
            self.daemon = True

        def join(self, timeout=None):
            if timeout is None:
                super().join(0.2 if hung else JOIN_BOUND)
                if self.is_alive():
                    hung.append(self.name)
            else:
                super().join(timeout)

    def recording_factory(*a, **kw):
        # Runs inside the team's coordinator on the thread that asked for the
        # worker (always this thread here), so the counts are consistent.
        have, lim = pool.workers, pool.max
        if have >= lim:
            over.append((have, lim))
        if fault["armed"]:
            i = fault["n"]
            fault["n"] += 1
            if i in fail_at:
                fault["hit"] += 1
                fault["in_op"] = True
                raise RuntimeError("can't start new thread")   # what Thread.start() says when the OS refuses
        return BoundedThread(*a, **kw)
    pool.threadFactory = recording_factory

    def faulty(fn):
        """Run one pool operation; a thread-creation failure injected during it
        may propagate to the caller (returns True then)."""
        fault["in_op"] = False
        try:
            fn()
        except RuntimeError:
            if not fault["in_op"]:
                raise
            return True
        return False
    started = stopped = False
    max_ever = case["max"]
    ever_started = False
    nstartw = [0]
    refused = set()
    after_fault = [0]

    def mk(k, raises, dur):
        def task():
            with lock:
                st_["running"] += 1
                st_["peak"] = max(st_["peak"], st_["running"])
                runs.setdefault(k, []).append(threading.get_ident())
            try:
                if dur == 1:
                    time.sleep(0)
                elif dur == 2:
                    time.sleep(0.001)
                elif dur == 3:
                    time.sleep(0.005)
                _raise_kind(k, int(raises))
                return ("value", k)
            finally:
                with lock:
                    st_["running"] -= 1
        return task

    def mk_cb(k):
        def on(ok, res):
            with lock:
                results.setdefault(k, []).append((ok, res))
        return on

    def watchdog():
        sys.stderr.write("harness: C49 watchdog expired; a ThreadPool case hung (exit 2)\n")
        sys.stderr.flush()
        os._exit(2)

    wd = threading.Timer(WATCHDOG, watchdog)
    wd.daemon = True
    wd.start()
    try:
        ops = list(case["ops"]) + [["stop"]]
        for o in ops:
            if o[0] == "start":
                if not started and not stopped:
                    pool.start()
                    started = ever_started = True
                    fault["armed"] = True
            elif o[0] in ("cit", "cb"):
                k = len(spec)
                spec[k] = (int(o[1]), o[0] == "cb", not stopped)
                if o[0] == "cb":
                    failed = faulty(lambda: pool.callInThreadWithCallback(mk_cb(k), mk(k, o[1], o[2])))
                else:
                    failed = faulty(lambda: pool.callInThread(mk(k, o[1], o[2])))
                if failed:
                    refused.add(k)       # the caller saw the failure: that submission is void
                elif fault["hit"]:
                    after_fault[0] += 1
            elif o[0] == "startw":
                if not stopped:
                    faulty(pool.startAWorker)
                    nstartw[0] += 1
            elif o[0] == "stopw":
                if not stopped:
                    pool.stopAWorker()
            elif o[0] == "adjust":
                if not stopped:
                    lo, hi = o[1], max(1, o[2])
                    lo = min(lo, hi)
                    max_ever = max(max_ever, hi)
                    faulty(lambda: pool.adjustPoolsize(lo, hi))
            elif o[0] == "stop":
                if not stopped:
                    pool.stop()
                    stopped = True
                    if hung:
                        with lock:
                            busy = st_["running"]
                        ctx.violation("pool-stop-did-not-end-its-threads" + ("-after-thread-creation-failure" if fault["hit"] else ""),
                                      case, f"{JOIN_BOUND}s after stop() asked the team to quit, with {busy} tasks still running, "
                                      f"threads {hung[:4]} are still waiting for work")
                    alive = [t.name for t in pool.threads if t.is_alive()]
                    alive += [t.name for t in threading.enumerate()
                              if t.name.startswith("PoolThread-" + name) and t.name not in alive]
                    if alive:
                        ctx.violation("pool-thread-alive-after-stop", case, f"{alive}")
    finally:
        wd.cancel()
        if not stopped:
            try:
                pool.stop()
            except Exception:
                pass
        for t in list(pool.threads):
            t.join(30)
    left = [t.name for t in threading.enumerate() if t.name.startswith("PoolThread-" + name)]
    if left:
        raise HarnessError(f"pool threads outlived the case: {left}")
    # ---- oracle -------------------------------------------------------------
    with lock:
        for k, (raises, wants, before_stop) in spec.items():
            n = len(runs.get(k, []))
            if k in refused:
                if n > 1 or len(results.get(k, [])) > n:
                    ctx.violation("pool-task-ran-twice", case, f"task {k} (its submission had failed) ran {n} times")
                continue
            if not before_stop:
                if n or results.get(k):
                    ctx.violation("pool-task-accepted-after-stop", case, f"task {k} ran {n} times after stop()")
                continue
            if n > 1:
                ctx.violation("pool-task-ran-twice", case, f"task {k} ran {n} times")
            if n == 0 and ever_started:
                ctx.violation("pool-task-lost", case,
                              f"task {k} submitted before stop() on a pool that was started never ran")
            res = results.get(k, [])
            if wants:
                if len(res) != n:
                    ctx.violation("pool-onresult-count", case, f"task {k}: ran {n} times, onResult called {len(res)} times")
                for ok, r in res:
                    if raises:
                        good = ok is False and isinstance(r, Failure) and type(r.value) is _EXC_OF_KIND[raises] \
                            and str(r.value) == f"task {k}"
                    else:
                        good = ok is True and r == ("value", k)
                    if not good:
                        ctx.violation("pool-onresult-wrong-outcome", case, f"task {k} raises={raises}: ({ok!r}, {r!r})")
            elif res:
                ctx.violation("pool-onresult-unrequested", case, f"task {k}")
        if over:
            ctx.violation("pool-thread-created-at-limit", case,
                          f"a worker thread was created while the pool already had {over[0][0]} workers, max {over[0][1]}")
        if st_["peak"] > max_ever:
            ctx.violation("pool-more-concurrent-tasks-than-max", case,
                          f"{st_['peak']} tasks ran at once, max was never above {max_ever}")
        if st_["running"]:
            ctx.violation("pool-task-still-running-after-stop", case, str(st_["running"]))
        nthreads = len({i for v in runs.values() for i in v})
    ctx.count("pool: histories")
    ctx.count("pool: tasks", len(spec))
    ctx.count("pool: threads used", nthreads)
    if not ever_started:
        ctx.count("pool: never started")
    if case["ops"] and case["ops"][-1] == ["start"] and spec:
        ctx.count("pool: everything submitted before a late start()")
        if pool.min == 0:
            ctx.count("pool: ... with min=0 (only start()'s backlog growth can run the tasks)")
    if st_["peak"] >= 2:
        ctx.count("pool: >=2 tasks ran concurrently")
    if fault["hit"]:
        ctx.count("pool: a thread creation failed (injected fault)")
        if after_fault[0]:
            ctx.count("pool: tasks submitted from the same thread after a thread-creation failure", after_fault[0])
    if nstartw[0]:
        ctx.count("pool: startAWorker used")
        if len(pool.threads) >= case["max"] or nstartw[0] >= case["max"]:
            ctx.count("pool: startAWorker asked for more workers than max allows")
    if any(o[0] == "stopw" for o in case["ops"]):
        ctx.count("pool: stopAWorker used")
    if any(o[0] == "adjust" for o in case["ops"]):
        ctx.count("pool: adjustPoolsize used")
    if any(not b for (_, _, b) in spec.values()):
        ctx.count("pool: submission after stop")
    nb = sum(1 for (r, w, b) in spec.values() if b and r >= 2)
    if nb:
        ctx.count("pool: tasks raising a non-Exception BaseException", nb)
        ctx.count("pool: ... of these with onResult", sum(1 for (r, w, b) in spec.values() if b and r >= 2 and w))
    if nthreads >= 2 and any(r for (r, _, b) in spec.values() if b) and any(w for (_, w, b) in spec.values() if b):
        ctx.nontrivial(dumps(case))
        ctx.count("pool: nontrivial")
        if len(ctx.samples) < 4:
            ctx.sample(case)


_POOL_W = ([["cit", 2, 0]] * 2 + [["cb", 2, 0]] * 3 + [["cb", 2, 2], ["cb", 3, 0]] + [["cit", 0, 0]] * 5 + [["cit", 0, 2]] * 3 + [["cit", 1, 0]] * 3 + [["cit", 1, 1]]
           + [["cb", 0, 0]] * 5 + [["cb", 0, 2]] * 3 + [["cb", 0, 3]] + [["cb", 1, 0]] * 3 + [["cb", 1, 2]] * 2
           + [["start"]] * 3 + [["stop"]] + [["startw"]] * 10 + [["stopw"]] * 3)


_POOL_N = len(_POOL_W) + 7


def _pool_histories():
    def dec(t):
        mm, early, fl, xs = t
        lo, hi = [0, 0, 1, 2][mm % 4], 1 + (mm // 4) % 5
        lo = min(lo, hi)
        ops = [["start"]] if early else []
        for x in xs:
            k = x % _POOL_N
            if k < len(_POOL_W):
                ops.append(list(_POOL_W[k]))
            else:
                a, b = (x // _POOL_N) % 4, 1 + (x // (4 * _POOL_N)) % 6
                ops.append(["adjust", min(a, b), b])
        if not early:
            # everything submitted to a pool that is started only afterwards
            ops = [o for o in ops if o[0] not in ("start", "stop")] + [["start"]]
        case = dict(layer="pool", min=lo, max=hi, ops=ops)
        if fl % 3 == 2:
            # fault: the (fl // 3)-th thread creation after start() fails once
            case["fail_threads"] = [(fl // 3) % 4]
        return case
    big = st.integers(0, _POOL_N * 24 - 1)
    ops = st.one_of(st.lists(big, max_size=10), st.lists(big, min_size=8, max_size=25),
                    st.lists(big, min_size=20, max_size=40))
    return st.tuples(st.integers(0, 19), st.integers(0, 2), st.integers(0, 11), ops).map(dec)


# ==========================================================================

def run_case(ctx, case):
    if case.get("layer") == "team":
        return run_team(ctx, case)
    if case.get("layer") == "lock":
        return run_lock(ctx, case)
    return run_pool(ctx, case)


def run(ctx):
    depth = ctx.pick(5, 6)
    args = [(lim, depth if lim is not None else depth - 1, f) for lim in (1, 2, None) for f in _TEAM_ALPHABET]
    if ctx.tier == "quick":
        for a in args:           # ~15 s on one core; cheaper than forking under load
            _team_enum_shard(ctx, a)
            if ctx.has_violation():
                return
    else:
        # forked workers first, before this process starts any thread
        ctx.shards(_team_enum_shard, args)
        if ctx.has_violation():
            return
    ctx.extra["team_small_scope"] = dict(alphabet=len(_TEAM_ALPHABET), initial_limits=[1, 2, None],
                                         max_depth={"limit 1": depth, "limit 2": depth, "unlimited": depth - 1},
                                         complete=True)
    ctx.exhaustive = False
    if ctx.tier == "quick":
        hyp_run(ctx, _team_histories(), run_case, 1500, label="team")
    else:
        ctx.shards(_team_hyp_shard, list(range(16)))
    if ctx.has_violation():
        return
    enumerate_run(ctx, _lock_small(ctx.pick(5, 6)), run_case)
    if ctx.has_violation():
        return
    hyp_run(ctx, _pool_histories(), run_case, ctx.pick(200, 2500), label="pool")
