"""C50 — FilesystemLock mutual exclusion under every interleaving of its filesystem steps.

Each simulated process runs the *real* FilesystemLock.lock() / unlock(); the
four primitives the protocol is built from (symlink, readlink, kill, rmlink)
and os.getpid are replaced in twisted.python.lockfile by doubles over an
in-memory link table.  Every call of a primitive is a scheduling point: the
schedule (part of the case) decides which process performs its next primitive
call; that call is atomic and the process then runs on to its next call.

Processes are resumable without threads: a process's behaviour is a
deterministic function of the results of its own primitive calls, so "resume
process P for one step" = re-execute P's program from its start, answering the
calls it already made from P's log, perform exactly one new call against the
shared link table, run on, and unwind (BaseException) at the following call.
(DESIGN sketched a thread baton; re-execution gives the same interleavings,
is deterministic by construction and costs no context switches.)
The oracle watches the API level only.
"""
import errno
import os as _real_os

from hypothesis import strategies as st

from lib.core import hyp_run, enumerate_run

META = dict(
    property="C50",
    level="exploration",
    technique="harness-owned scheduler over the real lock()/unlock() with symlink/readlink/kill/rmlink doubles (one primitive call = one atomic step); complete schedule enumeration for 2 processes, Hypothesis programs/crash points/schedules for 3-4",
    level_text="For every listed 2-process configuration (program pair x initial state x optional crash point x handle provenance) ALL interleavings of the first D primitive calls are enumerated (D=14 quick / 20 thorough; beyond D the lowest live pid runs on), which is the complete schedule space for most configurations (reported per run as complete_configs of configs); 3 and 4 processes with random programs, crash points and schedules are sampled with Hypothesis. After every schedule the surviving holder (if any) must be able to unlock and a fresh process must then acquire. Not the TLA+ proof the quantifier mentions: exhaustive only within the stated scopes.",
    level_note="Trusted: the in-memory model of the four primitives (symlink is atomic and fails with EEXIST, remove is atomic, readlink/kill as POSIX; pids are never reused; only the UNIX code path; no EPERM/EACCES). Liveness is checked as quiescence: at the end of every schedule a solo newcomer acquires within 3 calls.",
    design_ref="§5 C50",
    rule="case = (programs per process over L/U/D plus l/u = lock/unlock through the process's second handle and X/x = unlock() called whether or not the process holds, W/T/V = deferUntilLocked() on the process's (reused) DeferredFilesystemLock with timeout 2/1/none pumped on its own clock, R = unlock through it; initial state free/stale/held by a live outsider; per process: handles constructed by a dead or live parent before fork, handle inherited with locked=True; optional crash point per process, schedule = choice among runnable processes at each primitive call). non-trivial = some lock() met an existing link (EEXIST) while another process was live or a stale link existed, or a stale lock was broken; distinct by (configuration, executed process order).",
)

NAME = "/lock/the.lock"
DEAD_PID = 99          # owner of an initial stale lock
PARENT_DEAD = 98       # a parent that created a handle, forked and exited
OUTSIDER = 60          # a live process that runs no program: a parent that stays alive / an initial holder
FRESH_PID = 900
MAX_STEPS = 400
TOCTOU_SIG = "stale-break-removed-unexamined-live-lock"


class _Pause(BaseException):
    """Unwinds a simulated process at its next scheduling point."""


class _Die(BaseException):
    """Unwinds a simulated process that dies here."""


class _Stop(BaseException):
    """Unwinds after the oracle has recorded a violation."""


class _OsShim:
    """Stands in for the name `os` inside twisted.python.lockfile."""

    def __init__(self, world):
        self._world = world

    def getpid(self):
        return self._world.current.pid

    def __getattr__(self, name):
        return getattr(_real_os, name)


_CACHE = {}


def _task():
    from twisted.internet import task
    return task


def _dlock_class():
    """DeferredFilesystemLock whose lock() goes through the oracle's bookkeeping."""
    if "cls" not in _CACHE:
        from twisted.internet.defer import DeferredFilesystemLock

        class _DLock(DeferredFilesystemLock):
            def lock(self):
                world, proc = self._c50
                return world.api_lock(proc, 2, call=lambda: DeferredFilesystemLock.lock(self))
        _CACHE["cls"] = _DLock
    return _CACHE["cls"]


class _Pid:
    def __init__(self, pid):
        self.pid = pid


class _Proc:
    def __init__(self, pid, program, crash_at, creator=None, flag=False):
        self.pid = pid
        self.program = program
        self.crash_at = crash_at
        self.creator = creator     # None: handles made by this process; "dead"/"live": made by a parent before fork
        self.flag = flag           # handle 0 was inherited with locked == True
        self.log = []              # outcome of every primitive call made so far
        self.finished = False
        self.dead = False
        self.last_read_gen = None  # generation of the link its latest readlink saw
        # rebuilt by every re-execution:
        self.cursor = 0
        self.base = 0
        self.budget = 0
        self.holding = False
        self.in_unlock = False
        self.locks = None
        self.locked_via = 0

    def live(self):
        """True once this re-execution has gone past what was already seen."""
        return self.cursor > self.base


class _World:
    def __init__(self, lockfile):
        self.lockfile = lockfile
        self.links = {}            # name -> [target, generation]
        self.gen = 0
        self.alive = set()
        self.holders = []          # pids whose lock() returned True and have not unlocked / died
        self.current = None
        self.solo = False
        self.fail = None           # (signature, detail)
        self.tainted = False       # a stale-break removed a live process's link it had not examined
        self.flags = set()
        self.trace = []
        self.nprims = 0

    # -- resumable processes ---------------------------------------------------
    def advance(self, p, budget, program=None):
        """Re-execute p: replay its log, then perform `budget` new primitive
        calls (None = run to the end) and stop at the one after."""
        self.current = p
        p.cursor = 0
        p.base = len(p.log)
        p.budget = budget
        p.holding = False
        p.in_unlock = False
        # the process owns two handles on the path; they may have been
        # constructed by a parent (another pid) before this process existed
        self.current = _Pid({None: p.pid, "dead": PARENT_DEAD, "live": OUTSIDER}[p.creator])
        p.locks = [self.lockfile.FilesystemLock(NAME), self.lockfile.FilesystemLock(NAME)]
        # ... and a DeferredFilesystemLock (the in-tree asynchronous driver of
        # lock(): retries on a scheduler, optional timeout), reused across cycles
        p.clock = _task().Clock()
        dl = _dlock_class()(NAME, scheduler=p.clock)
        dl._c50 = (self, p)
        p.locks.append(dl)
        if p.flag:
            p.locks[0].locked = True
        self.current = p
        try:
            for op in (p.program if program is None else program):
                if op in "Ll":
                    if not p.holding:
                        self.api_lock(p, "Ll".index(op))
                elif op in "Uu":
                    if p.holding:
                        self.api_unlock(p, "Uu".index(op))
                elif op in "Xx":
                    # late / duplicate / mistaken unlock(): called whether or not the process holds
                    self.api_unlock(p, "Xx".index(op))
                elif op in "WTV":
                    # deferUntilLocked(): W timeout 2 retry intervals, T timeout 1, V none (cancelled after 2 retries)
                    if not p.holding:
                        self.api_defer(p, {"W": 2, "T": 1, "V": None}[op], 2 if op == "V" else None)
                elif op == "R":
                    if p.holding:
                        self.api_unlock(p, 2)
                elif op == "D":
                    self.prim(p, "die")
                else:
                    raise AssertionError(op)
            p.finished = True
        except _Pause:
            pass
        except (_Die, _Stop):
            p.finished = True

    # -- doubles for lockfile's primitives ----------------------------------
    def prim(self, p, kind, *args):
        if p.dead:
            raise _Die()       # a killed process runs no finally: clauses
        if self.fail is not None:
            raise _Stop()
        i = p.cursor
        if i < len(p.log):
            # already happened: answer from the log
            p.cursor += 1
            tag, val = p.log[i]
            if tag == "exc":
                raise OSError(val, _real_os.strerror(val))
            return val
        if p.budget is not None:
            if p.budget == 0:
                raise _Pause()
            p.budget -= 1
        self.nprims += 1
        if self.nprims > MAX_STEPS + 200:
            self._failed("no-termination", f"pid {p.pid}: more than {MAX_STEPS + 200} primitive calls, lock() does not return")
        if kind == "die" or (p.crash_at == i and not self.solo):
            self.flags.add("died-holding" if p.pid in self.holders else
                           ("died-inside-call" if kind != "die" else "died-idle"))
            self.trace.append((p.pid, "dies"))
            self.alive.discard(p.pid)
            if p.pid in self.holders:
                self.holders.remove(p.pid)
            p.cursor += 1
            p.dead = True
            raise _Die()
        try:
            val = self._apply(p, kind, *args)
        except OSError as e:
            p.log.append(("exc", e.errno))
            p.cursor += 1
            raise
        p.log.append(("ret", val))
        p.cursor += 1
        return val

    def _apply(self, p, kind, *args):
        links = self.links
        if kind == "symlink":
            value, name = args
            if name in links:
                if not self.solo or int(links[name][0]) not in self.alive:
                    self.flags.add("eexist")
                self.trace.append((p.pid, "symlink", "EEXIST"))
                raise OSError(errno.EEXIST, "File exists")
            links[name] = [value, self.gen]
            self.gen += 1
            self.trace.append((p.pid, "symlink", "ok"))
            return None
        if kind == "readlink":
            (name,) = args
            if name not in links:
                if not p.in_unlock:
                    self.flags.add("readlink-enoent-race")
                self.trace.append((p.pid, "readlink", "ENOENT"))
                raise OSError(errno.ENOENT, "No such file or directory")
            p.last_read_gen = links[name][1]
            self.trace.append((p.pid, "readlink", links[name][0]))
            return links[name][0]
        if kind == "kill":
            pid, sig = args
            if pid in self.alive:
                self.trace.append((p.pid, "kill", pid, "alive"))
                return None
            self.trace.append((p.pid, "kill", pid, "ESRCH"))
            raise OSError(errno.ESRCH, "No such process")
        if kind == "rmlink":
            (name,) = args
            if name not in links:
                if not p.in_unlock:
                    self.flags.add("rmlink-enoent-race")
                self.trace.append((p.pid, "rmlink", "ENOENT"))
                raise OSError(errno.ENOENT, "No such file or directory")
            value, gen = links.pop(name)
            try:
                owner = int(value)
            except ValueError:
                owner = None
            if not p.in_unlock:
                self.flags.add("stale-broken" if owner not in self.alive else "live-lock-broken")
            self.trace.append((p.pid, "rmlink", value))
            if owner in self.alive and owner != p.pid:
                if p.in_unlock:
                    # unlock() may only ever remove this process's own link
                    self._failed("unlock-removed-another-live-process-lock",
                                 f"pid {p.pid}: unlock() removed the link of live pid {owner}", True)
                elif gen != p.last_read_gen:
                    # the link removed is not the one whose owner was examined
                    self.tainted = True
                    self.flags.add("toctou-removed-live-lock")
            return None
        raise AssertionError(kind)

    # -- API level, with the oracle ----------------------------------------
    def _failed(self, sig, detail, consequence_of_toctou=False):
        """Record the violation and unwind.  Two holders / a holder that cannot
        unlock / an unacquirable lock that arise *after* a stale-break has removed
        a live process's link which the breaker never examined are consequences
        of that one root cause and carry its signature."""
        if consequence_of_toctou and self.tainted:
            detail = f"[{sig}] {detail}"
            sig = TOCTOU_SIG
        if self.fail is None:
            self.fail = (sig, detail)
        raise _Stop()

    def api_defer(self, p, timeout, cancel_after):
        """One deferUntilLocked() cycle on the process's DeferredFilesystemLock,
        pumped on the process's own clock until its Deferred has a result."""
        from twisted.internet.error import AlreadyCalled, AlreadyCancelled
        from twisted.internet.defer import TimeoutError, CancelledError
        from twisted.python.failure import Failure
        dl, clock, box = p.locks[2], p.clock, []
        n = 0
        try:
            d = dl.deferUntilLocked(timeout=timeout)
            d.addBoth(box.append)
            while not box and clock.getDelayedCalls() and n < 8:
                if cancel_after is not None and n >= cancel_after:
                    break
                clock.advance(1)
                n += 1
            if not box:
                # still waiting after 8 retry intervals (whether a timeout should
                # have ended the wait earlier is DeferredFilesystemLock's own
                # contract, not this property's): give up like a caller would
                d.cancel()
                if p.live():
                    self.flags.add("deferred-wait-abandoned")
        except (AlreadyCalled, AlreadyCancelled) as e:
            self._failed("deferUntilLocked-raised-" + type(e).__name__,
                         f"pid {p.pid}: deferUntilLocked(timeout={timeout}) on a reused DeferredFilesystemLock raised "
                         f"{e!r} (process {'HOLDS the lock, its Deferred never fired' if p.holding else 'does not hold'})")
        if box and isinstance(box[0], Failure) and not box[0].check(TimeoutError, CancelledError):
            box[0].raiseException()
        if p.live():
            if box == [None]:
                self.flags.add("deferred-acquired-after-waiting" if n else "deferred-acquired-at-once")
            elif box and box[0].check(TimeoutError):
                self.flags.add("deferred-timed-out")
            elif box:
                self.flags.add("deferred-cancelled")
            if timeout is not None and n:
                self.flags.add("deferred-waited-with-timeout-armed")

    def api_lock(self, p, h=0, call=None):
        lock = p.locks[h]
        try:
            r = (call or lock.lock)()
        except OSError as e:
            # the doubles raise only EEXIST/ENOENT/ESRCH, all of which lock() must absorb
            self._failed("lock-raised-OSError-" + errno.errorcode.get(e.errno, str(e.errno)),
                         f"pid {p.pid}: lock() raised {e!r}")
        if r:
            p.holding = True
            p.locked_via = h
        if not p.live():
            return r
        if r:
            others = [h for h in self.holders if h in self.alive and h != p.pid]
            self.trace.append((p.pid, "lock() -> True"))
            if others:
                self._failed("two-holders",
                             f"pid {p.pid} acquired while {others} still hold(s) the lock", True)
            self.holders.append(p.pid)
            if lock.clean is False:
                self.flags.add("acquired-unclean")
        else:
            self.flags.add("lock-false")
            self.trace.append((p.pid, "lock() -> False"))
        return r

    def api_unlock(self, p, h=0):
        was_holding = p.holding
        p.in_unlock = True
        try:
            p.locks[h].unlock()
        except (OSError, ValueError) as e:
            if was_holding:
                self._failed("holder-cannot-unlock-" + type(e).__name__,
                             f"pid {p.pid} holds the lock but unlock() raised {e!r}", True)
            # not the holder: refusing (ValueError, or OSError when there is no link) is the documented outcome
            if p.live():
                self.flags.add("non-holder-unlock-refused")
                self.trace.append((p.pid, f"unlock() refused {type(e).__name__}"))
            return
        finally:
            p.in_unlock = False
        p.holding = False
        if not p.live():
            return
        self.trace.append((p.pid, "unlock() ok"))
        if was_holding:
            self.holders.remove(p.pid)
            if h != p.locked_via:
                self.flags.add("unlock-through-other-handle")
        else:
            self.flags.add("non-holder-unlock-returned")


def _initial(case):
    return case.get("initial") or ("stale" if case.get("stale") else "free")


def _execute(case):
    """Run one case; returns (world, choices, branching, order)."""
    from twisted.python import lockfile

    w = _World(lockfile)
    programs = case["programs"]
    crash = case.get("crash_at") or [None] * len(programs)
    schedule = case["schedule"]
    creators = case.get("creators") or [None] * len(programs)
    hflags = case.get("flags") or [False] * len(programs)
    procs = [_Proc(101 + i, programs[i], crash[i], creators[i], hflags[i]) for i in range(len(programs))]
    for p in procs:
        w.alive.add(p.pid)
    w.alive.add(OUTSIDER)
    initial = _initial(case)
    if initial == "stale":
        w.links[NAME] = [str(DEAD_PID), w.gen]
        w.gen += 1
    elif initial == "held":
        w.links[NAME] = [str(OUTSIDER), w.gen]
        w.gen += 1
        w.holders.append(OUTSIDER)

    def mk(kind):
        def double(*args):
            return w.prim(w.current, kind, *args)
        return double

    saved = {k: getattr(lockfile, k) for k in ("symlink", "readlink", "rmlink", "kill", "os")}
    lockfile.symlink = mk("symlink")
    lockfile.readlink = mk("readlink")
    lockfile.rmlink = mk("rmlink")
    lockfile.kill = mk("kill")
    lockfile.os = _OsShim(w)
    choices, branching, order = [], [], []
    try:
        # bring every process to its first primitive call
        for p in procs:
            w.advance(p, 0)
        steps = 0
        while w.fail is None:
            runnable = [p for p in procs if not p.finished]
            if not runnable:
                break
            if steps >= MAX_STEPS:
                w.fail = ("no-termination", f"{MAX_STEPS} primitive calls and the programs have not ended")
                break
            idx = schedule[steps] % len(runnable) if steps < len(schedule) else 0
            choices.append(idx)
            branching.append(len(runnable))
            p = runnable[idx]
            order.append(p.pid)
            w.advance(p, 1)
            steps += 1
        # ---- end state: the lock must still be usable (solo, unscheduled) -----
        if w.fail is None:
            w.solo = True
            _final_phase(w, procs)
    finally:
        for k, v in saved.items():
            setattr(lockfile, k, v)
    return w, choices, branching, order


def _final_phase(w, procs):
    live = [h for h in w.holders if h in w.alive]
    for p in procs:
        if p.pid in live:
            # the survivor's program, continued by an unlock()
            w.advance(p, None, program=p.program + "U")
            if w.fail:
                return
    link = w.links.get(NAME)
    if OUTSIDER in w.holders:
        # still held by the live outsider: a newcomer must be refused (api_lock
        # reports two holders otherwise); nothing to acquire
        w.flags.add("ends-held-by-outsider")
        fresh = _Proc(FRESH_PID, "L", None)
        w.alive.add(FRESH_PID)
        w.advance(fresh, None)
        return
    if link is None:
        state = "free"
    elif int(link[0]) in w.alive:
        state = "link-of-live-nonholder"
    else:
        state = "stale"
        w.flags.add("ends-with-stale-lock")
    fresh = _Proc(FRESH_PID, "LLLU", None)
    w.alive.add(FRESH_PID)
    w.advance(fresh, None)
    if w.fail:
        return
    if (FRESH_PID, "lock() -> True") not in w.trace:
        try:
            w._failed(f"{state}-lock-not-acquirable",
                      f"no live holder, link state {state}: a solo newcomer's lock() returned False 3 times", True)
        except _Stop:
            pass


_LAST = {}


def run_case(ctx, case):
    _LAST.clear()
    w, choices, branching, order = _execute(case)
    _LAST.update(choices=choices, branching=branching)
    n = len(case["programs"])
    ctx.count(f"procs={n}")
    for f in w.flags:
        ctx.count(f)
    initial = _initial(case)
    ctx.count("initial-" + initial)
    if any(case.get("creators") or []):
        ctx.count("handle-created-by-parent-before-fork")
    if any(case.get("flags") or []):
        ctx.count("handle-inherited-with-locked-flag")
    if any(c in prog for prog in case["programs"] for c in "WTV"):
        ctx.count("deferUntilLocked-in-program")
    if any(c in prog for prog in case["programs"] for c in "luXx"):
        ctx.count("second-handle-or-late-unlock-in-program")
    if w.fail is not None:
        sig, detail = w.fail
        ctx.violation(sig, case, detail + "\ntrace: " + "; ".join(
            " ".join(str(x) for x in t) for t in w.trace[-60:]))
    if "eexist" in w.flags or "stale-broken" in w.flags:
        ctx.nontrivial((case["programs"], initial, case.get("crash_at"), case.get("creators"),
                        case.get("flags"), order))
        ctx.count("nontrivial")
        if len(ctx.samples) < 5 and len(order) % 5 == 2 and "stale-broken" in w.flags:
            ctx.sample(case)


# ---------------------------------------------------------------------------
# complete enumeration of 2-process schedules (stateless DFS over choices)

def _dfs_cases(config, depth, stats):
    prefix = []
    truncated = False
    while True:
        yield dict(config, schedule=list(prefix))
        ch = _LAST.get("choices")
        br = _LAST.get("branching")
        if any(b > 1 for b in br[depth:]):
            truncated = True
        ch, br = ch[:depth], br[:depth]
        i = len(ch) - 1
        while i >= 0 and ch[i] + 1 >= br[i]:
            i -= 1
        if i < 0:
            break
        prefix = ch[:i] + [ch[i] + 1]
    stats["truncated"] = truncated


def _configs(ctx):
    progs = ["LU", "LLU", "LULU", "LD", "LUD"]
    out = []
    for i, a in enumerate(progs):
        for b in progs[i:]:
            for stale in (False, True):
                if not ctx.thorough and "LULU" in (a, b) and (a, b, stale) not in (
                        ("LU", "LULU", False), ("LU", "LULU", True), ("LULU", "LULU", False)):
                    continue        # the largest schedule spaces are left to the thorough tier
                out.append(dict(programs=[a, b], stale=stale, crash_at=[None, None]))
    # a process that dies inside lock()/unlock() at every possible primitive call
    for other in (["LU", "LLU"] if not ctx.thorough else ["LU", "LLU", "LULU"]):
        for stale in (False, True):
            for k in range(0, 7):
                out.append(dict(programs=["LU", other], stale=stale, crash_at=[k, None]))
    # handles and processes are not one-to-one: handles built by a parent before
    # fork (dead or live parent), a second handle on the path, late/duplicate
    # unlock() calls, handles inherited with locked == True, a live outside holder
    def add(programs, initial="free", creators=(None, None), flags=(False, False)):
        out.append(dict(programs=list(programs), initial=initial, crash_at=[None, None],
                        creators=list(creators), flags=list(flags)))
    for other in ("LU", "LLU"):
        for initial in ("free", "stale"):
            add(["LU", other], initial, ("dead", None))
            add(["LU", other], initial, ("live", None))
            add(["LU", other], initial, ("dead", "dead"))
        add(["LuX", other])
        add(["lUx", other])
        add(["LUX", other])
        add(["LxU", other])
        add(["X", other], "free", flags=(True, False))
        add(["XL", other], "stale", flags=(True, False))
        add(["X", other], "held", flags=(True, False))
        add(["LU", other], "held")
        add(["xLU", other], "held", ("live", None), (True, False))
    # one DeferredFilesystemLock object reused over several acquire/release cycles
    for prog in ("WRW", "TRW", "WW", "TW", "VRW", "WRV", "WRT"):
        add([prog, "LU"])
    add(["WRW", "LU"], "stale")
    add(["WW", "L"], "held")
    return out


def _enum_config(ctx, config):
    depth = ctx.pick(14, 20)
    stats = {}

    enumerate_run(ctx, _dfs_cases(config, depth, stats), run_case)
    ctx.extra["configs"] = ctx.extra.get("configs", 0) + 1
    if not stats.get("truncated"):
        ctx.extra["complete_configs"] = ctx.extra.get("complete_configs", 0) + 1


def _case_strategy(nprocs):
    prog = st.one_of(st.text(alphabet="LLLUUD", min_size=1, max_size=5),
                     st.text(alphabet="LLLUUDluXx", min_size=1, max_size=5),
                     st.text(alphabet="LUWWTVRRD", min_size=1, max_size=5))
    return st.builds(
        dict,
        programs=st.lists(prog, min_size=nprocs, max_size=nprocs),
        initial=st.sampled_from(["free", "stale", "stale", "held"]),
        crash_at=st.lists(st.one_of(st.none(), st.integers(0, 9)), min_size=nprocs, max_size=nprocs),
        creators=st.lists(st.sampled_from([None, None, None, "dead", "live"]), min_size=nprocs, max_size=nprocs),
        flags=st.lists(st.sampled_from([False, False, False, True]), min_size=nprocs, max_size=nprocs),
        schedule=st.lists(st.integers(0, nprocs - 1), max_size=60),
    )


def _hyp_shard(sub, i):
    hyp_run(sub, _case_strategy(3), run_case, 12000, label=f"three-{i}")
    hyp_run(sub, _case_strategy(4), run_case, 3000, label=f"four-{i}")


def run(ctx):
    configs = _configs(ctx)
    ctx.shards(_enum_config, configs, procs=ctx.pick(4, 16))
    ctx.extra["enumeration_depth"] = ctx.pick(14, 20)
    ctx.exhaustive = False     # complete per configuration (see complete_configs), not over all programs
    if ctx.has_violation():
        return
    if ctx.thorough:
        ctx.shards(_hyp_shard, list(range(16)))
    else:
        hyp_run(ctx, _case_strategy(3), run_case, 2500, label="three")
        hyp_run(ctx, _case_strategy(4), run_case, 500, label="four")
