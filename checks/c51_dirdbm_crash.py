"""C51 — DirDBM keeps old-or-new for the interrupted key and everything else, at every crash point.

The real DirDBM runs in a scratch directory.  Every state-changing filesystem
call it makes (os.remove/unlink/rename/rmdir/mkdir, opening a file for writing,
and each write — which the harness additionally splits at several lengths) is
preceded by a snapshot of the directory tree: that snapshot is exactly what a
process crash (kill -9) at that point leaves behind.  Every snapshot is then
written out again, the database is reopened on it (DirDBM.__init__ runs its
recovery, itself under the same recorder so that a crash *during recovery* is
enumerated too, recursively) and what the reopened database shows is compared
with a dict model.
"""
import base64
import binascii
import os

from hypothesis import strategies as st

from lib.core import hyp_run, enumerate_run
from lib import harness

META = dict(
    property="C51",
    level="fault_enumeration",
    technique="directory snapshot before every state-changing filesystem call and inside every write (partial lengths) of random set/replace/delete histories on the real DirDBM; recovery re-run on every snapshot, nested for crashes during recovery; dict model",
    level_text="Every crash point of each generated history is enumerated: before each remove/rename/mkdir/open-for-write, before each write and after 1, n/2, n-1 bytes (every length when n <= 12, plus one generated length) of it, and after each completed operation; crash points inside the recovery of each such state are enumerated recursively (depth <= 3). Histories themselves (keys, values, operation order, reopen points) are sampled by Hypothesis plus a complete enumeration of all histories of length <= 3 over two keys. Two ways of being interrupted at a filesystem call are enumerated: the process is killed there (nothing else runs), or an exception (KeyboardInterrupt, OSError EIO) is raised there and unwinds through DirDBM's own handlers before the process ends. Completed system calls persist in order; no power-loss reordering.",
    level_note="Trusted: the snapshot recorder (it must see every state-changing call DirDBM makes: checked per case by comparing the recorded call count with the directory's final state) and the dict model. DirDBM and a subclass overriding the documented _writeFile/_readFile hooks (not Shelf), keys <= 48 bytes. Histories may contain sets that fail part-way with ENOSPC while the process carries on.",
    design_ref="§5 C51",
    rule="case = (key pool, list of set/del/reopen operations over it, extra partial-write fraction). One evaluation = one history with all its crash states. non-trivial = a crash state that contains a leftover .new/.rpl file or lacks a file the model has (i.e. recovery or old-or-new reasoning was actually needed); distinct by the content of the crash state.",
)

_os_remove, _os_unlink, _os_rename, _os_rmdir, _os_mkdir = os.remove, os.unlink, os.rename, os.rmdir, os.mkdir
_builtin_open = open


def _enc(k):
    """File name DirDBM documents for a key (written independently of _encode)."""
    return base64.encodebytes(k).replace(b"\n", b"_").replace(b"/", b"-").decode("ascii")


def _read_tree(base):
    out = {}
    for dirpath, dirnames, filenames in os.walk(base):
        rel = os.path.relpath(dirpath, base)
        for d in dirnames:
            out[os.path.normpath(os.path.join(rel, d))] = None
        for f in filenames:
            with _builtin_open(os.path.join(dirpath, f), "rb") as fh:
                out[os.path.normpath(os.path.join(rel, f))] = fh.read()
    return out


def _write_tree(base, tree):
    _os_mkdir(base)
    for rel in sorted(tree):
        p = os.path.join(base, rel)
        if tree[rel] is None:
            _os_mkdir(p)
        else:
            with _builtin_open(p, "wb") as fh:
                fh.write(tree[rel])


class _Recorder:
    """Snapshots `base` before every state-changing call made while active."""

    def __init__(self, base, extra_frac):
        self.base = base
        self.extra_frac = extra_frac
        self.active = False
        self.alts = None
        self.states = []      # (alts, why, tree, tag)
        self.calls = 0
        self.tag = 0
        self.site = 0             # eligible fault-injection sites passed while active
        self.inject_at = None     # raise inject_exc instead of performing the call at this site
        self.inject_label = None  # ... or at the first site of this kind ("before open", "inside write", ...)
        self.inject_exc = None
        self.fired = None
        self.record = True

    def snap(self, why, site=True):
        self.calls += 1
        if self.active and site:
            idx = self.site
            self.site += 1
            if self.fired is None and (self.inject_at == idx or (
                    self.inject_label is not None and why.startswith(self.inject_label))):
                self.fired = why
                raise self.inject_exc
        if not self.record:
            return
        tree = _read_tree(self.base)
        if self.states and self.states[-1][2] == tree and all(a in self.alts for a in self.states[-1][0]):
            return      # same directory content already recorded with expectations at least as strict
        self.states.append((self.alts, why, tree, self.tag))

    def cuts(self, n):
        if n <= 12:
            return list(range(1, n))
        c = {1, n // 2, n - 1, max(1, min(n - 1, (n * self.extra_frac) // 100))}
        return sorted(c)


class _WFile:
    def __init__(self, rec, f):
        self._rec = rec
        self._f = f

    def write(self, data):
        rec = self._rec
        if rec.active:
            rec.snap("before write")
            prev = 0
            cuts = rec.cuts(len(data))
            for c in cuts:
                self._f.write(data[prev:c])
                self._f.flush()
                prev = c
                # one of the partial-write points also serves as a fault-injection site (e.g. ENOSPC)
                rec.snap(f"inside write {c}/{len(data)}", site=(c == cuts[len(cuts) // 2]))
            self._f.write(data[prev:])
            self._f.flush()
            return len(data)
        return self._f.write(data)

    def __enter__(self):
        return self

    def __exit__(self, *a):
        self._f.close()

    def __getattr__(self, name):
        return getattr(self._f, name)


_CLS = {}


def _db_class(case):
    """DirDBM itself, or a subclass that overrides the documented
    _writeFile/_readFile hooks ("e.g. provide transparently encrypted dirdbm")."""
    from twisted.persisted import dirdbm
    if not case.get("subclass"):
        return dirdbm.DirDBM
    if "xor" not in _CLS:
        class XorDBM(dirdbm.DirDBM):
            def _writeFile(self, path, data):
                with dirdbm._open(path.path, "wb") as f:
                    f.write(bytes(b ^ 0x5A for b in data))
                    f.flush()

            def _readFile(self, path):
                with dirdbm._open(path.path, "rb") as f:
                    return bytes(b ^ 0x5A for b in f.read())
        _CLS["xor"] = XorDBM
    return _CLS["xor"]


class _Interrupt(KeyboardInterrupt):
    """Injected at a filesystem call: the operation is interrupted by an
    exception (SIGINT, MemoryError, ...) that unwinds through DirDBM's own
    handlers before the process goes away."""


def _injected_faults():
    import errno
    return [("KeyboardInterrupt", _Interrupt()), ("OSError(EIO)", OSError(errno.EIO, "injected I/O error"))]


class _Patched:
    """Installs the recording doubles for the duration of one case."""

    def __init__(self, rec_holder):
        self.h = rec_holder

    def __enter__(self):
        from twisted.persisted import dirdbm
        h = self.h

        def wrap(real, name):
            def f(*a, **kw):
                rec = h["rec"]
                if rec is not None and rec.active:
                    rec.snap("before " + name)
                return real(*a, **kw)
            return f

        def _open(path, mode="r", *a, **kw):
            rec = h["rec"]
            if rec is not None and rec.active and any(c in mode for c in "wax+"):
                rec.snap("before open " + mode)
                return _WFile(rec, _builtin_open(path, mode, *a, **kw))
            return _builtin_open(path, mode, *a, **kw)

        self.dirdbm = dirdbm
        self.saved_open = dirdbm._open
        os.remove = wrap(_os_remove, "remove")
        os.unlink = wrap(_os_unlink, "unlink")
        os.rename = wrap(_os_rename, "rename")
        os.rmdir = wrap(_os_rmdir, "rmdir")
        os.mkdir = wrap(_os_mkdir, "mkdir")
        dirdbm._open = _open
        return self

    def __exit__(self, *a):
        os.remove, os.unlink, os.rename, os.rmdir, os.mkdir = _os_remove, _os_unlink, _os_rename, _os_rmdir, _os_mkdir
        self.dirdbm._open = self.saved_open


def _observe(ctx, case, db, dbdir, why):
    """What a reader of the reopened database sees: (dict, raw directory names)."""
    names = sorted(os.listdir(dbdir))
    try:
        keys = db.keys()
    except (binascii.Error, ValueError) as e:
        ctx.violation("stray-file-visible", case,
                      f"{why}: after reopening, keys() raised {e!r}; directory holds {names}")
    obs = {}
    for k in keys:
        if k in obs:
            ctx.violation("stray-file-visible", case, f"{why}: keys() lists {k!r} twice; directory holds {names}")
        try:
            obs[k] = db[k]
        except KeyError:
            obs[k] = None
    return obs, names


def _names_fit(names, keys):
    """Directory entries are exactly the documented file names of `keys`.  How
    the empty key is spelled on disk is not documented: one entry without a
    '.' is allowed for it."""
    want = sorted(_enc(k) for k in keys if k != b"")
    rest = list(names)
    for n in want:
        if n not in rest:
            return False
        rest.remove(n)
    if b"" in keys:
        return len(rest) == 1 and "." not in rest[0]
    return not rest


STALE_RPL = ":after-replace-failed-at-removal-of-old-entry"


def _judge(ctx, case, obs, names, alts, opkey, why, stale=()):
    """stale: keys for which an earlier replace in this process failed at the
    removal of the old entry, leaving old entry and complete .rpl side by side
    (one root cause; named in the signature of whatever goes wrong with them)."""
    for alt in alts:
        if obs == alt and _names_fit(names, alt):
            return

    def viol(sig, key, detail):
        ctx.violation(sig + (STALE_RPL if key in stale else ""), case, detail)

    before, after = alts[0], alts[-1]
    for k in sorted(set(before) | set(after) | set(obs)):
        if k == opkey:
            continue
        if k not in before:
            viol("stray-file-visible", k, f"{why}: unexpected key {k!r} = {obs[k]!r}; directory {names}")
        if k not in obs:
            viol("completed-key-lost", k, f"{why}: key {k!r} (last completed value {before[k][:40]!r}) is gone; directory {names}")
        if obs[k] != before[k]:
            viol("completed-key-wrong-value", k, f"{why}: key {k!r} reads {obs[k]!r:.80}, last completed value {before[k]!r:.80}")
    stray = [n for n in names if n not in {_enc(k) for k in obs if k != b""}]
    if b"" in obs and len(stray) == 1 and "." not in stray[0]:
        stray = []
    if stray:
        viol("stray-file-visible", None, f"{why}: directory entries {stray} are not keys of the database")
    old, new = before.get(opkey), after.get(opkey)
    got = obs.get(opkey)
    if old is None and new is None and opkey in obs:
        viol("absent-key-resurrected", opkey,
             f"{why}: key {opkey!r} was absent/deleted by the last completed operation and now reads {got!r:.60}; directory {names}")
    if got is None and opkey not in obs:
        viol("interrupted-key-lost", opkey,
             f"{why}: key {opkey!r} had {old!r:.60} and was being set to {new!r:.60}, now absent")
    if new is not None and got is not None and got != new and new.startswith(got):
        viol("interrupted-key-partial-value", opkey,
             f"{why}: key {opkey!r} reads the first {len(got)} of {len(new)} bytes being written (old value {old!r:.40})")
    viol("interrupted-key-wrong-value", opkey,
         f"{why}: key {opkey!r} reads {got!r:.80}; old {old!r:.60} new {new!r:.60}")


def _recover_and_check(ctx, case, work, counter, tree, alts, opkey, why, depth, extra_frac, holder):
    """Reopen the database on a crash state; recurse into crashes during that recovery."""
    DirDBM = holder["cls"]
    counter[0] += 1
    base = os.path.join(work, f"r{counter[0]}")
    _write_tree(base, tree)
    dbdir = os.path.join(base, "db")
    rec = _Recorder(base, extra_frac)
    rec.alts = alts
    outer = holder["rec"]
    holder["rec"] = rec
    rec.active = True
    try:
        db = DirDBM(dbdir)
    finally:
        rec.active = False
        holder["rec"] = outer
    obs, names = _observe(ctx, case, db, dbdir, why)
    _judge(ctx, case, obs, names, alts, opkey, why, holder.get("stale", ()))
    ctx.extra["crash_states"] = ctx.extra.get("crash_states", 0) + 1
    if depth == 0:
        leftovers = [n for n in tree if n.endswith((".new", ".rpl"))]
        model_files = {os.path.join("db", _enc(k)) for k in alts[0] if k != b""}
        if leftovers or any(f not in tree for f in model_files):
            ctx.nontrivial(sorted((k, v) for k, v in tree.items()))
            ctx.count("crash state with leftover .new" if any(n.endswith(".new") for n in leftovers) else
                      "crash state with leftover .rpl" if leftovers else "crash state missing a model file")
    if rec.states:
        ctx.count(f"recovery made changes (depth {depth})")
    if depth < 3:
        for _, w2, t2, _tag in rec.states:
            if t2 == tree:
                continue
            ctx.count("nested crash state")
            _recover_and_check(ctx, case, work, counter, t2, alts, opkey,
                               f"{why} -> crash in recovery {w2}", depth + 1, extra_frac, holder)


def _empty_key_op(ctx, case, db, dbdir, model, after, fn, text):
    """b"" is a legal bytes key.  Performed without crash enumeration: either it
    works like any other key, or it is refused (model unchanged); in both cases
    the stored keys must survive."""
    from twisted.python.filepath import InsecurePath
    ctx.count("op on empty key")
    try:
        fn()
        result = after
    except (KeyError, ValueError, OSError, InsecurePath):
        result = model
    intact = os.path.isdir(dbdir) and all(os.path.isfile(os.path.join(dbdir, _enc(q))) for q in model if q != b"")
    if not intact:
        ctx.violation("empty-key-resolves-to-database-directory", case,
                      f"after {text} the database directory is "
                      f"{'a plain file' if os.path.isfile(dbdir) else 'gone' if not os.path.exists(dbdir) else 'missing entries'}; "
                      f"stored keys {sorted(model)} lost")
    return dict(result)


def run_case(ctx, case):
    import errno
    DirDBM = _db_class(case)
    ctx.count("database class: " + ("subclass overriding _writeFile/_readFile" if case.get("subclass") else "DirDBM"))
    keys = case["keys"]
    ops = case["ops"]
    extra_frac = case.get("frac", 50)
    holder = {"rec": None, "cls": DirDBM}
    with harness.scratch_dir("C51") as work, _Patched(holder):
        base = os.path.join(work, "live")
        _os_mkdir(base)
        dbdir = os.path.join(base, "db")
        rec = _Recorder(base, extra_frac)
        holder["rec"] = rec
        model = {}
        opkeys = []
        failed_before = False
        stale_rpl = set()
        stale_hist = {}        # op index -> keys with a stale complete .rpl while that operation ran

        plan = []      # per set/del operation: what is needed to repeat it with a fault injected

        def during(alts, fn, redo=None, final=None):
            start = rec.states[-1][2] if rec.states else None
            site0 = rec.site
            rec.alts = alts
            rec.tag = len(opkeys)
            stale_hist[rec.tag] = set(stale_rpl)
            rec.active = True
            try:
                return fn()
            finally:
                rec.active = False
                rec.alts = final() if final is not None else alts[-1:]
                rec.snap("operation complete")
                if redo is not None:
                    plan.append((start, rec.site - site0, alts, len(opkeys), redo))

        db = during([{}], lambda: DirDBM(dbdir))
        opkeys.append(None)
        for op in ops:
            kind = op[0]
            if kind == "reopen":
                db = during([dict(model)], lambda: DirDBM(dbdir))
                opkeys.append(None)
                ctx.count("op reopen")
            elif kind == "set":
                k, v = keys[op[1] % len(keys)], op[2]
                after = dict(model)
                after[k] = v
                if k == b"":
                    model = _empty_key_op(ctx, case, db, dbdir, model, after, lambda: db.__setitem__(k, v), "db[b''] = v")
                    rec.alts, rec.tag = [dict(model)], len(opkeys)
                    rec.snap("operation complete")
                    opkeys.append(k)
                    continue
                ctx.count("op replace" if k in model else "op set-new")
                during([dict(model), after], lambda: db.__setitem__(k, v),
                       redo=lambda d2, k=k, v=v: d2.__setitem__(k, v))
                if k in model:
                    stale_rpl.discard(k)      # a completed replace writes over any stale .rpl
                opkeys.append(k)
                model = after
            elif kind == "setfail":
                # a set whose write fails part-way with an ordinary error (disk
                # full); the process carries on with the history
                k, v, where = keys[op[1] % len(keys)], op[2], op[3] % 4
                if k == b"":
                    opkeys.append(k)
                    continue
                after = dict(model)
                after[k] = v
                # the write of the value fails (at open, at write, part-way), or the
                # removal of the old entry fails; the first such call of the operation
                rec.inject_label = ("before open", "before write", "inside write", "before remove")[where]
                rec.inject_exc = OSError(errno.ENOSPC, "injected: no space left on device")
                rec.fired = None

                def do_setfail():
                    try:
                        db[k] = v
                    except BaseException:
                        if rec.fired is None:
                            raise

                during([dict(model), after], do_setfail,
                       final=lambda: [dict(model)] if rec.fired is not None else [after])
                opkeys.append(k)
                if rec.fired is None:
                    model = after
                    ctx.count("op set (injection site not reached)")
                else:
                    ctx.count("op set FAILED part-way (%s), process continued" % ("replace" if k in model else "new key"))
                    failed_before = True
                if rec.fired is not None and rec.fired.startswith("before remove"):
                    stale_rpl.add(k)
                    stale_hist[len(opkeys) - 1].add(k)
                    ctx.count("op replace FAILED at the removal of the old entry, process continued")
                rec.inject_label, rec.inject_exc, rec.fired = None, None, None
            elif kind == "del":
                k = keys[op[1] % len(keys)]
                after = dict(model)
                after.pop(k, None)
                ctx.count("op delete" if k in model else "op delete-missing")
                if failed_before and k in model:
                    ctx.count("op delete after an earlier failed set in the same process")
                if k == b"":
                    def _d():
                        del db[k]
                    model = _empty_key_op(ctx, case, db, dbdir, model, after, _d, "del db[b'']")
                    rec.alts, rec.tag = [dict(model)], len(opkeys)
                    rec.snap("operation complete")
                    opkeys.append(k)
                    continue

                def do_del():
                    try:
                        del db[k]
                    except KeyError:
                        if k in model:
                            ctx.violation("delete-existing-keyerror", case, f"del db[{k!r}] raised KeyError")
                    else:
                        if k not in model:
                            ctx.violation("delete-missing-no-keyerror", case, f"del db[{k!r}] of a missing key did not raise")
                during([dict(model), after], do_del, redo=lambda d2, k=k: d2.__delitem__(k))
                opkeys.append(k)
                model = after
            else:
                raise AssertionError(kind)
        holder["rec"] = None
        counter = [0]
        for alts, why, tree, j in rec.states:
            holder["stale"] = stale_hist.get(j, ())
            label = f"crash {why} (op #{j}: {ops[j - 1] if j else 'create'!r:.60})"
            _recover_and_check(ctx, case, work, counter, tree, alts, opkeys[j], label, 0, extra_frac, holder)
        # ---- the same operations interrupted by an exception at each filesystem call ----
        for start, nsites, alts, j, redo in plan:
            holder["stale"] = stale_hist.get(j, ())
            for site in range(nsites):
                for exc_name, exc in _injected_faults():
                    counter[0] += 1
                    base2 = os.path.join(work, f"x{counter[0]}")
                    _write_tree(base2, start)
                    rec2 = _Recorder(base2, extra_frac)
                    rec2.record = False
                    rec2.inject_at, rec2.inject_exc = site, exc
                    holder["rec"] = rec2
                    try:
                        db2 = DirDBM(os.path.join(base2, "db"))
                        rec2.active = True
                        try:
                            redo(db2)
                        except BaseException:
                            # once the fault has been injected the operation is, by
                            # construction, interrupted: whatever propagates (the fault
                            # itself, KeyError made from it, an error of DirDBM's own
                            # clean-up handler) is the interruption
                            if rec2.fired is None:
                                raise
                        finally:
                            rec2.active = False
                    finally:
                        holder["rec"] = None
                    if rec2.fired is None:
                        continue
                    ctx.count(f"exception injected at a filesystem call ({exc_name})")
                    ctx.count("exception injected " + rec2.fired.split(" ")[0] + " " + rec2.fired.split(" ")[1])
                    label = (f"{exc_name} raised {rec2.fired} (fs call #{site} of op #{j}: {ops[j - 1]!r:.60}), "
                             f"then the process ended")
                    _recover_and_check(ctx, case, work, counter, _read_tree(base2), alts, opkeys[j], label, 0,
                                       extra_frac, holder)
    if len(ctx.samples) < 5 and len(ops) >= 4 and len(rec.states) % 7 == 3:
        ctx.sample(case)


# ---------------------------------------------------------------------------

def _strategy():
    key = st.one_of(
        st.binary(min_size=1, max_size=6),
        st.binary(min_size=1, max_size=48),
        st.sampled_from([b"\xff\xff\xff", b"\xfb\xff", b"a", b"\x00", b"k" * 48]),   # '/' and '+' in base64
    )
    value = st.one_of(
        st.binary(max_size=20),
        st.binary(max_size=300),
        st.builds(lambda b, n: (b or b"x") * n, st.binary(min_size=1, max_size=8), st.integers(100, 1024)),
        st.just(b""),
    )
    @st.composite
    def history(draw):
        keys = draw(st.lists(key, min_size=1, max_size=3, unique=True))
        n = draw(st.integers(1, 7))
        present = []
        ops = []
        for _ in range(n):
            kind = draw(st.sampled_from(["set", "set", "set", "replace", "replace", "del", "del", "reopen",
                                         "failreplace"]))
            if kind == "reopen":
                ops.append(("reopen",))
                continue
            if kind in ("replace", "del", "failreplace") and present and draw(st.integers(0, 9)) < 9:
                i = draw(st.sampled_from(present))      # aim at a stored key
            else:
                i = draw(st.integers(0, len(keys) - 1))
            if kind == "del":
                ops.append(("del", i))
                if i in present:
                    present.remove(i)
            elif kind == "failreplace":
                ops.append(("setfail", i, draw(value), draw(st.integers(0, 3))))
            else:
                ops.append(("set", i, draw(value)))
                if i not in present:
                    present.append(i)
        return dict(keys=keys, ops=ops, frac=draw(st.integers(1, 99)), subclass=draw(st.booleans()))

    return history()


def _empty_key_strategy():
    value = st.binary(max_size=10)
    op = st.one_of(st.tuples(st.just("set"), st.integers(0, 1), value),
                   st.tuples(st.just("del"), st.integers(0, 1)))
    return st.builds(dict, keys=st.just([b"a", b""]), ops=st.lists(op, min_size=1, max_size=4),
                     frac=st.just(50))


def _small_histories(maxlen):
    vals = [b"", b"v1", b"another value"]
    alphabet = []
    for k in (0, 1):
        for v in vals:
            alphabet.append(("set", k, v))
        alphabet.append(("del", k))
    alphabet.append(("reopen",))

    def rec(prefix):
        if prefix:
            yield dict(keys=[b"a", b"\xff\xfe"], ops=list(prefix), frac=50)
        if len(prefix) < maxlen:
            for a in alphabet:
                yield from rec(prefix + [a])
    return rec([])


def _failing_histories():
    """Histories of length 3 over one key (first operation a set) in which sets may fail part-way
    (at open / at write / inside the write) and the process carries on; run on
    the subclass that overrides the _writeFile hook."""
    alphabet = [("set", 0, b"v1"), ("set", 0, b"another value"), ("del", 0), ("reopen",),
                ("setfail", 0, b"replacement!", 0), ("setfail", 0, b"replacement!", 1),
                ("setfail", 0, b"replacement!", 2), ("setfail", 0, b"replacement!", 3)]
    for a in alphabet[:2] + alphabet[4:5]:
        for b in alphabet:
            for c in alphabet:
                if any(x[0] == "setfail" for x in (a, b, c)):
                    for sub in (True, False):
                        yield dict(keys=[b"a"], ops=[a, b, c], frac=50, subclass=sub)


def _enum_shard(sub, arg):
    i, n, maxlen = arg
    cases = (c for j, c in enumerate(_small_histories(maxlen)) if j % n == i)
    enumerate_run(sub, cases, run_case)


def _hyp_shard(sub, i):
    hyp_run(sub, _strategy(), run_case, 600, label=f"hist-{i}")


def run(ctx):
    maxlen = ctx.pick(2, 4)
    n = ctx.pick(2, 16)
    ctx.shards(_enum_shard, [(i, n, maxlen) for i in range(n)])
    ctx.extra["complete_histories_up_to_length"] = maxlen
    if not ctx.has_violation():
        enumerate_run(ctx, _failing_histories(), run_case)
    ctx.exhaustive = False
    if ctx.has_violation():
        return
    hyp_run(ctx, _empty_key_strategy(), run_case, ctx.pick(15, 200), label="emptykey")
    if ctx.has_violation():
        return
    if ctx.thorough:
        ctx.shards(_hyp_shard, list(range(16)))
    else:
        hyp_run(ctx, _strategy(), run_case, 100, label="hist")
