"""C52 — FilePath.setContent and sob.Persistent.save leave old-or-new at every crash point.

The real code runs in a scratch directory.  Before every state-changing
filesystem call it makes (os.open with create/write flags, builtin open for
writing, os.rename/remove/unlink) and before / inside every write (split at
several lengths by the harness) the directory content is snapshotted: each
snapshot is what a process crash at that point leaves behind.  The oracle
looks at each snapshot: the target is complete-old or complete-new, and any
other file in the directory carries the temporary-name pattern.
"""
import io
import os
import pickle

from hypothesis import strategies as st

from lib.core import hyp_run, enumerate_run
from lib import harness

META = dict(
    property="C52",
    level="fault_enumeration",
    technique="directory snapshot before every state-changing filesystem call and at partial lengths inside every write of FilePath.setContent and sob.Persistent.save (pickle and source styles); old-or-new oracle on every snapshot",
    level_text="All crash points of every generated replacement are enumerated: before os.open/open-for-write, before each write and after 1, n/2, n-1 and one generated length of it (every length for n <= 12), before rename/remove, and the final state. Contents, target existence, name, extension (str/bytes, several values), path mode, sob style/tag/filename and the saved objects are generated (Hypothesis) plus a complete small grid. If the code under test writes through a raw (unbuffered) file, the harness, acting as the OS, may accept only part of a write() and report that in the return value (short write). Process-crash model: completed system calls persist in order (no power-loss reordering; that is what the docstring's journaling assumptions are about).",
    level_note="Trusted: the recorder sees every state-changing call because os.open/os.fdopen/os.rename/os.remove/os.unlink and the name `open` inside twisted.python.filepath and twisted.persisted.sob are all replaced while the code under test runs. UNIX path only (the documented Windows delete-then-rename window is outside this platform).",
    design_ref="§5 C52",
    rule="case = (api, old content or absent, new content, naming variation, partial-write fraction, optionally an earlier call that crashed at a generated crash point so that this call starts with its leftover temporary file). One evaluation = one replacement with all its crash states. non-trivial = a crash state in which a temporary file holds a partial or complete copy of the new content while the target still shows the old state; distinct by (api, old, bytes written so far, new).",
)

_os_open, _os_fdopen, _os_rename, _os_remove, _os_unlink = os.open, os.fdopen, os.rename, os.remove, os.unlink
_builtin_open = open
_WRITE_FLAGS = os.O_WRONLY | os.O_RDWR | os.O_CREAT | os.O_TRUNC | os.O_APPEND


def _read_dir(d):
    out = {}
    for n in sorted(os.listdir(d)):
        p = os.path.join(d, n)
        if os.path.isfile(p):
            with _builtin_open(p, "rb") as fh:
                out[n] = fh.read()
        else:
            out[n] = None
    return out


class _Recorder:
    def __init__(self, d, frac, short=None):
        self.d = d
        self.frac = frac
        self.short = short        # percentage at which a raw write() is cut short (None: never)
        self.raw_writes = 0
        self.short_returns = 0
        self.active = False
        self.states = []      # (why, {name: bytes})
        self.calls = 0        # crash points seen (states are de-duplicated)

    def snap(self, why):
        self.calls += 1
        tree = _read_dir(self.d)
        if self.states and self.states[-1][1] == tree:
            return
        self.states.append((why, tree))

    def cuts(self, n):
        if n <= 12:
            return list(range(1, n))
        return sorted({1, n // 2, n - 1, max(1, min(n - 1, (n * self.frac) // 100))})


class _WFile:
    """File object whose writes reach the disk in pieces, with a snapshot after
    each; the last piece of every write stays in a user-space buffer until
    flush()/close()/the next write, as with a real buffered file."""

    def __init__(self, rec, f):
        self._rec = rec
        self._f = f
        self._pending = b""
        # a raw (unbuffered) file hands write() straight to the OS, which may
        # accept fewer bytes than offered and say so only in the return value
        self._raw = isinstance(f, io.RawIOBase)
        self._shorted = False

    def _drain(self, why):
        if self._pending:
            if self._rec.active:
                self._rec.snap(why)
            self._f.write(self._pending)
            self._pending = b""
        self._f.flush()

    def write(self, data):
        rec = self._rec
        if isinstance(data, str):
            data = data.encode(getattr(self._f, "encoding", None) or "utf-8")
            raw_f = getattr(self._f, "buffer", None)
            if raw_f is not None:
                self._f.flush()
                self._f = raw_f
        raw = bytes(data)
        self._drain("before the buffered rest of the previous write")
        if not rec.active:
            self._f.write(raw)
            return len(raw)
        rec.snap("before write")
        if self._raw:
            rec.raw_writes += 1
            if rec.short is not None and not self._shorted and len(raw) > 1:
                # the OS takes only part of it (disk filling up, quota, RLIMIT_FSIZE, >2 GiB): no error, short count
                k = max(1, min(len(raw) - 1, (len(raw) * rec.short) // 100))
                self._f.write(raw[:k])
                self._shorted = True
                rec.short_returns += 1
                return k
        prev = 0
        for c in rec.cuts(len(raw)):
            self._f.write(raw[prev:c])
            self._f.flush()
            prev = c
            rec.snap(f"inside write {c}/{len(raw)}")
        if self._raw:
            self._f.write(raw[prev:])
            return len(raw)
        self._pending = raw[prev:]
        return len(data)

    def flush(self):
        self._drain("before flush of buffered bytes")

    def close(self):
        self._drain("before close flushes buffered bytes")
        self._f.close()

    def __enter__(self):
        return self

    def __exit__(self, *a):
        self.close()

    def __getattr__(self, name):
        return getattr(self._f, name)


class _Patched:
    def __init__(self, rec):
        self.rec = rec

    def __enter__(self):
        from twisted.python import filepath
        from twisted.persisted import sob
        rec = self.rec

        def wrap(real, name):
            def f(*a, **kw):
                if rec.active:
                    rec.snap("before " + name)
                return real(*a, **kw)
            return f

        def os_open(path, flags, *a, **kw):
            if rec.active and flags & _WRITE_FLAGS:
                rec.snap("before os.open")
            return _os_open(path, flags, *a, **kw)

        def os_fdopen(fd, mode="r", *a, **kw):
            f = _os_fdopen(fd, mode, *a, **kw)
            if rec.active and any(c in mode for c in "wax+"):
                return _WFile(rec, f)
            return f

        def mod_open(path, mode="r", *a, **kw):
            if rec.active and any(c in mode for c in "wax+"):
                rec.snap("before open " + mode)
                return _WFile(rec, _builtin_open(path, mode, *a, **kw))
            return _builtin_open(path, mode, *a, **kw)

        self.mods = [filepath, sob]
        self.had = [("open" in vars(m), vars(m).get("open")) for m in self.mods]
        os.open, os.fdopen = os_open, os_fdopen
        os.rename = wrap(_os_rename, "rename")
        os.remove = wrap(_os_remove, "remove")
        os.unlink = wrap(_os_unlink, "unlink")
        for m in self.mods:
            m.open = mod_open
        return self

    def __exit__(self, *a):
        os.open, os.fdopen, os.rename, os.remove, os.unlink = _os_open, _os_fdopen, _os_rename, _os_remove, _os_unlink
        for m, (had, val) in zip(self.mods, self.had):
            if had:
                m.open = val
            else:
                del m.open


def _count_raw(ctx, rec, api):
    if rec.short is not None:
        ctx.count(f"{api}: short-write dimension armed")
    if rec.raw_writes:
        ctx.count(f"{api}: code under test wrote through a raw (unbuffered) file")
    if rec.short_returns:
        ctx.count(f"{api}: raw write() returned a short count")


def _materialize(d, tree):
    """Make directory d hold exactly `tree` (a crash state of an earlier call)."""
    for n in os.listdir(d):
        _os_remove(os.path.join(d, n))
    for n, content in tree.items():
        with _builtin_open(os.path.join(d, n), "wb") as fh:
            fh.write(content)


def _judge(ctx, case, states, target, old, new, is_temp, api, pre_extra=()):
    """states: [(why, {name: bytes})]; the last one is the state after the call
    returned.  pre_extra: temporary files an earlier crashed call had left in the
    directory before this call started (they may stay or be consumed)."""
    inflight = 0
    for i, (why, tree) in enumerate(states):
        last = i == len(states) - 1
        got = tree.get(target, "absent") if target in tree else "absent"
        if last:
            if got != new:
                ctx.violation(f"{api}:completed-call-wrong-content", case,
                              f"after the call returned the target holds {got!r:.80}, expected {new!r:.80}")
            extra = [n for n in tree if n != target and n not in pre_extra]
            if extra:
                ctx.violation(f"{api}:completed-call-left-files", case, f"files left after a completed call: {extra}")
            continue
        if got == "absent":
            if old is not None:
                ctx.violation(f"{api}:target-missing-at-crash", case,
                              f"crash {why}: the target existed with {old!r:.60} and is now absent; directory {sorted(tree)}")
        elif got != old and got != new:
            if isinstance(got, bytes) and new.startswith(got):
                ctx.violation(f"{api}:target-partial-new-content", case,
                              f"crash {why}: target holds the first {len(got)} of {len(new)} new bytes (old: {old!r:.40})")
            ctx.violation(f"{api}:target-corrupt-at-crash", case,
                          f"crash {why}: target holds {got!r:.80}; old {old!r:.60}; new {new!r:.60}")
        for n, content in tree.items():
            if n == target:
                continue
            if not is_temp(n):
                ctx.violation(f"{api}:leftover-without-temporary-name", case,
                              f"crash {why}: file {n!r} beside target {target!r} does not carry the temporary-name pattern")
            if (got == old or (old is None and got == "absent")) and content is not None and new.startswith(content):
                inflight += 1
                ctx.nontrivial((api, old, len(content), new))
    ctx.extra["crash_states"] = ctx.extra.get("crash_states", 0) + len(states)
    ctx.count(f"{api}: old {'absent' if old is None else 'present'}")
    if inflight:
        ctx.count(f"{api}: histories with in-flight crash states")


def _case_setcontent(ctx, case, d):
    from twisted.python.filepath import FilePath
    name, ext, old, new = case["name"], case["ext"], case["old"], case["new"]
    target_path = os.path.join(d, name)
    if old is not None:
        with _builtin_open(target_path, "wb") as f:
            f.write(old)
    pre_extra = ()
    if case.get("mid") is not None:
        # an earlier setContent(mid) crashed at one of its crash points; this
        # call starts on what it left behind
        rec0 = _Recorder(d, case.get("frac", 50), case.get("short"))
        fp0 = FilePath(target_path)
        with _Patched(rec0):
            rec0.active = True
            try:
                fp0.setContent(case["mid"]) if ext is None else fp0.setContent(case["mid"], ext)
            finally:
                rec0.active = False
            rec0.snap("call returned")
        tree = rec0.states[case.get("resume", 0) % len(rec0.states)][1]
        _materialize(d, tree)
        old = tree.get(name)
        pre_extra = tuple(n for n in tree if n != name)
        ctx.count("setContent: started on a crash state of an earlier call" +
                  (" (leftover temporary file)" if pre_extra else ""))
    fp = FilePath(target_path.encode() if case.get("bytes_path") else target_path)
    if case.get("statted"):
        fp.exists()          # cached stat information must not matter
    rec = _Recorder(d, case.get("frac", 50), case.get("short"))
    with _Patched(rec):
        rec.active = True
        try:
            if ext is None:
                fp.setContent(new)
            else:
                fp.setContent(new, ext)
        finally:
            rec.active = False
        rec.snap("call returned")
    _count_raw(ctx, rec, "setContent")
    ext_s = ".new" if ext is None else (ext.decode() if isinstance(ext, bytes) else ext)
    _judge(ctx, case, rec.states, name, old, new,
           lambda n: n.endswith(name + ext_s) and n != name, "setContent", pre_extra)
    if rec.calls < 4:
        raise AssertionError(f"recorder saw only {rec.calls} crash points: interception broken?")


def _case_sob(ctx, case, d):
    from twisted.persisted import sob
    style, tag, use_filename = case["style"], case.get("tag"), case.get("use_filename")
    ext = "tas" if style == "source" else "tap"
    name = os.path.join(d, case["name"])
    if use_filename:
        final = os.path.join(d, case["name"] + ".sav")
        kw = dict(filename=final)
    elif tag:
        final = f"{name}-{tag}.{ext}"
        kw = dict(tag=tag)
    else:
        final = f"{name}.{ext}"
        kw = {}
    target = os.path.basename(final)
    old_bytes = None
    pre_extra = ()
    is_temp = lambda n: n == target + "-2" or n == target[:-len(ext) - 1] + "-2." + ext   # noqa: E731
    objs = [case["old_obj"], case["new_obj"]] if case.get("has_old") else [case["new_obj"]]
    for i, obj in enumerate(objs):
        # what a complete save of obj consists of, computed without any file
        if style == "pickle":
            expect = pickle.dumps(obj, 2)
        else:
            from twisted.persisted.aot import jellyToSource
            expect = jellyToSource(obj).encode("utf-8")
        p = sob.Persistent(obj, name)
        p.setStyle(style)
        rec = _Recorder(d, case.get("frac", 50), case.get("short"))
        with _Patched(rec):
            rec.active = True
            try:
                p.save(**kw)
            finally:
                rec.active = False
            rec.snap("call returned")
        _count_raw(ctx, rec, "sob-" + style)
        _judge(ctx, case, rec.states, target, old_bytes, expect, is_temp, "sob-" + style, pre_extra)
        loaded = sob.load(final, style)
        if loaded != obj:
            ctx.violation("sob:saved-object-differs", case, f"load() gives {loaded!r:.80}, saved {obj!r:.80}")
        if rec.calls < 4:
            raise AssertionError(f"recorder saw only {rec.calls} crash points: interception broken?")
        old_bytes = expect
        if i == 0 and len(objs) == 2 and case.get("resume") is not None:
            # the first save did not complete: it crashed at one of its crash
            # points, and the second save starts on what it left behind
            tree = rec.states[case["resume"] % len(rec.states)][1]
            _materialize(d, tree)
            old_bytes = tree.get(target)
            pre_extra = tuple(n for n in tree if n != target)
            ctx.count(f"sob-{style}: second save started on a crash state of the first")
            if pre_extra:
                left = max(len(tree[n]) for n in pre_extra)
                ctx.count(f"sob-{style}: leftover temporary file present at start")
                if style == "pickle":
                    nxt = len(pickle.dumps(objs[1], 2))
                else:
                    from twisted.persisted.aot import jellyToSource
                    nxt = len(jellyToSource(objs[1]).encode("utf-8"))
                if left > nxt:
                    ctx.count(f"sob-{style}: leftover temporary file longer than the next serialisation")


def run_case(ctx, case):
    with harness.scratch_dir("C52") as d:
        if case["api"] == "setContent":
            _case_setcontent(ctx, case, d)
        else:
            _case_sob(ctx, case, d)
    if len(ctx.samples) < 5 and case.get("frac", 0) % 9 == 4:
        ctx.sample(case)


# ---------------------------------------------------------------------------

def _content():
    return st.one_of(
        st.binary(max_size=14),
        st.binary(max_size=400),
        st.builds(lambda b, n: (b or b"x") * n, st.binary(min_size=1, max_size=8), st.integers(200, 9000)),
        st.just(b""),
    )


def _setcontent_strategy():
    name = st.sampled_from(["target", "t.txt", "a b", ".hidden", "x.new", "ünï"])
    ext = st.one_of(st.none(), st.sampled_from([".new", ".tmp", b".new", b".partial", "~", ".x.y"]))

    @st.composite
    def case(draw):
        new = draw(_content())
        old = draw(st.one_of(st.none(), _content(), st.just(new),
                             st.integers(0, len(new)).map(lambda k: new[:k])))     # old may be a prefix of new
        mid = draw(st.one_of(st.none(), _content()))
        return dict(api="setContent", name=draw(name), ext=draw(ext), old=old, new=new, mid=mid,
                    resume=draw(st.integers(0, 12)), short=draw(st.one_of(st.none(), st.integers(1, 99))),
                    bytes_path=draw(st.booleans()), statted=draw(st.booleans()), frac=draw(st.integers(1, 99)))
    return case()


def _obj():
    leaf = st.one_of(st.integers(-10**12, 10**12), st.text(max_size=20), st.booleans(), st.none(),
                     st.floats(allow_nan=False, allow_infinity=False), st.binary(max_size=20))
    return st.recursive(leaf, lambda ch: st.one_of(
        st.lists(ch, max_size=5), st.dictionaries(st.text(max_size=6), ch, max_size=5)), max_leaves=25)


def _sob_strategy():
    return st.builds(dict, api=st.just("sob"), style=st.sampled_from(["pickle", "source"]),
                     name=st.sampled_from(["app", "my app", "srv.1"]),
                     tag=st.one_of(st.none(), st.sampled_from(["shutdown", "t2"])),
                     use_filename=st.booleans(), has_old=st.booleans(),
                     resume=st.one_of(st.none(), st.integers(0, 12)),
                     short=st.one_of(st.none(), st.integers(1, 99)),
                     old_obj=_obj(), new_obj=_obj(), frac=st.integers(1, 99))


def _grid():
    contents = [b"", b"x", b"old content", b"old content plus", b"Z" * 70]
    for old in [None] + contents:
        for new in contents:
            for ext in (None, ".tmp", b".new"):
                yield dict(api="setContent", name="t.txt", ext=ext, old=old, new=new,
                           bytes_path=ext is not None and isinstance(ext, bytes), statted=old is not None, frac=37, short=50)
    objs = [{}, [1, 2, 3], {"a": [1, "two", 3.0, None], "b": {"c": b"bytes"}}, "s" * 50]
    for style in ("pickle", "source"):
        for has_old in (False, True):
            for o in objs:
                for n in objs:
                    if not has_old and o is not objs[0]:
                        continue
                    for tag, use_filename in ((None, False), ("shutdown", False), (None, True)):
                        yield dict(api="sob", style=style, name="app", tag=tag, use_filename=use_filename,
                                   has_old=has_old, old_obj=o, new_obj=n, frac=37, short=50)
                    if has_old:
                        # the second save starts on every crash state of the first
                        for resume in range(0, 9):
                            yield dict(api="sob", style=style, name="app", tag=None, use_filename=False,
                                       has_old=True, old_obj=o, new_obj=n, frac=37, resume=resume, short=50)


def _hyp_shard(sub, i):
    hyp_run(sub, _setcontent_strategy(), run_case, 2000, label=f"setContent-{i}")
    hyp_run(sub, _sob_strategy(), run_case, 1200, label=f"sob-{i}")


def run(ctx):
    enumerate_run(ctx, _grid(), run_case)
    ctx.exhaustive = False
    if ctx.has_violation():
        return
    if ctx.thorough:
        ctx.shards(_hyp_shard, list(range(16)))
    else:
        hyp_run(ctx, _setcontent_strategy(), run_case, 500, label="setContent")
        if not ctx.has_violation():
            hyp_run(ctx, _sob_strategy(), run_case, 300, label="sob")
