"""C53 — LogFile rotation loses, duplicates and reorders nothing; crash states inside rotate() too.

The real LogFile runs in a scratch directory.  After every operation the
directory is read back and compared with the only two transitions the property
allows: "appended to the current file" or "rotated (every retained file moved
up by one, the oldest beyond the retention count dropped, current file became
.1, which then must have been at least rotateLength long) and then appended".
While an operation runs, the directory is snapshotted before every
remove/rename/open-for-write: those are the crash states; each must still hold a
byte-exact suffix of everything written (all of it without a retention count),
and a LogFile opened on it must be able to rotate on without breaking that.
"""
import os

from hypothesis import strategies as st

from lib.core import hyp_run, enumerate_run
from lib import harness

META = dict(
    property="C53",
    level="fault_enumeration",
    technique="random write/rotate/reopen histories on the real LogFile with an exact directory-transition oracle after every operation, plus directory snapshots before every remove/rename/open inside rotate() (crash states) checked for the suffix property and for a clean continuation",
    level_text="Histories of bytes and (multi-byte) text writes, explicit rotate(), flush, reopen() (also after an external tool has moved or truncated the current file, the documented use of reopen()) and close+new instance, rotateLength 1..200 or None, maxRotatedFiles None, 1..4 or 9..14, optionally up to 13 pre-existing rotated files (so that suffixes reach two digits), several file names and log directory names (including ones with glob metacharacters). After every operation the whole directory is compared with the permitted transitions (exact content of every file). Every crash point inside every rotation (before each os.remove/os.rename and before the new file is opened) is enumerated: the files present, oldest first, must be a byte suffix of everything written (everything, if there is no retention count), and a new LogFile opened on that state must rotate once more with the same guarantee. Histories are sampled (Hypothesis) plus a complete enumeration of short histories over a small alphabet.",
    level_note="Promptness of rotation is not asserted (the statement does not; LogFile counts characters, not bytes, so rotation after multi-byte text may come late, which the statement allows). Runs as a user for whom os.access() succeeds. Process-crash model: completed system calls persist in order. Partial writes of a single write() are not enumerated (the file is unbuffered; a prefix of the last write is trivially a suffix-preserving state).",
    design_ref="§5 C53",
    rule="case = (name, rotateLength, maxRotatedFiles, pre-existing rotated files, operation list). One evaluation = one history with all its crash states. non-trivial = a rotation that had at least one older rotated file to move (or drop); distinct by (retention count, contents of the files before the rotation).",
)

_os_remove, _os_rename = os.remove, os.rename
_builtin_open = open
GLOB_CHARS = "[*?"


def _read(d, name):
    """(rotated {suffix: bytes}, current bytes or None, other names)."""
    rotated, current, other = {}, None, []
    for n in os.listdir(d):
        with _builtin_open(os.path.join(d, n), "rb") as fh:
            data = fh.read()
        if n == name:
            current = data
        elif n.startswith(name + ".") and n[len(name) + 1:].isdigit() and int(n[len(name) + 1:]) > 0 \
                and str(int(n[len(name) + 1:])) == n[len(name) + 1:]:
            rotated[int(n[len(name) + 1:])] = data
        else:
            other.append(n)
    return rotated, current, sorted(other)


def _concat(rotated, current):
    return b"".join(rotated[i] for i in sorted(rotated, reverse=True)) + (current or b"")


class _Recorder:
    def __init__(self, d, name):
        self.d, self.name = d, name
        self.active = False
        self.states = []

    def snap(self, why):
        st_ = _read(self.d, self.name)
        if self.states and self.states[-1][1] == st_:
            return
        self.states.append((why, st_))


class _Patched:
    def __init__(self, holder):
        self.h = holder

    def __enter__(self):
        from twisted.python import logfile
        h = self.h

        def wrap(real, name):
            def f(*a, **kw):
                rec = h["rec"]
                if rec is not None and rec.active:
                    rec.snap("before " + name)
                return real(*a, **kw)
            return f

        def mod_open(path, mode="r", *a, **kw):
            rec = h["rec"]
            if rec is not None and rec.active and any(c in mode for c in "wax"):
                rec.snap("before open " + mode)
            return _builtin_open(path, mode, *a, **kw)

        self.logfile = logfile
        self.had = "open" in vars(logfile)
        os.remove = wrap(_os_remove, "remove")
        os.rename = wrap(_os_rename, "rename")
        logfile.open = mod_open
        return self

    def __exit__(self, *a):
        os.remove, os.rename = _os_remove, _os_rename
        if not self.had:
            del self.logfile.open


def _rotated_after(rotated, current, keep):
    new = {1: current}
    for i, data in rotated.items():
        if keep is None or i < keep:
            new[i + 1] = data
    return new


_DIRNAME = {"v": "logs"}


def _sig(base, name):
    return (base + (":glob-metacharacters-in-name" if any(c in name for c in GLOB_CHARS) else "")
            + (":glob-metacharacters-in-directory" if any(c in _DIRNAME["v"] for c in GLOB_CHARS) else ""))


def _check_crash_states(ctx, case, states, written, keep, name, d, rot_len, holder, what):
    """Every snapshot taken while `what` ran; `written` = everything written before it."""
    from twisted.python.logfile import LogFile
    for k, (why, (rotated, current, other)) in enumerate(states):
        have = _concat(rotated, current)
        ctx.extra["crash_states"] = ctx.extra.get("crash_states", 0) + 1
        if other:
            ctx.violation(_sig("crash-state-stray-file", name), case, f"crash {why} during {what}: unexpected files {other}")
        if not written.endswith(have):
            ctx.violation(_sig("crash-state-not-a-suffix", name), case,
                          f"crash {why} during {what}: files oldest-first hold {have!r:.120}, which is not a suffix of what was written {written!r:.120}")
        if keep is None and have != written:
            ctx.violation(_sig("crash-state-lost-data-without-retention-count", name), case,
                          f"crash {why} during {what}: {len(written) - len(have)} of {len(written)} bytes are gone; files {sorted(rotated)} current={'absent' if current is None else len(current)}")
        if k == 0:
            continue    # nothing has been moved yet: the same as an ordinary state between operations
        # a new process opens the log on this state and rotates once more
        sub = os.path.join(d, f"crash{ctx.extra['crash_states']}", _DIRNAME["v"])
        os.makedirs(sub)
        for i, data in rotated.items():
            with _builtin_open(os.path.join(sub, f"{name}.{i}"), "wb") as fh:
                fh.write(data)
        if current is not None:
            with _builtin_open(os.path.join(sub, name), "wb") as fh:
                fh.write(current)
        outer = holder["rec"]
        holder["rec"] = None
        try:
            lf = LogFile(name, sub, rotateLength=rot_len, maxRotatedFiles=keep)
            lf.write(b"<after-crash>")
            lf.rotate()
            lf.close()
        finally:
            holder["rec"] = outer
        r2, c2, o2 = _read(sub, name)
        have2 = _concat(r2, c2)
        total = have + b"<after-crash>"
        if not total.endswith(have2) or (keep is None and have2 != total) or o2:
            ctx.violation(_sig("continuation-after-crash-breaks-order", name), case,
                          f"crash {why} during {what}, then a new LogFile wrote and rotated: files hold {have2!r:.120}, expected a suffix of {total!r:.120}")
        if keep is not None and len(r2) > keep:
            ctx.violation(_sig("retention-count-exceeded", name), case,
                          f"crash {why} during {what}, then write+rotate: {len(r2)} rotated files with maxRotatedFiles={keep}")


def run_case(ctx, case):
    from twisted.python.logfile import LogFile
    name, rot_len, keep = case["name"], case["rotateLength"], case["maxRotatedFiles"]
    holder = {"rec": None}
    with harness.scratch_dir("C53") as work, _Patched(holder):
        dirname = case.get("dirname") or "logs"
        _DIRNAME["v"] = dirname
        d = os.path.join(work, dirname)
        os.mkdir(d)
        if dirname != "logs":
            ctx.count("log directory name: " + ("with glob metacharacters" if any(c in dirname for c in GLOB_CHARS) else "other"))
        pre = case.get("pre") or []
        for i, data in enumerate(pre):
            with _builtin_open(os.path.join(d, f"{name}.{i + 1}"), "wb") as fh:
                fh.write(data)
        if case.get("pre_current") is not None:
            with _builtin_open(os.path.join(d, name), "wb") as fh:
                fh.write(case["pre_current"])
        rotated, current, _ = _read(d, name)
        written = _concat(rotated, current)
        rec = _Recorder(d, name)
        holder["rec"] = rec

        def mk():
            return LogFile(name, d, rotateLength=rot_len, maxRotatedFiles=keep)

        lf = mk()
        current = current or b""
        rotations = 0
        moved = 0
        external = False
        for n, op in enumerate(case["ops"]):
            kind = op[0]
            data = b""
            rec.states = []
            rec.active = True
            try:
                if kind == "w":
                    data = op[1]
                    lf.write(data)
                elif kind == "t":
                    data = op[1].encode("utf-8")
                    lf.write(op[1])
                    if len(data) != len(op[1]):
                        ctx.count("multi-byte text write")
                elif kind == "rotate":
                    lf.rotate()
                elif kind == "flush":
                    lf.flush()
                elif kind == "reopen":
                    lf.reopen()
                elif kind == "new":
                    lf.close()
                    lf = mk()
                elif kind in ("ext_move", "ext_truncate"):
                    # an external rotation tool takes the current file away
                    # (rename) or copies and truncates it, then asks the logger
                    # to reopen(): the documented purpose of reopen()
                    moved += 1
                    rec.active = False
                    if kind == "ext_move":
                        _os_rename(os.path.join(d, name), os.path.join(work, f"moved-away.{moved}"))
                    else:
                        with _builtin_open(os.path.join(d, name), "r+b") as fh:
                            fh.truncate(0)
                    rec.active = True
                    lf.reopen()
                    # what the tool took is no longer the logger's to retain
                    current = b""
                    written = _concat(rotated, None)
                    ctx.count("external " + ("move" if kind == "ext_move" else "truncate") + " + reopen()")
                    external = True
                else:
                    raise AssertionError(kind)
            finally:
                rec.active = False
            what = f"op #{n} {kind}"
            r2, c2, other = _read(d, name)
            if other:
                ctx.violation(_sig("stray-file", name), case, f"after {what}: unexpected files {other}")
            appended = (r2 == rotated and c2 == current + data)
            rot_expect = _rotated_after(rotated, current, keep)
            rotated_ok = (r2 == rot_expect and c2 == data)
            if kind == "rotate":
                ok = rotated_ok
            elif kind in ("w", "t"):
                ok = appended or rotated_ok
            else:
                ok = appended
            listed = lf.listLogs()
            if listed != sorted(r2):
                ctx.violation(_sig("listLogs-misses-rotated-files", name), case,
                              f"after {what}: listLogs() = {listed}, rotated files on disk = {sorted(r2)}")
            if not ok:
                have = _concat(r2, c2)
                total = written + data
                if r2.get(1) == current and c2 == data and r2 != rot_expect:
                    if keep is not None and len(r2) > keep:
                        ctx.violation(_sig("retention-count-exceeded", name), case,
                                      f"after {what}: rotated files {sorted(r2)} with maxRotatedFiles={keep}")
                    ctx.violation(_sig("rotation-shifted-files-wrongly", name), case,
                                  f"after {what}: rotated files before {({k: v[:20] for k, v in rotated.items()})}, after {({k: v[:20] for k, v in r2.items()})}, expected {({k: v[:20] for k, v in rot_expect.items()})}")
                if kind == "rotate" and appended:
                    ctx.violation("explicit-rotate-did-nothing", case, f"after {what}: directory unchanged")
                if not total.endswith(have):
                    ctx.violation(_sig("data-lost-or-reordered", name), case,
                                  f"after {what}: files oldest-first hold {have!r:.160}; written so far {total!r:.160}")
                ctx.violation(_sig("unexpected-directory-transition", name), case,
                              f"after {what}: before rotated={sorted(rotated)} current={current!r:.40}; after rotated={sorted(r2)} current={c2!r:.40}")
            if rotated_ok and not (appended and kind != "rotate"):
                rotations += 1
                ctx.count("rotation (explicit)" if kind == "rotate" else "rotation (automatic)")
                if kind != "rotate":
                    if not rot_len or len(current) < rot_len:
                        ctx.violation("rotated-below-rotateLength", case,
                                      f"{what}: the current file was rotated at {len(current)} bytes, rotateLength={rot_len}")
                if external:
                    ctx.count("rotation after an external move/truncate + reopen()")
                if rotated:
                    ctx.nontrivial((keep, sorted(rotated.items()), current))
                    ctx.count("rotation moving older files")
                    if max(rotated) >= 9:
                        ctx.count("rotation with two-digit suffixes (>= 9 older files)")
                    if keep is not None and any(i >= keep for i in rotated):
                        ctx.count("rotation dropping a file beyond the retention count")
                _check_crash_states(ctx, case, rec.states, written, keep, name, work, rot_len, holder, what)
            written += data
            rotated, current = r2, c2
        lf.close()
    ctx.count(f"retention={'none' if keep is None else 'set'}")
    if len(ctx.samples) < 5 and rotations >= 3 and len(case["ops"]) % 4 == 1:
        ctx.sample(case)


# ---------------------------------------------------------------------------

def _strategy(names):
    chunk = st.one_of(st.binary(min_size=0, max_size=12), st.binary(min_size=1, max_size=120))
    text = st.one_of(st.text(max_size=10), st.text(alphabet="aé€😀\n", min_size=1, max_size=40))
    op = st.one_of(
        st.tuples(st.just("w"), chunk), st.tuples(st.just("w"), chunk), st.tuples(st.just("w"), chunk),
        st.tuples(st.just("t"), text), st.tuples(st.just("t"), text),
        st.tuples(st.just("rotate")), st.tuples(st.just("reopen")), st.tuples(st.just("new")),
        st.tuples(st.just("ext_move")), st.tuples(st.just("ext_truncate")),
        st.tuples(st.just("flush")),
    )
    return st.builds(
        dict,
        name=st.sampled_from(names),
        dirname=st.sampled_from(["logs", "logs", "run[1]", "var.log", "a*b?", "[x]"]),
        rotateLength=st.one_of(st.integers(1, 12), st.integers(1, 200), st.none()),
        maxRotatedFiles=st.one_of(st.none(), st.integers(1, 4), st.integers(9, 14)),
        pre=st.one_of(st.just([]), st.lists(st.binary(max_size=8), max_size=5),
                      st.lists(st.binary(min_size=1, max_size=4), min_size=8, max_size=13)),
        pre_current=st.one_of(st.none(), st.binary(max_size=20)),
        ops=st.lists(op, min_size=1, max_size=25),
    )


def _small(maxlen):
    alphabet = [("w", b"ab"), ("w", b"cdefg"), ("t", "é"), ("rotate",), ("new",), ("reopen",), ("ext_move",), ("ext_truncate",)]
    for rot_len in (1, 3):
        for keep in (None, 1, 2):
            def rec(prefix):
                if prefix:
                    yield dict(name="log", rotateLength=rot_len, maxRotatedFiles=keep, pre=[], pre_current=None,
                               ops=list(prefix))
                if len(prefix) < maxlen:
                    for a in alphabet:
                        yield from rec(prefix + [a])
            yield from rec([])


def _many_files():
    """Directories that already hold 8..12 rotated files, then 1..3 rotations:
    suffixes cross from one digit to two (and the retention count cuts there)."""
    for k in range(8, 13):
        pre = [b"f%d;" % i for i in range(1, k + 1)]
        for keep in (None, 9, 10, 11, 12):
            for ops in ([("rotate",)], [("w", b"xy"), ("w", b"z"), ("w", b"w")],
                        [("rotate",), ("new",), ("w", b"abc"), ("rotate",), ("t", "é"), ("w", b"q")]):
                yield dict(name="log", rotateLength=2, maxRotatedFiles=keep, pre=pre, pre_current=b"cur",
                           ops=list(ops))
    # unusual directory names, a few rotations each
    for dirname in ("run[1]", "[x]", "a*b?", "var.log"):
        for keep in (None, 1, 2):
            yield dict(name="log", dirname=dirname, rotateLength=2, maxRotatedFiles=keep, pre=[b"old1;", b"old2;"],
                       pre_current=b"cur", ops=[("w", b"ab"), ("w", b"cd"), ("rotate",), ("new",), ("w", b"ef"), ("w", b"g")])


def _enum_shard(sub, arg):
    i, n, maxlen = arg
    enumerate_run(sub, (c for j, c in enumerate(_small(maxlen)) if j % n == i), run_case)


PLAIN_NAMES = ["log", "my.log", "twistd.log", "a.b.c"]


def _hyp_shard(sub, i):
    hyp_run(sub, _strategy(PLAIN_NAMES), run_case, 1500, label=f"hist-{i}")


def run(ctx):
    maxlen = ctx.pick(3, 4)
    n = ctx.pick(2, 16)
    ctx.shards(_enum_shard, [(i, n, maxlen) for i in range(n)])
    ctx.extra["complete_histories_up_to_length"] = maxlen
    if not ctx.has_violation():
        enumerate_run(ctx, _many_files(), run_case)
    ctx.exhaustive = False
    if ctx.has_violation():
        return
    hyp_run(ctx, _strategy(["app[1].log", "what?.log", "star*"]), run_case, ctx.pick(30, 500), label="globnames")
    if ctx.has_violation():
        return
    if ctx.thorough:
        ctx.shards(_hyp_shard, list(range(16)))
    else:
        hyp_run(ctx, _strategy(PLAIN_NAMES), run_case, 300, label="hist")
