"""C54 — the FTP server (FTP + FTPShell / FTPAnonymousShell) never touches a path outside the shell's root."""
import contextlib
import itertools
import os
import shutil
import sys

from hypothesis import strategies as st

from lib.core import hyp_run, enumerate_run, REPO_SRC, VERIF
from lib import harness

META = dict(
    property="C54",
    level="exploration",
    technique="generated FTP command sessions against the real FTP protocol + FTPShell/FTPAnonymousShell on a scratch root with prefix-sharing siblings, data connections through the real DTP over an in-memory transport, every filesystem call audited with sys.addaudithook; complete small scope of (prefix, command, path)",
    level_text="Each case is a whole control-connection session (login as a user -> FTPShell, or anonymous -> FTPAnonymousShell; then CWD/CDUP/PWD/MKD/RMD/DELE/RNFR/RNTO/SIZE/MDTM/LIST/NLST/RETR/STOR/APPE/raw lines with hostile path arguments). While the session runs, every open/listdir/scandir/mkdir/rmdir/remove/rename/link/symlink/truncate/chmod event is recorded and each path must resolve inside realpath(root); afterwards everything in the scratch tree outside root (T/secret, T/root.secret, T/rootsib/...) must be byte-identical, and no control or data output may contain the content of an outside file. Quick tier enumerates every (prefix in {none, CWD sub, CWD sub/deep}) x (command) x (path of <= 2 segments over 5 atoms, relative and absolute, plus classic traversal spellings), and for both shells every command x every one-character disguise of '..' (NUL, 0x01, TAB, 0x1f, DEL, space inserted at each position) x climb targets (prefix-sharing sibling, its files, the parent's files), from / and from /sub, and renames/RMD/DELE/MKD/STOR whose source or destination is the root directory itself (7 spellings x 9 peers); roots that start with a single file, a single empty directory, a nested pair of empty directories or nothing at all (every command x 10 paths, plus clean-out sequences), so that a removal can leave the root empty; longer sessions are sampled.",
    level_note="Only Python-level audit events are seen (stat-type probes and libc calls such as getpwuid are not); DESIGN deliberately leaves stat probes unasserted. The data connection is the real ftp.DTP over an in-memory transport installed by the harness before each data command (PASV/PORT socket set-up is not exercised). reactor.callLater is replaced by a task.Clock for the session. Symbolic links are not created. 'internal server error' replies are counted, not asserted.",
    design_ref="§5 C54",
    rule="case = (shell kind, [root layout,] [(command, path argument)...]); path arguments are concatenations of atoms (.., ., empty, names inside root, sibling/secret names, NUL, backslash, globs, latin-1, absolute scratch paths, and '.'/'..' with control characters, DEL, blanks or NUL inserted before, inside or after them) joined with '/'. non-trivial = authenticated session with at least one filesystem command whose argument contains '..', is absolute, or names a sibling/secret/NUL/backslash; distinct by the whole session.",
)

OUTSIDE = {
    "secret": b"OUTSIDE-MARKER-parent-secret-41c7",
    "root.secret": b"OUTSIDE-MARKER-prefix-file-d2e0",
    "rootsib/secret": b"OUTSIDE-MARKER-sibling-secret-9a9b",
    "rootsib/x": b"OUTSIDE-MARKER-sibling-x-77f1",
    "rootsib/d/y": b"OUTSIDE-MARKER-sibling-d-y-3c3c",
}
INSIDE = {
    "root/a.txt": b"inside a.txt",
    "root/sub/b.txt": b"inside sub/b.txt",
    "root/sub/deep/c.txt": b"inside sub/deep/c.txt",
    "root/empty/.keep": b"",
}
UPLOAD = b"uploaded-by-client"
DATA_CMDS = ("LIST", "NLST", "RETR", "STOR", "APPE")
FS_CMDS = ("CWD", "MKD", "RMD", "DELE", "RNFR", "RNTO", "SIZE", "MDTM", "LIST", "NLST", "RETR", "STOR", "APPE")

# --------------------------------------------------------------------------
# filesystem audit (a hook cannot be removed: install once, gate with a flag)

_AUDIT = {"installed": False, "on": False, "log": []}
_EVENTS = {
    "open": (0,), "os.listdir": (0,), "os.scandir": (0,), "os.mkdir": (0,), "os.rmdir": (0,),
    "os.remove": (0,), "os.rename": (0, 1), "os.chmod": (0,), "os.truncate": (0,),
    "os.symlink": (0, 1), "os.link": (0, 1), "os.utime": (0,), "os.chown": (0,),
}
_MUTATING = {"os.mkdir", "os.rmdir", "os.remove", "os.rename", "os.chmod", "os.truncate", "os.symlink", "os.link",
             "os.utime", "os.chown"}


def _hook(event, args):
    if _AUDIT["on"] and event in _EVENTS:
        extra = args[1] if event == "open" and len(args) > 1 else None
        for i in _EVENTS[event]:
            if i < len(args):
                _AUDIT["log"].append((event, args[i], extra))


@contextlib.contextmanager
def audited():
    if not _AUDIT["installed"]:
        sys.addaudithook(_hook)
        _AUDIT["installed"] = True
    _AUDIT["log"] = []
    _AUDIT["on"] = True
    try:
        yield _AUDIT["log"]
    finally:
        _AUDIT["on"] = False


def _code_dirs():
    import twisted
    dirs = {sys.prefix, sys.base_prefix, sys.exec_prefix, REPO_SRC,
            os.path.dirname(os.path.dirname(os.path.abspath(twisted.__file__))),
            os.path.join(VERIF, "lib"), os.path.join(VERIF, "checks"), os.path.join(VERIF, "vendor"),
            os.path.join(VERIF, ".deps")}
    return tuple(os.path.realpath(d) + os.sep for d in dirs if d)


def _inside(path, top):
    return path == top or path.startswith(top + os.sep)


def outside_accesses(log, root):
    rroot = os.path.realpath(root)
    code = _code_dirs()
    bad = []
    for event, p, _extra in log:
        if isinstance(p, int) or p is None:
            continue
        if not isinstance(p, (str, bytes)):
            p = os.fspath(p)
        if isinstance(p, bytes):
            p = os.fsdecode(p)
        ap = os.path.abspath(p)
        rp = ap if "\x00" in ap else os.path.realpath(ap)
        if _inside(rp, rroot):
            continue
        if (rp + os.sep).startswith(code) and not _inside(rp, os.path.join(VERIF, ".work")):
            continue
        bad.append((event, p))
    return bad


# --------------------------------------------------------------------------
# scratch tree: one per process; root is rebuilt after a session that changed it

_TREE = {}


def _write_files(T, files):
    for rel, data in files.items():
        p = os.path.join(T, rel)
        os.makedirs(os.path.dirname(p), exist_ok=True)
        with open(p, "wb") as f:
            f.write(data)


# The tree sits 8 directories deep inside its scratch directory, so that even a (planted) bug that lets a
# session climb several levels stays inside the scratch directory, where it is both seen and cleaned up.
JAIL = os.path.join(*["j"] * 8)


def _top(T):
    return T[:-len(JAIL) - 1]


def _snapshot_outside(T):
    snap = {}
    for dirpath, dirnames, filenames in os.walk(_top(T)):
        if dirpath == T and "root" in dirnames:
            dirnames.remove("root")
        dirnames.sort()
        rel = os.path.relpath(dirpath, _top(T))
        snap[rel] = "dir"
        for fn in sorted(filenames):
            with open(os.path.join(dirpath, fn), "rb") as f:
                snap[os.path.join(rel, fn)] = f.read()
    return snap


# what the root holds when the session starts: (files, empty directories)
LAYOUTS = {
    "full": (INSIDE, []),
    "onefile": ({"root/a.txt": b"inside a.txt"}, []),
    "onedir": ({}, ["root/only"]),
    "nested": ({}, ["root/in/2024"]),
    "empty": ({}, ["root"]),
}
_LAYOUT = {}


def _rebuild(T, everything=False, layout="full"):
    _LAYOUT[os.getpid()] = layout
    if everything:
        for n in os.listdir(_top(T)):
            p = os.path.join(_top(T), n)
            shutil.rmtree(p) if os.path.isdir(p) and not os.path.islink(p) else os.remove(p)
        os.makedirs(T)
        _write_files(T, OUTSIDE)
    else:
        shutil.rmtree(os.path.join(T, "root"), ignore_errors=True)
    files, dirs = LAYOUTS[layout]
    _write_files(T, files)
    for d in dirs:
        os.makedirs(os.path.join(T, d), exist_ok=True)


@contextlib.contextmanager
def _tree():
    pid = os.getpid()
    if pid in _TREE:
        yield _TREE[pid]
        return
    with harness.scratch_dir("C54") as top:
        T = os.path.join(top, JAIL)
        _rebuild(T, everything=True)
        _TREE[pid] = T
        try:
            yield T
        finally:
            del _TREE[pid]


_PRISTINE = {}


def _pristine():
    if not _PRISTINE:
        with harness.scratch_dir("C54") as top:
            T = os.path.join(top, JAIL)
            _rebuild(T, everything=True)
            _PRISTINE.update(_snapshot_outside(T))
    return _PRISTINE


# --------------------------------------------------------------------------
# the session driver

_FTP = {}


def _ftp_objects():
    if _FTP:
        return _FTP
    from zope.interface import implementer
    from twisted.cred import portal, checkers
    from twisted.internet.testing import StringTransport
    from twisted.protocols import ftp
    from twisted.python.filepath import FilePath

    @implementer(portal.IRealm)
    class Realm:
        def __init__(self, root):
            self.root = root

        def requestAvatar(self, avatarId, mind, *interfaces):
            cls = ftp.FTPAnonymousShell if avatarId is checkers.ANONYMOUS else ftp.FTPShell
            return ftp.IFTPShell, cls(FilePath(self.root)), lambda: None

    class DataTransport(StringTransport):
        """in-memory data connection that drives pull producers (RETR uses FileSender)"""

        def registerProducer(self, producer, streaming):
            StringTransport.registerProducer(self, producer, streaming)
            n = 0
            while not streaming and self.producer is producer and n < 1000:
                producer.resumeProducing()
                n += 1

    class DTPFactoryStub:
        def __init__(self):
            from twisted.internet import defer
            self.deferred = defer.Deferred()

    _FTP.update(Realm=Realm, DataTransport=DataTransport, DTPFactoryStub=DTPFactoryStub)
    return _FTP


def _subst(text, T):
    return text.replace("{T}", T).replace("{ROOT}", os.path.join(T, "root"))


def run_session(case, T):
    """-> (audit log, control output, data output, number of replies)"""
    from twisted.cred import portal, checkers
    from twisted.internet import reactor, task
    from twisted.internet.error import ConnectionDone
    from twisted.internet.testing import StringTransport
    from twisted.protocols import ftp
    from twisted.python.failure import Failure
    o = _ftp_objects()
    root = os.path.join(T, "root")
    clock = task.Clock()
    db = checkers.InMemoryUsernamePasswordDatabaseDontUse()
    db.addUser("user", "pw")
    po = portal.Portal(o["Realm"](root), [checkers.AllowAnonymousAccess(), db])
    factory = ftp.FTPFactory(po)
    control, data = [], []
    had = "callLater" in reactor.__dict__
    saved = reactor.__dict__.get("callLater")
    reactor.callLater = clock.callLater            # FTP.lineReceived and TimeoutMixin ask the global reactor
    try:
        with audited() as log:
            w = factory.buildProtocol(None)
            tr = StringTransport()
            w.makeConnection(tr)
            p = w.wrappedProtocol

            def settle():
                for _ in range(6):
                    clock.advance(0)

            def send(line, is_data):
                dtp = None
                if is_data:
                    dtp = ftp.DTP()
                    dtp.factory = o["DTPFactoryStub"]()
                    dtp.makeConnection(o["DataTransport"]())
                    p.dtpInstance = dtp
                w.dataReceived(line + b"\r\n")
                settle()
                if dtp is not None:
                    if line[:4].upper() in (b"STOR", b"APPE"):
                        dtp.dataReceived(UPLOAD)       # the client's upload (buffered by DTP if nobody consumes it)
                    dtp.connectionLost(Failure(ConnectionDone()))
                    settle()
                    data.append(dtp.transport.value())
                    p.dtpInstance = None

            if case["shell"] == "user":
                send(b"USER user", False)
                send(b"PASS pw", False)
            else:
                send(b"USER anonymous", False)
                send(b"PASS guest@example.org", False)
            for cmd, arg in case["ops"]:
                line = cmd if arg is None else cmd + " " + _subst(arg, T)
                send(line.encode("latin-1", "replace"), cmd.upper() in DATA_CMDS)
            control.append(tr.value())
            w.connectionLost(Failure(ConnectionDone()))
            settle()
            for c in clock.getDelayedCalls():
                c.cancel()
    finally:
        if had:
            reactor.callLater = saved
        else:
            del reactor.callLater
    return list(log), b"".join(control), b"".join(data)


def _ignorable(ch):
    """characters a sloppy sanitizer might drop: C0/C1 controls, DEL, blanks, soft hyphen"""
    o = ord(ch)
    return o <= 0x20 or 0x7f <= o <= 0xa0 or o == 0xad


def _disguised_dots(arg):
    """segments that are not '.'/'..' as sent but collapse to one of them when ignorable characters are dropped"""
    out = []
    for seg in (arg or "").split("/"):
        core = "".join(c for c in seg if not _ignorable(c))
        if seg not in (".", "..") and core in (".", ".."):
            out.append((seg, core))
    return out


def _hostile(arg):
    return arg is not None and (".." in arg or arg.startswith("/") or bool(_disguised_dots(arg)) or any(
        t in arg for t in ("rootsib", "secret", "\x00", "\\", "{T}", "{ROOT}")))


def run_case(ctx, case):
    layout = case.get("layout", "full")
    with _tree() as T:
        root = os.path.join(T, "root")
        if _LAYOUT.get(os.getpid()) != layout:
            _rebuild(T, layout=layout)
        log, control, data = run_session(case, T)
        detail = f"shell={case['shell']} root layout={layout} ops={case['ops']!r}: "
        try:
            bad = outside_accesses(log, root)
            if bad:
                ev, p = bad[0]
                rp = os.path.abspath(p)
                kind = ("sibling-sharing-prefix" if rp.startswith(root) else
                        "scratch-tree" if _inside(rp, _top(T)) else "elsewhere")
                ctx.violation(f"audit-{ev}-outside-root-{kind}", case, detail + f"{ev}({p!r}); root is {root!r}")
            snap = _snapshot_outside(T)
            if snap != _pristine():
                diff = sorted(k for k in set(snap) | set(_PRISTINE) if snap.get(k) != _PRISTINE.get(k))
                ctx.violation("outside-tree-changed", case, detail + f"changed outside root: {diff[:6]!r}")
            for rel, marker in OUTSIDE.items():
                if marker in control or marker in data:
                    ctx.violation("leaked-outside-content", case, detail + f"output contains the content of T/{rel}")
        except BaseException:
            _rebuild(T, everything=True)
            raise
        if any(ev in _MUTATING or (ev == "open" and isinstance(extra, str) and extra[:1] in "wax+")
               for ev, _p, extra in log):
            _rebuild(T, layout=layout)
            ctx.count("session changed the root tree")
    # bookkeeping
    replies = [ln[:3] for ln in control.split(b"\r\n") if ln[:3].isdigit()]
    authed = b"230" in replies
    nh = 0
    for cmd, arg in case["ops"]:
        c = cmd.upper()
        ctx.count("cmd " + (c if c in FS_CMDS or c in ("CDUP", "PWD") else "other"))
        if c in FS_CMDS and _hostile(arg):
            nh += 1
    ctx.count("shell=" + case["shell"])
    ctx.count("root layout=" + layout)
    if layout != "full" and any(ev in ("os.rmdir", "os.remove", "os.rename") for ev, _p, _e in log):
        ctx.count("class: removal/rename in a root that holds (almost) nothing, so that it can become empty")
    for r in replies:
        ctx.count("reply " + r.decode()[:1] + "xx")
    if b"internal server error" in control:
        ctx.count("reply: internal server error (not asserted)")
    ctx.count("audited events", len(log))
    if any(ev == "os.listdir" for ev, _p, _e in log):
        ctx.count("session listed a directory")
    if data.strip():
        ctx.count("session transferred data")
    dis = [d for _c, a in case["ops"] for d in _disguised_dots(a)]
    if dis:
        ctx.count("class: disguised dot segment (control/blank characters in or next to '.'/'..')")
        if any(core == ".." for _s, core in dis):
            ctx.count("class: disguised '..'")
            if any(_disguised_dots(a) and "rootsib" in a for _c, a in case["ops"] if a):
                ctx.count("class: disguised '..' + sibling sharing the root's name prefix")
            if any("\x00" in seg for seg, _c in dis):
                ctx.count("class: disguised '..' using NUL")
            if any("\x00" not in seg for seg, _c in dis):
                ctx.count("class: disguised '..' using another control/blank character")
    names_root = [c for c, a in case["ops"] if a is not None and c.upper() in ("RNFR", "RNTO", "RMD", "DELE", "MKD", "STOR")
                  and not [x for x in a.split("/") if x not in ("", ".")]]
    if names_root:
        ctx.count("class: destructive command aimed at the root directory itself")
        if any(c.upper() in ("RNFR", "RNTO") for c in names_root):
            ctx.count("class: rename with the root directory itself as source or destination")
    if authed and (nh or names_root):
        ctx.nontrivial((case["shell"], layout, tuple(tuple(o) for o in case["ops"])))
        ctx.count("nontrivial")
        if len(ctx.samples) < 5 and len(case["ops"]) >= 3 and nh >= 2:
            ctx.sample(case)


# --------------------------------------------------------------------------
# generators

SEGS = ["..", ".", "", "sub", "deep", "a.txt", "only", "in", "2024", "b.txt", "c.txt", "empty", "new", "new2", "rootsib", "secret", "root",
        "root.secret", "x", "d", "..\\", "\\", "\x00", "a\x00b", "*", "?*", "[a-z]*", "~", " ", "\xff", "...", ". .",
        "{T}", "{ROOT}", "{ROOT}sib", "sib", "a" * 200]
ENUM_SEGS = ["..", "sub", "rootsib", "secret", "a.txt"]
CLASSICS = ["../secret", "../../secret", "../rootsib/secret", "../rootsib", "..", "/..", "/../secret", "/../rootsib/x",
            "sub/../../secret", "sub/deep/../../../secret", "/sub/../../secret", "....//secret", "..\\secret",
            "{T}/secret", "{ROOT}/../secret", "{ROOT}sib/secret", "../root.secret", "/../root.secret", "../root/a.txt",
            "../rootsib/new", "../new", "../rootsib/d", "a.txt/../../secret", "\x00", "../\x00", "*", "../*", "../rootsib/*",
            "", "/", ".", "sub", "sub/b.txt", "a.txt", "new", "empty", "sub/deep"]
PREFIXES = [[], [["CWD", "sub"]], [["CWD", "sub/deep"]]]
# characters that a normalizer may strip or ignore; "\n" is left out (CR LF would end the command line)
IGNORABLE = ["\x00", "\x01", "\x07", "\x08", "\t", "\x0b", "\x0c", "\r", "\x1b", "\x1f", "\x7f", " ", "\x85", "\xa0", "\xad"]
ENUM_IGNORABLE = ["\x00", "\x01", "\t", "\x1f", "\x7f", " "]
CLIMB_TARGETS = ["rootsib", "rootsib/secret", "rootsib/new", "secret"]
READ_COMMANDS = ["CWD", "SIZE", "MDTM", "LIST", "NLST", "RETR"]


def _disguises(base, chars):
    """base with one character of `chars` inserted at every position"""
    return [base[:i] + c + base[i:] for c in chars for i in range(len(base) + 1)]
COMMANDS = ["CWD", "MKD", "RMD", "DELE", "SIZE", "MDTM", "LIST", "NLST", "RETR", "STOR", "APPE", "RNFR", "RNTO"]


def _enum_paths():
    seen = []
    for n in (1, 2):
        for segs in itertools.product(ENUM_SEGS, repeat=n):
            for lead in ("", "/"):
                seen.append(lead + "/".join(segs))
    for c in CLASSICS:
        if c not in seen:
            seen.append(c)
    return seen


def _enum_cases(shell, paths):
    for prefix in PREFIXES:
        for cmd in COMMANDS:
            for path in paths:
                if cmd == "RNFR":                      # rename something inside to the hostile path
                    ops = prefix + [["RNFR", "/a.txt"], ["RNTO", path]]
                elif cmd == "RNTO":                    # rename the hostile path to something inside
                    ops = prefix + [["RNFR", path], ["RNTO", "/new"]]
                else:
                    ops = prefix + [[cmd, path]]
                yield dict(shell=shell, ops=ops)


def _one(cmd, path, prefix):
    if cmd == "RNFR":
        return prefix + [["RNFR", "/a.txt"], ["RNTO", path]]
    if cmd == "RNTO":
        return prefix + [["RNFR", path], ["RNTO", "/new"]]
    return prefix + [[cmd, path]]


def _enum_disguised(shell):
    """every command x every one-character disguise of '..' x every climb target, from / and from /sub"""
    for d in _disguises("..", ENUM_IGNORABLE if shell == "user" else ENUM_IGNORABLE[:2] + ENUM_IGNORABLE[4:5]):
        for target in CLIMB_TARGETS:
            for cmd in (COMMANDS if shell == "user" else READ_COMMANDS):
                yield dict(shell=shell, ops=_one(cmd, d + "/" + target, []))
                yield dict(shell=shell, ops=_one(cmd, "../" + d + "/" + target, [["CWD", "sub"]]))


ROOT_ALIASES = ["/", ".", "", "/.", "//", "sub/..", "/sub/deep/../.."]      # spellings of the root directory itself
RENAME_PEERS = ["new", "/new", "rootsib", "root2", "root.secret", "sub/new", "a.txt", "empty", "rootsib/x"]


def _enum_root_itself(shell):
    """the root directory itself as the source or the destination of a rename (no '..' needed to name it),
    and as the object of the other destructive commands, from / and from /sub"""
    for prefix in ([], [["CWD", "sub"]]):
        for r in ROOT_ALIASES:
            if prefix and not r.startswith("/"):
                r = "../" + r if r not in (".", "") else ".."
            for peer in RENAME_PEERS:
                yield dict(shell=shell, ops=prefix + [["RNFR", r], ["RNTO", peer]])
                yield dict(shell=shell, ops=prefix + [["RNFR", peer], ["RNTO", r]])
            for cmd in ("RMD", "DELE", "MKD", "STOR", "RETR", "LIST"):
                yield dict(shell=shell, ops=prefix + [[cmd, r]])


SPARSE_PATHS = ["only", "in/2024", "in", "a.txt", "", "/", ".", "new", "in/2024/..", "only/."]


def _enum_sparse(shell="user"):
    """roots that hold a single entry or nothing: every command x a few paths, and the two-step clean-outs"""
    for layout in ("onefile", "onedir", "nested", "empty"):
        for cmd in COMMANDS:
            for path in SPARSE_PATHS:
                yield dict(shell=shell, layout=layout, ops=_one(cmd, path, []))
        yield dict(shell=shell, layout=layout, ops=[["RMD", "in/2024"], ["RMD", "in"], ["RMD", "/"]])
        yield dict(shell=shell, layout=layout, ops=[["DELE", "a.txt"], ["RMD", "/"], ["MKD", "new"]])
        yield dict(shell=shell, layout=layout, ops=[["CWD", "in"], ["RMD", "2024"], ["CDUP", None], ["RMD", "in"]])
        yield dict(shell=shell, layout=layout, ops=[["RNFR", "only"], ["RNTO", "in"], ["RMD", "in"]])


def _enum_dis_shard(ctx, shell):
    with _tree():
        enumerate_run(ctx, _enum_disguised(shell), run_case, stop_after_violation=False)
        enumerate_run(ctx, _enum_root_itself(shell), run_case, stop_after_violation=False)
        if shell == "user":
            enumerate_run(ctx, _enum_sparse(), run_case, stop_after_violation=False)


def _enum_shard(ctx, arg):
    shell, k, n = arg
    paths = _enum_paths()
    with _tree():
        enumerate_run(ctx, _enum_cases(shell, paths[k::n]), run_case, stop_after_violation=False)


@st.composite
def _dotseg(draw):
    """'.' or '..', plain or with 1-2 ignorable characters inserted anywhere"""
    seg = draw(st.sampled_from(["..", "..", "..", "."]))
    for _ in range(draw(st.sampled_from([0, 0, 1, 1, 1, 2]))):
        i = draw(st.integers(0, len(seg)))
        seg = seg[:i] + draw(st.sampled_from(IGNORABLE)) + seg[i:]
    return seg


@st.composite
def _path(draw):
    segs = draw(st.lists(st.one_of(st.sampled_from(SEGS), st.sampled_from(SEGS), st.sampled_from(SEGS), _dotseg()),
                         min_size=0, max_size=6))
    if draw(st.integers(0, 2)) == 0:
        k = draw(st.integers(1, 4))
        climb = [draw(_dotseg()) for _ in range(k)]    # climbing first, plainly or in disguise
        if draw(st.integers(0, 1)):
            segs = draw(st.sampled_from(CLIMB_TARGETS + ["root.secret", "rootsib/d/y", "root/a.txt"])).split("/")
        segs = climb + segs
    if draw(st.integers(0, 11)) == 0:
        return draw(st.sampled_from(ROOT_ALIASES))     # the root directory itself
    lead = draw(st.sampled_from(["", "", "", "/", "/", "//"]))
    trail = draw(st.sampled_from(["", "", "", "/"]))
    return lead + "/".join(segs) + trail


@st.composite
def _session(draw):
    shell = draw(st.sampled_from(["user", "user", "user", "anon"]))
    n = draw(st.integers(1, 10))
    ops = []
    for _ in range(n):
        cmd = draw(st.sampled_from(COMMANDS + ["CWD", "CWD", "CDUP", "CDUP", "PWD", "RAW"]))
        if cmd == "CDUP" or cmd == "PWD":
            ops.append([cmd, None])
        elif cmd == "RAW":
            ops.append([draw(st.sampled_from(["cwd", "XCWD", "XMKD", "STAT", "SITE", "NOOP", "TYPE", "REST", "ABOR", "MLSD",
                                              "QUIT", "USER", "retr", "Dele"])), draw(st.one_of(st.none(), _path()))])
        elif cmd == "CWD" and draw(st.integers(0, 1)) == 0:
            ops.append(["CWD", draw(st.sampled_from(["sub", "sub/deep", "deep", "empty", "/sub", "..", "/"]))])
        else:
            ops.append([cmd, draw(_path())])
    case = dict(shell=shell, ops=ops)
    layout = draw(st.sampled_from(["full"] * 5 + ["onefile", "onedir", "nested", "empty"]))
    if layout != "full":
        case["layout"] = layout
    return case


def _hyp_shard(sub, i):
    with _tree():
        hyp_run(sub, _session(), run_case, 2500, label=f"shard{i}")


def run(ctx):
    paths = _enum_paths()
    ctx.extra["exhaustive_scope"] = (f"user shell: {len(PREFIXES)} prefixes x {len(COMMANDS)} commands x {len(paths)} paths "
                                     f"(<= 2 segments over {ENUM_SEGS!r}, relative and absolute, + {len(CLASSICS)} classic spellings); "
                                     "anonymous shell: same with the classic spellings only")
    ctx.exhaustive = False
    ctx.extra["exhaustive_scope"] += (f"; both shells: every command x every one-character disguise of '..' "
                                      f"({len(_disguises('..', ENUM_IGNORABLE))}: one of {ENUM_IGNORABLE!r} before, inside or after) "
                                      f"x climb targets {CLIMB_TARGETS!r}, from / and from /sub")
    if ctx.thorough:
        ctx.shards(_enum_shard, [("user", k, 8) for k in range(8)] + [("anon", k, 8) for k in range(8)])
        ctx.shards(_enum_dis_shard, ["user", "anon"])
    else:
        with _tree():
            enumerate_run(ctx, _enum_cases("user", paths), run_case, stop_after_violation=False)
            enumerate_run(ctx, _enum_cases("anon", CLASSICS), run_case, stop_after_violation=False)
            enumerate_run(ctx, _enum_disguised("user"), run_case, stop_after_violation=False)
            enumerate_run(ctx, _enum_disguised("anon"), run_case, stop_after_violation=False)
            enumerate_run(ctx, _enum_root_itself("user"), run_case, stop_after_violation=False)
            enumerate_run(ctx, _enum_sparse(), run_case, stop_after_violation=False)
    if ctx.has_violation():
        return
    if ctx.thorough:
        ctx.shards(_hyp_shard, list(range(16)))
    else:
        with _tree():
            hyp_run(ctx, _session(), run_case, 1000, label="sessions")
