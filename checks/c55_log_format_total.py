"""C55 — the log event text-formatting functions return text and never raise.

Events are described by plain data (a small tag vocabulary) that ``run_case``
turns into real objects: values with raising / non-text ``__str__``,
``__repr__``, ``__format__``, raising attribute / item lookups and calls,
format strings from a grammar (and malformed ones), bytes formats, real and fake
failures, odd ``log_time`` / ``log_system`` / ``log_namespace`` / ``log_level``.
"""
import math
import traceback

from hypothesis import strategies as st

from lib.core import hyp_run, enumerate_run

META = dict(
    property="C55",
    level="exploration",
    technique="Hypothesis-generated hostile log events (tagged plain data -> objects) against the totality oracle 'returns str (or documented None), raises nothing'",
    level_text="Random events: format strings from a PEP 3101 grammar with attribute/index lookups, call syntax, conversions, (nested) format specs, and malformed/unbalanced variants; str/bytes(valid+invalid UTF-8)/non-string log_format; values whose str/repr/format/call/getattr/getitem raise or return non-text; real Failures around hostile exceptions and fake failure objects; NaN/inf/huge/non-numeric log_time; odd log_system/log_namespace/log_level; events flattened first or carrying a damaged log_flattened. Every event is passed to formatEvent, _formatEvent, eventAsText (all 8 flag combinations), formatEventAsClassicLogText and formatUnformattableEvent; about half of the cases also build a legacy twisted.python.log event dict from the same values (%-format strings valid and malformed, message tuples, isError+failure+why, hostile system) and pass it to textFromEventDict, _safeFormat and FileLogObserver.emit. Hostile methods raise ordinary exceptions, exceptions whose own __str__ raises, and (field values, formats, legacy values) non-Exception BaseExceptions: a custom one, SystemExit, GeneratorExit. A deterministic grid crosses every error kind of str/format with every error kind of repr on both paths. Sampled, not exhaustive.",
    level_note="Scope decisions: the legacy path of twisted.python.log (an anchored file; _safeFormat promises 'swallowing all errors to always return a string') is inside the statement; so are non-Exception BaseExceptions raised by field values, because _formatEvent / formatUnformattableEvent / _safeFormat catch BaseException on purpose - KeyboardInterrupt is never raised (the legacy code re-raises it deliberately). The objects in log_time/log_system/log_namespace/log_level/log_failure raise Exception subclasses only: their guards are written and documented at Exception level and whether a SystemExit from a log_system's __str__ should be swallowed is debatable. Events are real dicts with str keys; caller-supplied formatTime callables are in scope as far as they are total and text-returning for ordinary timestamps (wrapping the default formatTime, time.strftime, '%.3f' %, datetime.isoformat): the odd log_time is the event's fault, not theirs - formatters that raise or return non-text for ordinary times are the caller's problem and are not generated; bytes legacy format strings are not generated (_safeFormat would return bytes). Hypothesis, the tag interpreter in this file and the built-in str/format machinery are trusted.",
    design_ref="§5 C55",
    rule="case = {fmt, fields, meta, flat, error}; non-trivial = the event has a log_format and at least one of: a hostile method actually ran, the generic 'Unable to format' / 'MESSAGE LOST' fallback was produced, a log_failure was rendered, or an odd time/system/namespace/level field was consulted; or a legacy event in which a hostile method raised an unprintable or non-Exception error; distinct by the whole case.",
)


class Hostile(Exception):
    pass


class _BadStrError(Exception):
    def __str__(self):
        raise Hostile("str of exception")


class _BadReprError(Exception):
    def __repr__(self):
        raise Hostile("repr of exception")

    def __str__(self):
        raise Hostile("str of exception")


class _BadMeta(type):
    def __repr__(cls):
        raise Hostile("repr of class")

    __str__ = __repr__


class _MetaBadError(Exception, metaclass=_BadMeta):
    """An exception whose class cannot be turned into text."""


# an exception class without a usable dotted name (as classes made by exec'd code can be)
_NoQualError = type("NoQualError", (Exception,), {})
_NoQualError.__module__ = None


class _Abort(BaseException):
    """A non-Exception error, like GeneratorExit or SystemExit."""


class _Text(str):
    pass


RAISES = ("raise", "raise-bad", "raise-base", "raise-exit", "raise-gen", "raise-noqual", "raise-metabad")


def _raise(kind, what, log):
    log.append("!" + kind)
    if kind == "raise":
        raise Hostile(what)
    if kind == "raise-bad":         # an exception that cannot be turned into text itself
        raise _BadStrError()
    if kind == "raise-base":
        raise _Abort(what)
    if kind == "raise-exit":
        raise SystemExit(3)
    if kind == "raise-gen":
        raise GeneratorExit()
    if kind == "raise-noqual":
        raise _NoQualError(what)
    if kind == "raise-metabad":
        raise _MetaBadError(what)
    raise AssertionError(kind)


# --------------------------------------------------------------------------
# tag vocabulary -> objects


def _beh(kind, what, log, text="obj"):
    log.append(what)
    if kind == "ok":
        return text
    if kind == "sub":
        return _Text(text)
    if kind in RAISES:
        _raise(kind, what, log)
    if kind == "bytes":
        return b"bytes"
    if kind == "none":
        return None
    if kind == "int":
        return 7
    raise AssertionError(kind)


class Obj:
    def __init__(self, spec, log):
        d = self.__dict__
        d["_spec"] = spec
        d["_log"] = log
        d["_attrs"] = {k: build(v, log) for k, v in spec.get("attrs", {}).items()}
        d["_items"] = {k: build(v, log) for k, v in spec.get("items", {}).items()}

    def __str__(self):
        return _beh(self._spec.get("str", "ok"), "str", self._log, "S")

    def __repr__(self):
        return _beh(self._spec.get("repr", "ok"), "repr", self._log, "<R>")

    def __format__(self, fs):
        kind = self._spec.get("fmt", "ok")
        if kind == "ok":
            self._log.append("format")
            return format(str(self), fs)
        return _beh(kind, "format", self._log)

    def __call__(self):
        c = self._spec.get("call", "none")
        self._log.append("call")
        if c in RAISES:
            _raise(c, "call", self._log)
        if c == "none":
            return None
        return build(c, self._log)

    def __getattr__(self, name):
        d = self.__dict__
        if name in d.get("_attrs", {}):
            return d["_attrs"][name]
        if name.startswith("__"):
            raise AttributeError(name)
        if d["_spec"].get("getattr") == "raise":
            d["_log"].append("getattr")
            raise Hostile("getattr " + name)
        raise AttributeError(name)

    def __getitem__(self, key):
        if key in self._items:
            return self._items[key]
        if self._spec.get("getitem") == "raise":
            self._log.append("getitem")
            raise Hostile("getitem")
        raise KeyError(key)


class ObjK(Obj):
    """An Obj whose __class__ lookup fails too (safe_repr has to describe it)."""

    def __getattribute__(self, name):
        if name == "__class__":
            d = object.__getattribute__(self, "__dict__")
            kind = d["_spec"].get("klass")
            d["_log"].append("__class__")
            if kind == "attr":
                raise AttributeError("__class__")
            raise Hostile("__class__")
        return object.__getattribute__(self, name)


class _Level:
    """A level-like object: has .name only if told so."""

    def __init__(self, name):
        self.name = name


class _FakeFailure:
    def __init__(self, kind, log):
        self._kind = kind
        self._log = log

    def getTraceback(self, *a, **kw):
        self._log.append("fake-traceback")
        k = self._kind
        if k == "raise":
            raise Hostile("getTraceback")
        if k == "raise-badstr":
            raise _BadStrError()
        return "Traceback (fake)\n"


def build(spec, log):
    t = spec[0]
    if t in ("i", "f", "s", "b"):
        return spec[1]
    if t == "n":
        return None
    if t == "l":
        return [build(x, log) for x in spec[1]]
    if t == "t":
        return tuple(build(x, log) for x in spec[1])
    if t == "d":
        return {k: build(v, log) for k, v in spec[1]}
    if t == "o":
        return (ObjK if spec[1].get("klass", "ok") != "ok" else Obj)(spec[1], log)
    if t == "fn":
        inner = spec[1]

        def fn():
            log.append("call")
            if inner in RAISES:
                _raise(inner, "call", log)
            return build(inner, log)
        return fn
    if t == "level":
        from twisted.logger import LogLevel
        return LogLevel.lookupByName(spec[1])
    if t == "lvl":          # level-like object with a name attribute
        return _Level(build(spec[1], log))
    if t == "failure":
        from twisted.python.failure import Failure
        kind = spec[1]
        exc = {"plain": ValueError("boom"), "badstr": _BadStrError(), "badrepr": _BadReprError(),
               "noqual": _NoQualError("x"), "metabad": _MetaBadError("x"),
               "unicode": ValueError("caf\xe9 ☃ \udcff"), "hostile": Hostile(b"\xff")}[kind]
        try:
            raise exc
        except Exception:
            return Failure()
    if t == "fakefailure":
        return _FakeFailure(spec[1], log)
    if t == "exc":
        return {"plain": ValueError("err"), "badstr": _BadStrError(), "badrepr": _BadReprError(),
                "key": KeyError("k")}[spec[1]]
    raise AssertionError(f"unknown tag {spec!r}")


# --------------------------------------------------------------------------
# classification of the odd meta fields (for root-cause signatures)

def _time_class(spec):
    if spec is None or spec[0] == "n":
        return "none"
    if spec[0] in ("i", "f"):
        x = spec[1]
        if isinstance(x, bool):
            return "normal"
        if isinstance(x, float) and (math.isnan(x) or math.isinf(x)):
            return "unrepresentable"
        if abs(x) > 2.0e11:
            return "unrepresentable"
        return "normal"
    return "not-a-number"


def _unformattable(spec):
    """Can '{x}'.format(x=value) fail for this value?"""
    if spec is None:
        return False
    if spec[0] == "o":
        o = spec[1]
        if o.get("fmt", "ok") != "ok":
            return True
        return o.get("str", "ok") not in ("ok", "sub")
    return False


def _system_class(meta):
    lvl = meta.get("log_level")
    if lvl is not None and lvl[0] != "n":
        if lvl[0] == "lvl":
            if _unformattable(lvl[1]):
                return "level-name-unformattable"
        elif lvl[0] == "o":
            o = lvl[1]
            if "name" not in o.get("attrs", {}):
                return "level-without-name"
            if _unformattable(o["attrs"]["name"]):
                return "level-name-unformattable"
        elif lvl[0] != "level":
            return "level-without-name"
    if _unformattable(meta.get("log_namespace")):
        return "namespace-unformattable"
    return "normal"


def _logger_frame(exc):
    tb = exc.__traceback__
    found = "?"
    while tb is not None:
        fn = tb.tb_frame.f_code.co_filename
        if fn.endswith(("twisted/logger/_format.py", "twisted/logger/_flatten.py", "twisted/python/log.py",
                        "twisted/python/reflect.py", "twisted/python/failure.py")):
            found = tb.tb_frame.f_code.co_name
        tb = tb.tb_next
    return found


# --------------------------------------------------------------------------

FLAGS = [(a, b, c) for a in (False, True) for b in (False, True) for c in (False, True)]

FTIMES = ("wrap", "strftime", "percent", "iso")


def _time_formatter(kind, F):
    """Time formatters as callers write them (textFileLogObserver style): total
    and text-returning for ordinary timestamps, not written for odd ones."""
    import time
    from datetime import datetime, timezone
    if kind == "wrap":
        return lambda when: F.formatTime(when, "%H:%M:%S")
    if kind == "strftime":
        return lambda when: time.strftime("%Y-%m-%d %H:%M:%S", time.gmtime(when))
    if kind == "percent":
        return lambda when: "%.3f" % when
    if kind == "iso":
        return lambda when: datetime.fromtimestamp(when, timezone.utc).isoformat()
    raise AssertionError(kind)


def _make_event(case, log):
    from twisted.logger._flatten import flattenEvent
    event = {}
    for k, spec in case["fields"]:
        event[k] = build(spec, log)
    for k, spec in case["meta"].items():
        if spec is not None:
            event[k] = build(spec, log)
    fmt = case["fmt"]
    if fmt is not None:
        event["log_format"] = build(fmt, log)
    flat = case.get("flat")
    flattened = "no"
    if flat == "real":
        try:
            flattenEvent(event)
            flattened = "yes" if "log_flattened" in event else "nothing to flatten"
        except (Exception, _Abort, SystemExit, GeneratorExit):
            flattened = "flattenEvent raised"
            event.pop("log_flattened", None)
    elif flat == "empty":
        event["log_flattened"] = {}
        flattened = "damaged"
    elif flat == "garbage":
        event["log_flattened"] = 3
        flattened = "damaged"
    elif flat == "partial":
        try:
            flattenEvent(event)
        except (Exception, _Abort, SystemExit, GeneratorExit):   # flattenEvent may raise (not a text-formatting function)
            event.pop("log_flattened", None)
        fl = event.get("log_flattened")
        if isinstance(fl, dict) and fl:
            del fl[sorted(fl)[0]]
            flattened = "damaged"
    return event, flattened


def run_case(ctx, case):
    from twisted.logger import _format as F

    log = []
    event, flattened = _make_event(case, log)
    error = build(case.get("error") or ["exc", "plain"], log)
    results = {}

    found = []      # every divergence of this case: (signature, detail)

    def call(name, fn, *a, **kw):
        try:
            r = fn(*a, **kw)
        except (Exception, _Abort, SystemExit, GeneratorExit) as e:     # the property: none of these may raise
            where = _logger_frame(e)
            if where == "formatTime":
                cause = "log_time-" + _time_class(case["meta"].get("log_time"))
            elif where == "_formatSystem":
                cause = _system_class(case["meta"])
            elif where == "safe_str" and isinstance(e, Hostile) and e.args == ("__class__",):
                cause = "class-lookup-raises"
            else:
                cause = type(e).__name__
            found.append((f"raises@{where}:{cause}",
                          f"{name} raised {type(e).__name__}\n" +
                          "".join(traceback.format_tb(e.__traceback__)[-4:])))
            r = ""
        results[name] = r
        return r

    def want_str(name, r, none_ok=False):
        if r is None and none_ok:
            return
        if not isinstance(r, str):
            found.append((f"non-text-result:{name.split('(')[0]}", f"{name} returned {type(r).__name__}"))
            results[name] = ""

    want_str("formatEvent", call("formatEvent", F.formatEvent, event))
    want_str("_formatEvent", call("_formatEvent", F._formatEvent, event))
    # all 8 flag combinations for grid cases and the thorough tier; the all-on and
    # the three one-hot combinations (+ formatEvent = all off) for quick random cases
    flags = FLAGS if (ctx.thorough or case.get("allflags")) else [f for f in FLAGS if sum(f) in (1, 3)]
    for tb, ts, sy in flags:
        nm = f"eventAsText(tb={int(tb)},ts={int(ts)},sys={int(sy)})"
        want_str(nm, call(nm, F.eventAsText, event, includeTraceback=tb, includeTimestamp=ts, includeSystem=sy))
    want_str("formatEventAsClassicLogText",
             call("formatEventAsClassicLogText", F.formatEventAsClassicLogText, event), none_ok=True)
    want_str("formatUnformattableEvent", call("formatUnformattableEvent", F.formatUnformattableEvent, event, error))

    # ---- a caller-supplied time formatter that is fine for ordinary timestamps
    ftime = case.get("ftime")
    if ftime:
        fmtr = _time_formatter(ftime, F)
        want_str("eventAsText(custom formatTime)",
                 call("eventAsText(custom formatTime)", F.eventAsText, event, includeTraceback=False,
                      includeTimestamp=True, includeSystem=False, formatTime=fmtr))
        want_str("formatEventAsClassicLogText(custom formatTime)",
                 call("formatEventAsClassicLogText(custom formatTime)", F.formatEventAsClassicLogText, event, fmtr),
                 none_ok=True)
        ctx.count("custom formatTime: " + ftime)
        if results["eventAsText(custom formatTime)"] and _time_class(case["meta"].get("log_time")) not in ("none", "normal"):
            ctx.count("custom formatTime consulted with an odd log_time")
            ctx.nontrivial(("ftime", case))

    # ---- the legacy text path of twisted.python.log (same values, %-format)
    legacy = case.get("legacy")
    if legacy:
        import io
        from twisted.python import log as plog
        ed = {k: build(spec, log) for k, spec in case["fields"]}
        ed["message"] = tuple(build(x, log) for x in legacy.get("msg", []))
        ed["isError"] = 0
        lf = case["meta"].get("log_failure")
        if legacy.get("err") and lf is not None and lf[0] == "failure":
            ed["isError"] = 1
            ed["failure"] = build(lf, log)
            if legacy.get("why") is not None:
                ed["why"] = build(legacy["why"], log)
        if legacy.get("fmt") is not None:
            ed["format"] = build(legacy["fmt"], log)
        ed["time"] = 0.0
        ed["system"] = build(legacy["sys"], log) if legacy.get("sys") is not None else "-"
        want_str("textFromEventDict", call("textFromEventDict", plog.textFromEventDict, dict(ed)), none_ok=True)
        if type(ed.get("format")) is str:
            want_str("_safeFormat", call("_safeFormat", plog._safeFormat, ed["format"], dict(ed)))
        out = io.StringIO()
        call("FileLogObserver.emit", plog.FileLogObserver(out).emit, dict(ed))
        want_str("FileLogObserver output", out.getvalue())
        lt = results["textFromEventDict"]
        if lt is None:
            ctx.count("legacy: no text (None)")
        elif lt.startswith("Invalid format string or unformattable object"):
            ctx.count("legacy: 'Invalid format string or unformattable object' fallback")
        elif lt.startswith("UNFORMATTABLE OBJECT WRITTEN TO LOG"):
            ctx.count("legacy: 'UNFORMATTABLE OBJECT' fallback")
        elif lt.startswith("PATHOLOGICAL ERROR"):
            ctx.count("legacy: 'PATHOLOGICAL ERROR' fallback")
        elif ed["message"]:
            ctx.count("legacy: message joined with safe_str")
        elif ed["isError"]:
            ctx.count("legacy: failure traceback")
        else:
            ctx.count("legacy: formatted")

    # ---- bookkeeping
    text = results["formatEvent"]
    hostile_ran = [x for x in log if x in ("str", "repr", "format", "call", "getattr", "getitem")]
    specs = [s for _, s in case["fields"]]
    anyhostile = "raise" in repr(specs) or "bytes" in repr(specs) or "'none'" in repr(specs)
    if text.startswith("Unable to format event"):
        ctx.count("formatEvent: generic 'Unable to format event'")
        fallback = True
    elif text.startswith("MESSAGE LOST"):
        ctx.count("formatEvent: 'MESSAGE LOST' (event repr failed too)")
        fallback = True
    elif text == "":
        ctx.count("formatEvent: empty text")
        fallback = False
    else:
        ctx.count("formatEvent: formatted")
        fallback = False
    ctx.count("flattened first: " + flattened)
    meta = case["meta"]
    tc = _time_class(meta.get("log_time"))
    sc = _system_class(meta)
    ctx.count("log_time " + tc)
    ctx.count("system " + sc)
    full = results["eventAsText(tb=1,ts=1,sys=1)"]
    has_failure = meta.get("log_failure") is not None
    if has_failure:
        lf = meta["log_failure"]
        ctx.count("log_failure " + lf[0] + (":" + lf[1] if lf[0] in ("failure", "fakefailure") else ""))
    if results["formatEventAsClassicLogText"] is None:
        ctx.count("classic text: None")
    odd_meta_used = bool(full) and (tc not in ("none", "normal") or sc != "normal"
                                    or _unformattable(meta.get("log_system")))
    if "log_format" in event and (fallback or (hostile_ran and anyhostile) or (has_failure and full) or odd_meta_used):
        ctx.nontrivial(case)
        ctx.count("nontrivial")
        if fallback and hostile_ran and len(ctx.samples) < 5:
            ctx.sample(case)
    for h in sorted(set(hostile_ran)):
        ctx.count("hostile method ran: " + h)
    kinds_raised = sorted(set(x[1:] for x in log if x.startswith("!")))
    for h in kinds_raised:
        ctx.count("hostile method raised: " + {"raise": "ordinary exception", "raise-bad": "exception whose own __str__ raises",
                                               "raise-base": "non-Exception BaseException", "raise-exit": "SystemExit",
                                               "raise-gen": "GeneratorExit",
                                               "raise-noqual": "exception whose class has no dotted name",
                                               "raise-metabad": "exception whose class cannot be printed"}[h])
    if "__class__" in log:
        ctx.count("hostile __class__ lookup ran")
    if "raise-bad" in kinds_raised and text.startswith("MESSAGE LOST"):
        ctx.count("'MESSAGE LOST' fallback with an unprintable exception")
    if legacy and (set(kinds_raised) - {"raise"}):
        ctx.nontrivial(("legacy", case))
    if found:
        ctx.count("cases with a function that raised")

    # several functions may fail on one event: report a divergence that is not a
    # listed known finding first, so that listed ones cannot hide it
    found.sort(key=lambda t: (t[0] in ctx.known_sigs, t[0]))
    for sig, detail in found[:1]:
        ctx.violation(sig, case, detail)


# --------------------------------------------------------------------------
# generation
#
# Hypothesis' cost is per draw, so compound choices are drawn as ONE integer and
# decoded in mixed radix (simplest alternative first, so shrinking still works).

def _radix(*lists):
    total = 1
    for l in lists:
        total *= len(l)

    def decode(n):
        out = []
        for l in lists:
            n, r = divmod(n, len(l))
            out.append(l[r])
        return out
    return st.integers(0, total - 1).map(decode)


# behaviours of the meta fields' objects (Exception subclasses only) ...
_BX = ["ok", "raise", "bytes", "none", "int", "sub", "ok", "raise", "ok", "ok", "ok", "raise-bad", "raise-noqual",
       "raise-metabad", "ok", "ok"]
_KL = ["ok", "ok", "ok", "ok", "ok", "attr", "raise", "raise"]      # what the __class__ lookup does
# ... and of field values / formats: also errors that are not Exception subclasses
_B = _BX + ["raise-bad", "raise-base", "raise-exit", "raise-gen", "ok", "ok", "ok"]
NAMES = ["a", "b", "c"]
ATTRS = ["x", "y", "name"]

_leaf = st.one_of(
    st.builds(lambda n: ["i", n], st.integers(-5, 10 ** 6)),
    st.builds(lambda x: ["f", x], st.floats(allow_nan=True, allow_infinity=True, width=32)),
    st.builds(lambda s: ["s", s], st.text(max_size=6)),
    st.sampled_from([["s", "{a}"], ["s", "{"], ["s", "}"], ["s", "%s"], ["s", "\ud800"], ["s", "caf\xe9"],
                     ["b", b""], ["b", b"abc"], ["b", b"\xff\xfe"], ["b", "\u2603".encode()], ["n"]]),
)


def _obj(children):
    return st.builds(
        lambda beh, attrs, items, call: ["o", dict(
            attrs=attrs, items=items, str=beh[0], repr=beh[1], fmt=beh[2], call=call, getattr=beh[3], getitem=beh[4],
            klass=beh[5])],
        _radix(_B, _B, _B, ["default", "raise"], ["default", "raise"], _KL),
        st.dictionaries(st.sampled_from(ATTRS), children, max_size=2),
        st.dictionaries(st.sampled_from(["k", "0", "x"]), children, max_size=1),
        st.one_of(st.sampled_from(["none", "raise"]), children))


_leafobj = st.builds(
    lambda beh: ["o", dict(attrs={}, items={}, str=beh[0], repr=beh[1], fmt=beh[2], call="none",
                           getattr=beh[3], getitem="default", klass=beh[4])],
    _radix(_B, _B, _B, ["default", "raise"], _KL))


def _extend(children):
    return st.one_of(
        st.builds(lambda xs: ["l", xs], st.lists(children, max_size=2)),
        st.builds(lambda xs: ["t", xs], st.lists(children, max_size=2)),
        st.builds(lambda kv: ["d", [[k, v] for k, v in kv.items()]],
                  st.dictionaries(st.sampled_from(["k", "0", "x"]), children, max_size=2)),
        _obj(children), _obj(children),
        st.builds(lambda c: ["fn", c], st.one_of(st.just("raise"), children)),
    )


_metaobj = st.builds(
    lambda beh: ["o", dict(attrs={}, items={}, str=beh[0], repr=beh[1], fmt=beh[2], call="none",
                           getattr=beh[3], getitem="default", klass=beh[4])],
    _radix(_BX, _BX, _BX, ["default", "raise"], _KL))
_child = st.one_of(_leaf, _leafobj)
# an object on which the lookups of the format grammar succeed
_richobj = st.builds(
    lambda beh, x, y, k, call: ["o", dict(attrs=dict(x=x, y=y), items={"k": k, "0": k}, str=beh[0], repr=beh[1],
                                          fmt=beh[2], call=call, getattr=beh[3], getitem=beh[4], klass=beh[5])],
    _radix(_B, _B, _B, ["default", "raise"], ["default", "raise"], _KL),
    _child, st.one_of(_child, st.builds(lambda c: ["fn", c], st.one_of(st.just("raise"), _child))), _child,
    st.one_of(st.sampled_from(["none", "raise"]), _child))
VALUE = st.one_of(_leaf, _leafobj, _richobj, _richobj,
                  st.builds(lambda c: ["fn", c], st.one_of(st.just("raise"), _child, _richobj)),
                  st.builds(lambda c: ["d", [["k", c], ["0", c]]], _child),
                  st.builds(lambda xs: ["l", xs], st.lists(_child, min_size=1, max_size=2)),
                  st.recursive(_child, _extend, max_leaves=4))

_ACC = ["", "", "", ".x", "[k]", ".y", ".name", "[0]", ".x()", ".zz", "[x]", "[", ".", ".."]
_field = _radix(
    NAMES + NAMES + ["a", "b", "missing", "", "0", "log_format", "a b", "a()"],
    _ACC, ["", "", "", "", ".x", "[k]", ".y()", ".zz"],
    ["", "", "", "()", "()()", "("],
    ["", "", "!r", "!s", "", "!a", "!x", "!", "!rr"],
    ["", "", "", ":>8", "", ":08.3f", ":d", ":{b}", ":{b}>{c}", ":{", ":}", ":!r", ":x", ":,", ":\x00"],
).map(lambda p: "{" + "".join(p) + "}")
_literal = st.sampled_from(["text ", " ", "{{", "}}", "\n", "%s", " \xe9 ", "text ", "-", "{", "}", "{}", "{0}", "a}b"])
_pieces = st.lists(st.one_of(_field, _field, _field, _literal), min_size=1, max_size=4).map("".join)
FORMAT_TEXT = st.one_of(_pieces, _pieces, _pieces, _pieces, st.text(alphabet="{}!:.[]()abcrsxy0 ", max_size=12))

FMT = st.one_of(
    FORMAT_TEXT.map(lambda s: ["s", s]), FORMAT_TEXT.map(lambda s: ["s", s]), FORMAT_TEXT.map(lambda s: ["s", s]),
    FORMAT_TEXT.map(lambda s: ["b", s.encode("utf-8", "surrogatepass")]),
    st.sampled_from([["b", b"\xff{a}"], ["b", b"{a}\xc3"], ["i", 3], ["n"], ["l", []], ["t", []], None, None]),
    _leafobj,
)

_NONE3 = [None, None, None, None, None]
TIME = st.one_of(
    st.sampled_from(_NONE3 + [["n"]]), st.sampled_from(_NONE3 + [["n"]]),
    st.builds(lambda x: ["f", x], st.floats(min_value=-2.0e9, max_value=1.0e11)),
    st.builds(lambda x: ["i", x], st.integers(0, 2 ** 32)),
    st.sampled_from([["f", float("nan")], ["f", float("inf")], ["f", float("-inf")], ["f", 1e20], ["f", -1e20],
                     ["f", 1e308], ["f", 1e13], ["i", 10 ** 30], ["i", -10 ** 30], ["i", 2 ** 63],
                     ["s", "now"], ["b", b"1"], ["l", []], ["t", []]]),
    _metaobj,
)
SYSTEM = st.one_of(st.sampled_from(_NONE3 + [["n"], ["s", "sys"], ["s", "a\nb"], ["b", b"\xff"], ["i", 1]]),
                   st.sampled_from(_NONE3), _metaobj)
NAMESPACE = st.one_of(st.sampled_from(_NONE3 + [["s", "a.b"], ["s", "a.b"], ["n"], ["i", 2], ["b", b"ns"]]),
                      st.sampled_from(_NONE3), _metaobj)
LEVEL = st.one_of(
    st.sampled_from(_NONE3 + [["n"]] + [["level", n] for n in ("debug", "info", "warn", "error", "critical")]),
    st.sampled_from(_NONE3 + [["n"]] + [["level", n] for n in ("debug", "info", "warn", "error", "critical")]),
    st.sampled_from([["s", "info"], ["i", 3], ["l", []]]),
    st.builds(lambda v: ["lvl", v], st.one_of(_leaf, _metaobj)),
    _metaobj,
)
FAILURE = st.one_of(
    st.sampled_from(_NONE3), st.sampled_from(_NONE3),
    st.sampled_from([["failure", k] for k in ("plain", "badstr", "badrepr", "unicode", "hostile", "noqual", "metabad")] +
                    [["fakefailure", k] for k in ("ok", "raise", "raise-badstr")] +
                    [["n"], ["s", "not a failure"], ["i", 0]]),
    _metaobj,
)

_LFMT = st.one_of(
    st.sampled_from(["%(a)s", "%(a)r and %(b)s", "%(missing)s", "%(a)d", "%(a", "%s", "%", "plain", "%(a)s %(log_x)r",
                     "%(b).3s", "100%%", "%(a)c", "%(b)r", "%(c)s"]).map(lambda t: ["s", t]),
    st.sampled_from(["%(a)s", "%(a)r and %(b)s", "%(b)s", "%s"]).map(lambda t: ["s", t]),
    st.sampled_from([["i", 3], ["n"], ["l", []]]), _leafobj)
_WHY = [None, ["s", "why"], ["o", dict(str="raise-base", repr="raise", fmt="raise")], ["o", dict(str="raise-bad", repr="raise-bad", fmt="ok")]]
LEGACY = st.one_of(
    st.none(),
    st.builds(lambda fmt, msg, sysv, misc: dict(fmt=fmt, msg=msg, sys=sysv, err=misc[0], why=misc[1]),
              st.one_of(_LFMT, _LFMT, _LFMT, st.none()),
              st.one_of(st.just([]), st.just([]), st.just([]), st.lists(_child, min_size=1, max_size=2)),
              st.one_of(st.none(), st.none(), _leafobj, st.just(["s", "sys"])),
              _radix([False, False, True], _WHY)))

CASE = st.builds(
    lambda fmt, fields, t, sy, ns, lv, fa, misc, legacy: dict(
        fmt=fmt, fields=[[k, v] for k, v in fields.items()],
        meta=dict(log_time=t, log_system=sy, log_namespace=ns, log_level=lv, log_failure=fa),
        flat=misc[0], error=["exc", misc[1]], legacy=legacy, ftime=misc[2]),
    FMT, st.one_of(st.fixed_dictionaries(dict(a=VALUE, b=VALUE), optional=dict(c=VALUE)),
                   st.dictionaries(st.sampled_from(NAMES + ["log_x"]), VALUE, max_size=2)),
    TIME, SYSTEM, NAMESPACE, LEVEL, FAILURE,
    _radix([None, "real", None, "empty", "garbage", "partial", None, "real"], ["plain", "badstr", "badrepr", "key"],
           [None, "wrap", "strftime", None, "percent", "iso", None]),
    LEGACY,
)


def _grid_cases():
    """A small deterministic grid: every odd value of each meta field alone,
    with a plain format, so that the classes above are always exercised."""
    base = dict(fmt=["s", "hello {a}"], fields=[["a", ["i", 1]]], flat=None, error=["exc", "plain"], allflags=True)
    empty = dict(log_time=None, log_system=None, log_namespace=None, log_level=None, log_failure=None)
    bad = ["o", dict(str="raise", repr="raise", fmt="raise")]
    nontext = ["o", dict(str="bytes", repr="none", fmt="int")]
    odd = dict(
        log_time=[["f", float("nan")], ["f", float("inf")], ["f", 1e20], ["i", -10 ** 30], ["s", "x"], bad, ["n"], ["f", 0.0]],
        log_system=[bad, nontext, ["i", 1], ["b", b"\xff"], ["n"]],
        log_namespace=[bad, nontext, ["n"], ["i", 1]],
        log_level=[bad, ["s", "info"], ["lvl", bad], ["lvl", nontext], ["lvl", ["s", "x"]], ["level", "warn"], ["n"]],
        log_failure=[["failure", k] for k in ("plain", "badstr", "badrepr", "unicode", "hostile", "noqual", "metabad")] +
                    [["fakefailure", k] for k in ("ok", "raise", "raise-badstr")] + [bad, ["n"], ["s", "x"]],
    )
    for field, values in odd.items():
        for v in values:
            for fmt in (["s", "hello {a}"], ["s", "{a!r:>{a}} {missing}"], ["b", b"\xff"], None):
                yield dict(base, fmt=fmt, meta=dict(empty, **{field: v}))
    for v in odd["log_time"] + [["f", 1e13], ["b", b"1"], ["l", []]]:
        for ft in FTIMES:
            yield dict(base, meta=dict(empty, log_time=v), ftime=ft)
    for val in (bad, nontext, ["fn", "raise"], ["fn", bad]):
        for fmt in ("{a}", "{a!r}", "{a!s:>4}", "{a()}", "{a.x}", "{a[k]}", "{a:{a}}", "{a", "a}", "{}", "{a!z}"):
            for flat in (None, "real", "partial"):
                yield dict(base, fmt=["s", fmt], fields=[["a", val]], meta=dict(empty), flat=flat)
    # every kind of error from str/format x every kind of error from repr (the
    # second one decides what the last-resort text has to cope with), new and legacy path
    for k1 in RAISES + ("bytes",):
        for k2 in RAISES + ("none", "ok"):
          for kl in (("ok", "attr", "raise") if k2 in ("raise", "raise-bad", "ok") else ("ok",)):
            val = ["o", dict(str=k1, repr=k2, fmt=k1, klass=kl)]
            for fmt, lfmt in (("{a}", "%(a)s"), ("{a!r}", "%(a)r"), ("{a.x} {a}", "%s"), ("{b()}", "%(a")):
                yield dict(base, fmt=["s", fmt], fields=[["a", val], ["b", ["fn", k1 if k1 in RAISES else "raise"]]],
                           meta=dict(empty), legacy=dict(fmt=["s", lfmt], msg=[], sys=val if k2 != "ok" else None, err=False, why=None))
            yield dict(base, fmt=["s", "{a}"], fields=[["a", ["i", 1]]], meta=dict(empty),
                       legacy=dict(fmt=None, msg=[val, ["i", 2]], sys=None, err=False, why=None))


def _shard(ctx, i):
    hyp_run(ctx, CASE, run_case, 6000, label=f"shard{i}")


def run(ctx):
    enumerate_run(ctx, _grid_cases(), run_case, stop_after_violation=False)
    if ctx.has_violation():
        return
    if ctx.thorough:
        ctx.shards(_shard, list(range(16)))
    else:
        hyp_run(ctx, CASE, run_case, 2000, label="events")
