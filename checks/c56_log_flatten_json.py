"""C56 — flattened and JSON round-tripped log events format like the original.

formatEvent(e) == formatEvent(flatten(e)) == formatEvent(fromJSON(asJSON(e)))
for events whose format string references their fields through attribute / index
lookups, call syntax, conversions and format specifications, and whose values
format deterministically.  Values and format strings are plain data (tags).
"""
from hypothesis import strategies as st

from lib.core import hyp_run, enumerate_run, HarnessError

META = dict(
    property="C56",
    level="exploration",
    technique="Hypothesis: value trees + format strings grown along the value tree (so lookups resolve and specs fit the type), metamorphic oracle original text == flattened text == JSON round-trip text",
    level_text="Random events with 1-3 fields holding ints, floats, text (non-ASCII, lone surrogates, braces), bytes, None, bools, nested lists/tuples/dicts, objects with attributes/items and deterministic str/repr/format, and pure callables; format strings of 1-5 pieces whose fields walk the value tree ('.attr', '[key]', '[0]', '()' after a name or attribute, also in mid-chain), with !r/!s/!a conversions and type-appropriate (also nested '{w}') format specs, repeated fields, str and UTF-8 bytes formats. Only events that format successfully in the first place are judged. About half of the cases are additionally written with jsonFileLogObserver (record separators: default, none, a non-ASCII character, two control characters, two non-ASCII characters; bytes- and text-mode files) between filler events and read back with eventsFromJSONLogFile (bufferSize 1..4096, separator given or auto-detected): every event must come back, in order, with the original text; values contain the separator characters and lone surrogates. Sampled, not exhaustive; plus a small deterministic grid (all separators x chunk sizes x file modes).",
    level_note="Values are deterministic by construction (no identity-dependent repr, pure callables), checked by formatting the original twice. json, string.Formatter and Hypothesis are trusted. extractField, failures and log levels inside events are only carried along, not compared.",
    design_ref="§5 C56",
    rule="case = {fields, fmt pieces, bytesfmt}; non-trivial = the original formats without falling back to 'Unable to format', has at least one field and at least one of: lookup chain, call, conversion, format spec, container or object value; distinct by the whole case.",
)


# --------------------------------------------------------------------------
# tags -> objects

class Obj:
    """Deterministic object: str/repr fixed texts, format honours the spec."""

    def __init__(self, spec):
        self._s = spec["str"]
        self._r = spec["repr"]
        self._attrs = {k: build(v) for k, v in spec.get("attrs", {}).items()}
        self._items = {k: build(v) for k, v in spec.get("items", {}).items()}
        self._call = spec.get("call")

    def __str__(self):
        return self._s

    def __repr__(self):
        return self._r

    def __format__(self, fs):
        return format(self._s, fs)

    def __getattr__(self, name):
        if name.startswith("_"):
            raise AttributeError(name)
        try:
            return self._attrs[name]
        except KeyError:
            raise AttributeError(name)

    def __getitem__(self, key):
        return self._items[key]

    def __call__(self):
        if self._call is None:
            raise TypeError("not callable")
        return build(self._call)


class Fn:
    """A pure callable with a fixed repr."""

    def __init__(self, result):
        self._result = result

    def __call__(self):
        return build(self._result)

    def __repr__(self):
        return "<fn>"


def build(spec):
    t = spec[0]
    if t in ("i", "f", "s", "b", "bool"):
        return spec[1]
    if t == "n":
        return None
    if t == "l":
        return [build(x) for x in spec[1]]
    if t == "t":
        return tuple(build(x) for x in spec[1])
    if t == "d":
        return {k: build(v) for k, v in spec[1]}
    if t == "o":
        return Obj(spec[1])
    if t == "fn":
        return Fn(spec[1])
    if t == "dx":            # dict with keys JSON cannot express
        return {(1, 2): build(spec[1]), b"k": 1, "k": build(spec[1])}
    raise HarnessError(f"unknown tag {spec!r}")


def render(pieces, strip_specs=False):
    out = []
    for p in pieces:
        if p[0] == "lit":
            out.append(p[1].replace("{", "{{").replace("}", "}}"))
        else:
            _, name, chain, conv, spec = p
            out.append("{" + name + "".join(chain) + conv + ("" if strip_specs or not spec else ":" + spec) + "}")
    return "".join(out)


def make_event(case, strip_specs=False):
    from twisted.logger import LogLevel
    event = {k: build(v) for k, v in case["fields"]}
    fmt = render(case["fmt"], strip_specs)
    event["log_format"] = fmt.encode("utf-8") if case.get("bytesfmt") else fmt
    event["log_level"] = LogLevel.info
    event["log_namespace"] = "c56"
    event["log_time"] = 1.5
    return event


def _unformattable(text):
    return text.startswith("Unable to format event") or text.startswith("MESSAGE LOST")


def run_case(ctx, case):
    from twisted.logger import formatEvent, eventAsJSON, eventFromJSON
    from twisted.logger._flatten import flattenEvent

    pieces = case["fmt"]
    fields = [p for p in pieces if p[0] == "field"]
    event = make_event(case)
    t0 = formatEvent(event)
    if formatEvent(make_event(case)) != t0 and not _unformattable(t0):
        raise HarnessError("generator produced a value that does not format deterministically")

    has_spec = any(p[4] for p in fields)
    midcall = any("()" in "".join(p[2][:-1]) or (p[2][:1] == ["()"] and len(p[2]) > 1) for p in fields)
    conv_a = any(p[3] == "!a" for p in fields)
    feats = []
    if any(len(p[2]) > 0 for p in fields):
        feats.append("lookup/call chain")
    if any("()" in p[2] for p in fields):
        feats.append("call")
    if any("[" in "".join(p[2][:p[2].index("()")]) for p in fields if "()" in p[2]):
        feats.append("call after an index lookup")
    if midcall:
        feats.append("call inside a lookup chain")
    if any(p[3] for p in fields):
        feats.append("conversion")
    if has_spec:
        feats.append("format spec")
    if any("{" in p[4] for p in fields):
        feats.append("nested spec")
    if case.get("bytesfmt"):
        feats.append("bytes format")
    if len({(p[1], tuple(p[2]), p[3], p[4]) for p in fields}) < len(fields):
        feats.append("repeated field")
    if any(v[0] in ("l", "t", "d", "dx", "o", "fn") for _, v in case["fields"]):
        feats.append("container/object value")

    if fields and feats:
        ctx.nontrivial(case)
        ctx.count("nontrivial")
        for f in feats:
            ctx.count("with " + f)
        if len(feats) >= 4:
            ctx.sample(case)
    ctx.count("judged")

    def classify(stage, text):
        if case.get("bytesfmt"):
            return "bytes-format-unsupported"
        if stage == "flatten" and has_spec:
            if formatEvent(make_event(case, strip_specs=True)) == text:
                return "flatten-ignores-format-spec"
        if conv_a and _unformattable(text):
            return stage + "-loses-conversion-a"
        if _unformattable(text):
            return stage + "-makes-event-unformattable"
        return stage + "-text-differs"

    def raised(stage, e):
        if case.get("bytesfmt") and not (midcall and isinstance(e, (KeyError, AttributeError))):
            return "bytes-format-unsupported"
        if midcall:
            return stage + "-raises:call-inside-lookup-chain"
        return f"{stage}-raises:{type(e).__name__}"

    if _unformattable(t0):
        # The original only yields the generic error text.  That text embeds the
        # event's repr (which changes once log_flattened is added), so the three
        # texts cannot be compared literally; but flattening / JSON must not turn
        # an event that does not format into one that does.
        ctx.count("original does not format")
        try:
            flattenEvent(event)
            t1 = formatEvent(event)
            t2 = formatEvent(eventFromJSON(eventAsJSON(make_event(case))))
        except Exception:       # flattenEvent may refuse what formatEvent refuses
            ctx.count("original does not format and flattenEvent raises (not judged)")
            return
        for stage, t in (("flatten", t1), ("json", t2)):
            if not _unformattable(t):
                sig = "original-unformattable-but-flattened-formats"
                if has_spec and formatEvent(make_event(case, strip_specs=True)) == t:
                    sig = "flatten-ignores-format-spec"
                ctx.violation(sig, case, f"format {event['log_format']!r}: original {t0[:200]!r}, after {stage} {t!r}")
        return

    # ---- stage 1: flatten
    try:
        flattenEvent(event)
    except Exception as e:       # flattening an event that formats fine must work too
        ctx.violation(raised("flatten", e), case, f"formatEvent gives {t0!r} but flattenEvent raises {e!r}")
    t1 = formatEvent(event)
    if t1 != t0:
        ctx.violation(classify("flatten", t1), case,
                      f"format {event['log_format']!r}: original {t0!r}, after flattenEvent {t1!r}")
    # ---- stage 2: JSON round trip of the flattened event, and of a fresh one
    for label, ev in (("flattened", event), ("fresh", make_event(case))):
        try:
            js = eventAsJSON(ev)
        except Exception as e:
            ctx.violation(raised("json", e), case, f"eventAsJSON({label} event) raises {e!r}")
        if not isinstance(js, str) or "\n" in js:
            ctx.violation("json-not-a-line", case, f"eventAsJSON gave {js!r:.200}")
        back = eventFromJSON(js)
        t2 = formatEvent(back)
        if t2 != t0:
            ctx.violation(classify("json", t2), case,
                          f"format {ev['log_format']!r}: original {t0!r}, after JSON round trip ({label}) {t2!r}")
        if back.get("log_level") is not ev.get("log_level"):
            ctx.violation("json-level-lost", case, f"log_level came back as {back.get('log_level')!r}")
        # the loaded event is an event too: saving and loading it again must not change its text
        try:
            back2 = eventFromJSON(eventAsJSON(back))
        except Exception as e:
            ctx.violation(f"json-second-round-trip-raises:{type(e).__name__}", case, f"eventAsJSON(loaded event) raises {e!r}")
        t3 = formatEvent(back2)
        if t3 != t0:
            ctx.violation("json-second-round-trip-differs", case,
                          f"format {ev['log_format']!r}: original {t0!r}, after two JSON round trips ({label}) {t3!r}")
    # ---- stage 3: the same through the module's file layer
    if case.get("file"):
        _file_round_trip(ctx, case, t0)


def _filler(i):
    return dict(log_format="filler {n} {s}", n=i, s="\xe9\u241e\u241f", log_namespace="c56")


def _file_round_trip(ctx, case, t0):
    """jsonFileLogObserver -> eventsFromJSONLogFile: every event comes back, in
    order, and formats like the original."""
    import io
    from twisted.logger import formatEvent, jsonFileLogObserver, eventsFromJSONLogFile

    f = case["file"]
    sep, buf = f["sep"], f["buf"]
    raw = io.BytesIO()
    out = raw if f["wmode"] == "bytes" else io.TextIOWrapper(raw, encoding="utf-8", newline="", write_through=True)
    observer = jsonFileLogObserver(out, sep)
    fill = f.get("fill", 1)
    events = [_filler(i) for i in range(fill)] + [make_event(case)] + [_filler(10 + i) for i in range(fill)]
    want = [formatEvent(_filler(i)) for i in range(fill)] + [t0] + [formatEvent(_filler(10 + i)) for i in range(fill)]
    for ev in events:
        try:
            observer(ev)
        except Exception as e:
            ctx.violation(f"json-file-write-raises:{type(e).__name__}", case, f"jsonFileLogObserver (sep {sep!r}, {f['wmode']} file) raises {e!r}")
    data = raw.getvalue()
    src = io.BytesIO(data)
    if f["rmode"] == "text":
        src = io.TextIOWrapper(src, encoding="utf-8", newline="")
    try:
        got = list(eventsFromJSONLogFile(src, recordSeparator=None if f.get("auto") and sep in ("\x1e", "") else sep, bufferSize=buf))
    except Exception as e:
        ctx.violation(f"json-file-read-raises:{type(e).__name__}", case, f"eventsFromJSONLogFile (sep {sep!r}, bufferSize {buf}, {f['rmode']} file) raises {e!r}")
    texts = [formatEvent(e) for e in got]
    ctx.count("file round trip")
    if len(sep.encode("utf-8")) > 1:
        ctx.count("file round trip: multi-byte record separator")
        if buf < 64:
            ctx.count("file round trip: multi-byte record separator read in small chunks")
    if texts != want:
        sig = "json-file-records-lost" if len(texts) < len(want) else "json-file-text-differs"
        ctx.violation(sig, case, f"sep {sep!r}, bufferSize {buf}, write {f['wmode']}, read {f['rmode']}: "
                                 f"wrote {len(want)} events {want!r}, read back {texts!r}")


# --------------------------------------------------------------------------
# generation: the format string is grown along the value tree

_TEXT = st.one_of(st.text(max_size=5),
                  st.sampled_from(["caf\xe9", "☃", "{x}", "{", "}}", "a\nb", "\ud800", "\x00", " ", "'\"\\", "\u241e", "a\x1eb\u241e\u241f",
                                   "\udcff.txt"]))
_LEAF = st.one_of(
    st.builds(lambda n: ["i", n], st.one_of(st.integers(-1000, 10 ** 6), st.integers(-2 ** 70, 2 ** 70))),
    st.builds(lambda x: ["f", x], st.floats(allow_nan=False, allow_infinity=True)),
    st.builds(lambda s: ["s", s], _TEXT),
    st.builds(lambda b: ["b", b], st.sampled_from([b"", b"abc", b"\xff\x00", b"{x}"])),
    st.sampled_from([["n"], ["bool", True], ["bool", False]]),
)


def _obj(children):
    return st.builds(
        lambda s, r, attrs, items, call: ["o", dict(str=s, repr=r, attrs=attrs, items=items, call=call)],
        _TEXT, _TEXT.map(lambda t: "<" + t + ">"),
        st.dictionaries(st.sampled_from(["x", "y"]), children, max_size=2),
        st.dictionaries(st.sampled_from(["k", "j"]), children, max_size=1),
        st.one_of(st.none(), children))


def _extend(children):
    return st.one_of(
        st.builds(lambda xs: ["l", xs], st.lists(children, max_size=3)),
        st.builds(lambda xs: ["t", xs], st.lists(children, max_size=2)),
        st.builds(lambda kv: ["d", [[k, v] for k, v in kv.items()]],
                  st.dictionaries(st.sampled_from(["k", "j", "key 2"]), children, max_size=2)),
        _obj(children), _obj(children),
        st.builds(lambda c: ["fn", c], children),
        st.builds(lambda c: ["dx", c], children),
    )


# objects with callable attributes, and containers / objects that hold them, so
# that lookup chains like '[0].y()' or '.x[k].y()' exist
_SVC = st.builds(
    lambda s, x, y, k, c: ["o", dict(str=s, repr="<" + s + ">", attrs=dict(x=x, y=["fn", y]), items=dict(k=k), call=c)],
    _TEXT, _LEAF, _LEAF, _LEAF, st.one_of(st.none(), _LEAF))
_HOLDER = st.one_of(
    st.builds(lambda xs: ["l", xs], st.lists(_SVC, min_size=1, max_size=2)),
    st.builds(lambda v: ["d", [["k", v]]], _SVC),
    st.builds(lambda v, w: ["o", dict(str="h", repr="<h>", attrs=dict(x=["l", [w]]), items=dict(k=v), call=None)], _SVC, _SVC),
)
VALUE = st.one_of(_LEAF, st.recursive(_LEAF, _extend, max_leaves=6), st.recursive(_LEAF, _extend, max_leaves=6),
                  _SVC, _HOLDER, _HOLDER)

STR_SPECS = ["", ">8", "<6", "^7", ".2", "*>5", "3", "{w}", ">{w}", "s"]
INT_SPECS = ["", "05d", "x", ",", "+", ">6", "b", "{w}", "e", "c"]
FLOAT_SPECS = ["", ".2f", "e", "10.3g", "+", "%", "{w}", ".{w}f"]


_SWITCHES = ["", "", "", "", "", "", "", "", "", "", "m", "m", "m", "s", "s", "s", "a", "a", "sm", "asm", "b", "bsm"]


SEPS = ["\x1e", "", "\u241e", "\x1e\x1d", "\u241e\u241f", "\x1e"]
FILE = st.one_of(
    st.none(),
    st.integers(0, len(SEPS) * 8 * 2 * 2 * 2 * 3 - 1).map(lambda n: (lambda q: dict(
        sep=SEPS[q[0]], buf=[1, 2, 3, 5, 7, 16, 64, 4096][q[1]], wmode=["bytes", "text"][q[2]],
        rmode=["bytes", "text"][q[3]], auto=bool(q[4]), fill=q[5]))(_mixed(n, [len(SEPS), 8, 2, 2, 2, 3]))))


def _mixed(n, radices):
    out = []
    for r in radices:
        n, d = divmod(n, r)
        out.append(d)
    return out


@st.composite
def CASE(draw):
    # per-case switches for the constructs behind the listed findings, so that
    # most cases stay clear of them and the search goes on behind them
    sw = draw(st.sampled_from(_SWITCHES))
    allow_a, allow_spec, allow_midcall, bytesfmt = ("a" in sw), ("s" in sw), ("m" in sw), ("b" in sw)
    names = draw(st.sampled_from([["a"], ["a", "b"], ["a", "b", "c"], ["a b", "a"], ["log_x", "b"]]))
    fields = [[n, draw(VALUE)] for n in names]
    fields.append(["w", ["i", draw(st.sampled_from([1, 4, 9]))]])
    byname = dict((n, v) for n, v in fields)
    pieces = []
    npieces = draw(st.integers(1, 5))
    for _ in range(npieces):
        kind = draw(st.integers(0, 3))
        if kind == 0:
            pieces.append(["lit", draw(st.sampled_from([" ", "text ", "{", "}", "{}", "\n", "\xe9=", ": ", "%s", "!r"]))])
            continue
        if kind == 1 and any(p[0] == "field" for p in pieces) and draw(st.booleans()):
            pieces.append(draw(st.sampled_from([p for p in pieces if p[0] == "field"])))     # repeated field
            continue
        name = draw(st.sampled_from(names))
        v = byname[name]
        chain = []
        after_index = False
        for _depth in range(4):
            opts = ["stop"]
            t = v[0]
            if t == "o":
                opts += ["." + k for k in sorted(v[1]["attrs"])] + ["[" + k + "]" for k in sorted(v[1]["items"])]
                if v[1]["call"] is not None and not after_index:
                    opts.append("()")
            elif t == "d":
                opts += ["[" + k + "]" for k, _ in v[1]]
            elif t == "dx":
                opts += ["[k]"]
            elif t in ("l", "t"):
                opts += ["[%d]" % i for i in range(len(v[1]))]
            elif t == "fn" and not after_index:
                opts += ["()", "()"]
            if len(opts) > 1 and draw(st.sampled_from([True, True, True, False])):
                step = draw(st.sampled_from(opts[1:]))
            else:
                step = "stop"
            if "()" in chain and not allow_midcall:
                step = "stop"             # keep '()' the last element of the chain
            if step == "stop":
                break
            chain.append(step)
            if step == "()":
                v = v[1]["call"] if t == "o" else v[1]
                after_index = True        # '()' may only follow a name or an attribute
            elif step.startswith("."):
                v = v[1]["attrs"][step[1:]]
                after_index = False
            else:
                key = step[1:-1]
                if t == "o":
                    v = v[1]["items"][key]
                elif t == "d":
                    v = dict((k, x) for k, x in v[1])[key]
                elif t == "dx":
                    v = v[1]
                else:
                    v = v[1][int(key)]
                after_index = True
        conv = draw(st.sampled_from(["", "", "", "!r", "!s", "!r", "!a" if allow_a else "!s"]))
        t = v[0]
        if conv or t in ("s", "o"):
            specs = STR_SPECS
        elif t in ("i", "bool"):
            specs = INT_SPECS
        elif t == "f":
            specs = FLOAT_SPECS
        else:
            specs = ["", "", ""]
        spec = draw(st.sampled_from(specs)) if allow_spec else ""
        pieces.append(["field", name, chain, conv, spec])
    return dict(fields=fields, fmt=pieces, bytesfmt=bytesfmt, file=draw(FILE))


def _grid_cases():
    o = ["o", dict(str="S", repr="<R>", attrs=dict(x=["i", 42], y=["fn", ["s", "called"]]),
                   items=dict(k=["s", "item"]), call=["o", dict(str="inner", repr="<inner>", attrs=dict(x=["s", "deep"]), items={}, call=None)])]
    fields = [["a", o], ["b", ["l", [["i", 1], ["s", "two"]]]], ["c", ["fn", ["d", [["k", ["f", 2.5]]]]]], ["w", ["i", 6]],
              ["x", ["dx", ["s", "odd keys"]]], ["h", ["l", [o]]], ["g", ["d", [["k", o]]]]]
    singles = [
        ["field", "a", [], "", ""], ["field", "a", [], "!r", ""], ["field", "a", [], "!s", ""], ["field", "a", [], "!a", ""],
        ["field", "a", [".x"], "", ""], ["field", "a", ["[k]"], "", ""], ["field", "a", [".y", "()"], "", ""],
        ["field", "a", ["()"], "", ""], ["field", "a", ["()", ".x"], "", ""], ["field", "b", ["[1]"], "", ""],
        ["field", "b", [], "", ""], ["field", "c", ["()"], "", ""], ["field", "c", ["()", "[k]"], "", ""],
        ["field", "a", [], "", ">8"], ["field", "a", [".x"], "", "05d"], ["field", "a", [".x"], "!r", ">6"],
        ["field", "a", [], "", "{w}"], ["field", "c", [], "!r", ""],
        ["field", "h", ["[0]", ".y", "()"], "", ""], ["field", "g", ["[k]", ".y", "()"], "!r", ">{w}"],
        ["field", "h", ["[0]", ".x"], "", ""],
    ]
    for p in singles:
        for bytesfmt in (False, True):
            yield dict(fields=fields, fmt=[["lit", "v="], p], bytesfmt=bytesfmt)
    # the file layer: every separator x chunk size x file modes, with text that
    # contains separator characters and a lone surrogate
    tfields = [["t", ["s", "x\u241e\u241fy\x1e\udcffz"]], ["w", ["i", 6]]]
    for sep in SEPS[1:5] + ["\x1e"]:
        for buf in (1, 2, 3, 5, 7, 4096):
            for wmode in ("bytes", "text"):
                for rmode in ("bytes", "text"):
                    yield dict(fields=tfields, fmt=[["lit", "t="], ["field", "t", [], "", ""], ["field", "t", [], "!r", ""]],
                               bytesfmt=False, file=dict(sep=sep, buf=buf, wmode=wmode, rmode=rmode, auto=(buf == 3), fill=2))
    for p in singles:
        for q in singles[:8]:
            yield dict(fields=fields, fmt=[p, ["lit", " {and} "], q, ["lit", "\n"], p], bytesfmt=False)


def _shard(ctx, i):
    hyp_run(ctx, CASE(), run_case, 10000, label=f"shard{i}")


def run(ctx):
    enumerate_run(ctx, _grid_cases(), run_case, stop_after_violation=False)
    if ctx.has_violation():
        return
    if ctx.thorough:
        ctx.shards(_shard, list(range(16)))
    else:
        hyp_run(ctx, CASE(), run_case, 2000, label="events")
