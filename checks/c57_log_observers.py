"""C57 — LogPublisher fan-out, LogLevelFilterPredicate namespace hierarchy,
LimitedHistoryLogObserver replay.

Three kinds of plain-data cases, each with its own reference model:
  pub     observers (some raising, on events and/or on failure reports),
          add/remove between and during deliveries, a stream of events;
  filter  a sequence of level configurations over a small dotted universe and
          events (namespace, level), judged through the predicate itself,
          logLevelForNamespace and a FilteringLogObserver;
  hist    buffer size, interleaved appends and replays.
Every case builds its own publisher / predicate / buffer objects.
"""
from hypothesis import strategies as st

from lib.core import hyp_run, enumerate_run, HarnessError

META = dict(
    property="C57",
    level="exploration",
    technique="Hypothesis-generated observer sets / event streams / level configurations / buffer sizes against reference models (recursive fan-out with failure reports; explicit dotted-prefix walk; list slicing), plus complete enumeration of the level-for-namespace function over a small universe",
    level_text="pub: up to 5 observers, each raising on a chosen set of event numbers and optionally on failure reports, up to 8 operations (emit / addObserver / removeObserver, and add/remove performed by an observer during a delivery); every observer's received sequence (events and nested failure reports, with the reported observer and exception) is compared with the model. filter: all namespaces over segments {a,b,ab} up to depth 3 plus odd dotted forms, histories of up to 12 steps in which configuration steps (set / clear / change of defaultLogLevel / invalid level) and events are interleaved, so that namespaces are looked up again after every kind of reconfiguration, all five levels; complete enumeration for single and double configurations and for 'configure, look up every namespace, reconfigure, look up every namespace again', random beyond. hist: sizes 0..6 and None, up to 12 appends interleaved with replays. Sampled except where stated.",
    level_note="Models written from the class and method docstrings. For add/remove during a delivery only observers registered before and after the whole delivery are required to see the event (exactly once, in registration order); the others at most once. Observers raise Exception subclasses only. Ordering of failure reports relative to later events is compared exactly as the natural reading (reports follow the fan-out of the event that caused them).",
    design_ref="§5 C57",
    rule="pub: non-trivial = at least 2 observers registered at some emit and (some observer raised, or the observer set changed between/during deliveries); filter: at least one configured namespace and an event whose namespace has a configured proper dotted prefix or a non-dotted look-alike prefix; hist: more appends than the buffer size and at least one replay. Distinct by the whole case.",
)

LEVELS = ["debug", "info", "warn", "error", "critical"]


class _Runaway(BaseException):
    """Raised by an observer that is being called without end (not an Exception,
    so that the publisher does not swallow it)."""


class _Boom(Exception):
    def __init__(self, key):
        Exception.__init__(self, key)
        self.key = key


# --------------------------------------------------------------------------
# pub

def _pub_model(case):
    """Expected per-observer sequences.  Returns (received lists, flags)."""
    specs = case["observers"]
    n = len(specs)
    registered = [i for i in range(n) if specs[i].get("initial")]
    received = [[] for _ in range(n)]
    uncertain = [set() for _ in range(n)]     # event keys an observer may or may not get
    flags = set()
    order = []                                # global order of (observer, key) receipts

    def raises(i, key):
        s = specs[i]
        if key[0] == "n":
            return key[1] in s.get("raise_on", [])
        return bool(s.get("raise_on_reports"))

    def deliver(key, targets):
        broken = []
        for i in targets:
            received[i].append(key)
            order.append((i, key))
            if raises(i, key):
                flags.add("raised")
                broken.append(i)
        for b in broken:
            report = ("report", b, (b, key))
            if key[0] == "report":
                flags.add("nested report")
            deliver(report, [x for x in targets if x != b])

    seq = 0
    for op in case["ops"]:
        if op[0] == "add":
            if op[1] not in registered:
                registered.append(op[1])
            flags.add("changed")
        elif op[0] == "remove":
            if op[1] in registered:
                registered.remove(op[1])
            flags.add("changed")
        elif op[0] == "emit":
            key = ("n", op[1], seq)
            seq += 1
            during = []
            for i in registered:
                act = specs[i].get("during", {}).get(str(op[1]))
                if act:
                    during.append((i, act))
            if len(registered) >= 2:
                flags.add("fanout")
            if during:
                # mutation during the delivery: model only what is certain
                flags.add("during")
                before = list(registered)
                after = list(registered)
                for i, act in during:
                    if act[0] == "add" and act[1] not in after:
                        after.append(act[1])
                    if act[0] == "remove" and act[1] in after:
                        after.remove(act[1])
                for i in range(n):
                    if i in before and i in after:
                        received[i].append(key)
                    elif i in before or i in after:
                        uncertain[i].add(key)
                registered = after
            else:
                deliver(key, list(registered))
    return received, uncertain, flags, order


def _run_pub(ctx, case):
    from twisted.logger import LogPublisher

    specs = case["observers"]
    n = len(specs)
    received = [[] for _ in range(n)]
    order = []            # global receipt order of (observer, key)
    observers = []
    state = {}

    def key_of(event):
        if "n" in event:
            return ("n", event["n"], event["seq"])
        f = event.get("log_failure")
        who = event.get("observer")
        idx = observers.index(who) if who in observers else None
        k = getattr(getattr(f, "value", None), "key", None)
        return ("report", idx, k)

    def make(i):
        spec = specs[i]

        def observer(event):
            key = key_of(event)
            received[i].append(key)
            order.append((i, key))
            if len(order) > 20000:
                raise _Runaway()
            if key[0] == "n":
                act = spec.get("during", {}).get(str(key[1]))
                if act and state.get("during_ok"):
                    if act[0] == "add":
                        state["pub"].addObserver(observers[act[1]])
                    else:
                        state["pub"].removeObserver(observers[act[1]])
                if key[1] in spec.get("raise_on", []):
                    raise _Boom((i, key))
            elif spec.get("raise_on_reports"):
                raise _Boom((i, key))
        return observer

    for i in range(n):
        observers.append(make(i))
    pub = LogPublisher(*[observers[i] for i in range(n) if specs[i].get("initial")])
    state["pub"] = pub
    state["during_ok"] = True
    state["seq"] = 0
    for op in case["ops"]:
        if op[0] == "add":
            pub.addObserver(observers[op[1]])
        elif op[0] == "remove":
            pub.removeObserver(observers[op[1]])
        elif op[0] == "emit":
            try:
                pub(dict(n=op[1], seq=state["seq"], log_format="event {n}", log_namespace="c57"))
            except _Runaway:
                ctx.violation("pub-runaway-delivery", case, f"more than 20000 deliveries for one history; last {order[-6:]!r}")
            state["seq"] += 1
        else:
            raise HarnessError(f"bad op {op!r}")

    exp, uncertain, flags, exp_order = _pub_model(case)
    for i in range(n):
        got = received[i]
        want = exp[i]
        if uncertain[i]:
            # drop the events this observer may or may not have seen, but at most once each
            for k in uncertain[i]:
                if got.count(k) > 1:
                    ctx.violation("pub-duplicate-delivery", case, f"observer {i} got {k!r} {got.count(k)} times")
            got = [k for k in got if k not in uncertain[i]]
        if got != want:
            gs, ws = set(got), set(want)
            if any(got.count(k) > 1 for k in gs if want.count(k) <= 1):
                sig = "pub-duplicate-delivery"
            elif [k for k in want if k[0] == "n" and k not in gs]:
                sig = "pub-event-not-delivered"
                if "during" in flags:
                    sig = "pub-event-not-delivered-after-removal-during-delivery"
            elif [k for k in want if k[0] == "report" and k not in gs]:
                sig = "pub-failure-not-reported"
            elif [k for k in got if k not in ws]:
                sig = "pub-unexpected-delivery"
            else:
                sig = "pub-order"
            ctx.violation(sig, case, f"observer {i}: received {got!r}, expected {want!r}")
    # every observer saw the right sequence; now the order across observers
    if "during" not in flags and order != exp_order:
        ctx.violation("pub-registration-order", case, f"receipt order {order!r}, expected {exp_order!r}")
    ctx.count("pub cases")
    for f in sorted(flags):
        ctx.count("pub: " + f)
    if "fanout" in flags and (flags & {"raised", "changed", "during"}):
        ctx.nontrivial(("pub", case))
        ctx.count("nontrivial pub")
        if "nested report" in flags:
            ctx.sample(case)


# --------------------------------------------------------------------------
# filter

def _ref_level(config, default, namespace):
    """Level of the most specific configured dotted prefix (explicit walk)."""
    if not namespace:
        return default
    ns = namespace
    while True:
        if ns in config:
            return config[ns]
        if "." not in ns:
            return default
        ns = ns.rsplit(".", 1)[0]
        if ns == "":
            return default


def _run_filter(ctx, case):
    from twisted.logger import LogLevel, LogLevelFilterPredicate, FilteringLogObserver, PredicateResult
    from twisted.logger import InvalidLogLevelError

    L = {name: LogLevel.lookupByName(name) for name in LEVELS}
    default = case["default"]
    pred = LogLevelFilterPredicate(defaultLogLevel=L[default])
    config = {}
    cur_default = default
    # one history: configuration steps and events (lookups) interleaved.  Older
    # cases give the configuration first and the events afterwards.
    steps = case.get("steps")
    if steps is None:
        steps = list(case["config"]) + [["event", ns, lvl] for ns, lvl in case["events"]]
    passed, dropped = [], []
    obs = FilteringLogObserver(passed.append, [pred], negativeObserver=dropped.append)
    interesting = False
    looked_up = set()        # namespaces looked up before the latest configuration change
    changed_since = {}       # namespace -> a configuration step happened after its last lookup
    for step in steps:
        if step[0] != "event":
            for k in looked_up:
                changed_since[k] = True
        if step[0] == "set":
            ns, lvl = step[1], step[2]
            pred.setLogLevelForNamespace(ns, L[lvl])
            if ns:
                config[ns] = lvl
            else:
                cur_default = lvl
        elif step[0] == "clear":
            pred.clearLogLevels()
            config = {}
            cur_default = default
        elif step[0] == "default":
            pred.defaultLogLevel = L[step[1]]      # takes effect at the next clearLogLevels
            default = step[1]
        elif step[0] == "invalid":
            try:
                pred.setLogLevelForNamespace(step[1], "not a level")
            except InvalidLogLevelError:
                pass
            else:
                ctx.violation("filter-invalid-level-accepted", case, "setLogLevelForNamespace accepted a non-level")
        elif step[0] == "event":
            ns, lvl = step[1], step[2]
            event = dict(log_format="x")
            if ns is not None:
                event["log_namespace"] = ns
            if lvl is not None:
                event["log_level"] = L[lvl]
            stale = ""
            if lvl is None or not ns:
                want = False          # documented: events without level or namespace are dropped
                ctx.count("filter: event without namespace/level")
            else:
                if changed_since.pop(ns, False):
                    ctx.count("filter: namespace looked up again after a configuration change")
                    stale = "-after-reconfiguration"
                    interesting = True
                looked_up.add(ns)
                need = _ref_level(config, cur_default, ns)
                want = LEVELS.index(lvl) >= LEVELS.index(need)
                got_level = pred.logLevelForNamespace(ns)
                if got_level is not L[need]:
                    sig = "filter-namespace-level"
                    if need != cur_default and got_level is L[cur_default]:
                        sig = "filter-configured-prefix-ignored"
                    elif need == cur_default:
                        sig = "filter-unrelated-namespace-matched"
                    ctx.violation(sig + stale, case, f"logLevelForNamespace({ns!r}) = {got_level!r}, reference {need} (config {config!r}, default {cur_default})")
                if any(ns != c and (ns.startswith(c + ".") or (ns.startswith(c))) for c in config):
                    interesting = True
            res = pred(event)
            exp_res = PredicateResult.maybe if want else PredicateResult.no
            if res is not exp_res:
                ctx.violation("filter-decision-%s" % ("dropped" if want else "passed"), case,
                              f"event ns={ns!r} level={lvl}: predicate says {res!r}, reference {'pass' if want else 'drop'} (config {config!r}, default {cur_default})")
            n0, d0 = len(passed), len(dropped)
            obs(event)
            if (len(passed) - n0, len(dropped) - d0) != ((1, 0) if want else (0, 1)) or (passed[-1:] if want else dropped[-1:]) != [event]:
                ctx.violation("filter-observer-forwarding", case, f"event ns={ns!r} level={lvl}: forwarded {len(passed) - n0}x, negative {len(dropped) - d0}x")
            ctx.count("filter: pass" if want else "filter: drop")
        else:
            raise HarnessError(f"bad step {step!r}")
    ctx.count("filter cases")
    if interesting:
        ctx.nontrivial(("filter", case))
        ctx.count("nontrivial filter")


# --------------------------------------------------------------------------
# hist

def _run_hist(ctx, case):
    from twisted.logger import LimitedHistoryLogObserver

    size = case["size"]
    h = LimitedHistoryLogObserver(size)
    model = []
    count = 0
    replays = 0
    overflow = False
    for op in case["ops"]:
        if op[0] == "append":
            for _ in range(op[1]):
                ev = dict(n=count)
                count += 1
                h(ev)
                model.append(ev)
            if size is not None and len(model) > size:
                overflow = True
        elif op[0] == "replay":
            out = []
            h.replayTo(out.append)
            want = model if size is None else (model[-size:] if size > 0 else [])
            replays += 1
            if len(out) != len(want) or any(a is not b for a, b in zip(out, want)):
                ns = [e.get("n") for e in out]
                ws = [e.get("n") for e in want]
                sig = ("hist-wrong-count" if len(ns) != len(ws) else
                       "hist-wrong-order" if sorted(ns) == sorted(ws) else "hist-wrong-events")
                ctx.violation(sig, case, f"size {size}: replayed {ns!r}, expected {ws!r}")
        else:
            raise HarnessError(f"bad op {op!r}")
    ctx.count("hist cases")
    if overflow and replays:
        ctx.nontrivial(("hist", case))
        ctx.count("nontrivial hist")


def run_case(ctx, case):
    kind = case["kind"]
    if kind == "pub":
        _run_pub(ctx, case)
    elif kind == "filter":
        _run_filter(ctx, case)
    elif kind == "hist":
        _run_hist(ctx, case)
    else:
        raise HarnessError(f"unknown kind {kind!r}")


# --------------------------------------------------------------------------
# generation

def _observer_spec(nobs, allow_during):
    during = st.just({})
    if allow_during:
        during = st.dictionaries(
            st.sampled_from(["0", "1", "2", "3"]),
            st.builds(lambda a, k: [a, k], st.sampled_from(["add", "remove"]), st.integers(0, nobs - 1)),
            max_size=1)
    return st.builds(
        lambda initial, raise_on, rr, d: dict(initial=initial, raise_on=sorted(raise_on), raise_on_reports=rr, during=d),
        st.sampled_from([True, True, True, False]),
        st.one_of(st.just(set()), st.sets(st.integers(0, 3), max_size=3)),
        st.sampled_from([False, False, True]),
        during)


@st.composite
def PUB(draw, allow_during=False):
    nobs = draw(st.integers(1 if not allow_during else 2, 5))
    specs = [draw(_observer_spec(nobs, False)) for _ in range(nobs)]
    if allow_during:
        # exactly one observer changes the observer set while events are delivered to it;
        # nobody raises (who the 'other observers' of a report are would be ambiguous)
        for s in specs:
            s["raise_on"] = []
            s["raise_on_reports"] = False
        actor = draw(st.integers(0, nobs - 1))
        specs[actor]["initial"] = True
        specs[actor]["during"] = draw(st.dictionaries(
            st.sampled_from(["0", "1", "2", "3"]),
            st.builds(lambda a, k: [a, k], st.sampled_from(["add", "remove", "remove"]), st.integers(0, nobs - 1)),
            min_size=1, max_size=2))
    op = st.one_of(
        st.builds(lambda n: ["emit", n], st.integers(0, 3)),
        st.builds(lambda n: ["emit", n], st.integers(0, 3)),
        st.builds(lambda n: ["emit", n], st.integers(0, 3)),
        st.builds(lambda i: ["add", i], st.integers(0, nobs - 1)),
        st.builds(lambda i: ["remove", i], st.integers(0, nobs - 1)))
    ops = draw(st.lists(op, min_size=1, max_size=8))
    return dict(kind="pub", observers=specs, ops=ops)


NAMESPACES = ["a", "b", "ab", "a.b", "a.ab", "a.b.a", "a.b.ab", "ab.a", "b.a.b", "a.a", "a.a.a",
              "a.", ".a", "a..b", ".", "a.b.", "A", "a.B"]
_ns = st.sampled_from(NAMESPACES)
_lvl = st.sampled_from(LEVELS)

_cfg_step = st.one_of(
    st.builds(lambda n, l: ["set", n, l], _ns, _lvl),
    st.builds(lambda n, l: ["set", n, l], _ns, _lvl),
    st.builds(lambda n, l: ["set", n, l], _ns, _lvl),
    st.builds(lambda l: ["set", "", l], _lvl),
    st.just(["clear"]), st.just(["clear"]),
    st.builds(lambda l: ["default", l], _lvl),
    st.builds(lambda n: ["invalid", n], _ns))
# few namespaces per history, so that the same one is looked up again and again
_ev_step = st.tuples(st.sampled_from(["a.b", "a.b.a", "a.b.ab", "a", "ab.a", "a.a"] * 3 + NAMESPACES + ["", None]),
                     st.sampled_from(LEVELS * 6 + [None])).map(lambda t: ["event", t[0], t[1]])
FILTER = st.builds(
    lambda default, steps: dict(kind="filter", default=default, steps=steps),
    _lvl, st.lists(st.one_of(_cfg_step, _ev_step, _ev_step), min_size=2, max_size=12))

HIST = st.builds(
    lambda size, ops: dict(kind="hist", size=size, ops=ops),
    st.one_of(st.integers(0, 6), st.none()),
    st.lists(st.one_of(st.builds(lambda k: ["append", k], st.integers(0, 5)),
                       st.builds(lambda k: ["append", k], st.integers(0, 5)),
                       st.just(["replay"])), min_size=1, max_size=8))


def _filter_grid():
    """Complete: every single and every pair of configured namespaces x every
    event namespace, at levels that separate 'configured' from 'default'."""
    for i, c1 in enumerate(NAMESPACES):
        events = [[ns, "info"] for ns in NAMESPACES] + [[ns, "error"] for ns in NAMESPACES]
        yield dict(kind="filter", default="warn", config=[["set", c1, "debug"]], events=events)
        yield dict(kind="filter", default="info", config=[["set", c1, "critical"]], events=events)
        for c2 in NAMESPACES[i + 1:]:
            yield dict(kind="filter", default="warn", config=[["set", c1, "debug"], ["set", c2, "error"]],
                       events=[[ns, "info"] for ns in NAMESPACES])
        # every namespace looked up before and after each kind of reconfiguration
        look = [["event", ns, "info"] for ns in NAMESPACES]
        for change in ([["clear"]], [["set", c1, "error"]], [["set", "", "debug"]], [["default", "debug"], ["clear"]],
                       [["set", NAMESPACES[(i + 1) % len(NAMESPACES)], "error"]]):
            yield dict(kind="filter", default="warn", steps=[["set", c1, "debug"]] + look + change + look)


def _hist_grid():
    for size in [0, 1, 2, 3, 5, None]:
        for total in range(0, 9):
            yield dict(kind="hist", size=size, ops=[["append", total], ["replay"], ["append", 2], ["replay"]])


def _pub_grid():
    # one raising observer at each position among three, raising on reports or not
    for pos in range(3):
        for rr in (False, True):
            for other_rr in (False, True):
                specs = [dict(initial=True, raise_on=[], raise_on_reports=other_rr, during={}) for _ in range(3)]
                specs[pos] = dict(initial=True, raise_on=[1], raise_on_reports=rr, during={})
                yield dict(kind="pub", observers=specs, ops=[["emit", 0], ["emit", 1], ["emit", 2]])
    # an observer removing itself / another / adding one while an event is delivered
    for who in range(3):
        for act in (["remove", 0], ["remove", 1], ["remove", 2], ["add", 3]):
            specs = [dict(initial=True, raise_on=[], raise_on_reports=False, during={}) for _ in range(3)]
            specs.append(dict(initial=False, raise_on=[], raise_on_reports=False, during={}))
            specs[who]["during"] = {"1": act}
            yield dict(kind="pub", observers=specs, ops=[["emit", 0], ["emit", 1], ["emit", 2]])


def _shard(ctx, i):
    strat = [PUB(), FILTER, HIST, PUB(allow_during=True)][i % 4]
    hyp_run(ctx, strat, run_case, 10000, label=f"shard{i}")


def run(ctx):
    enumerate_run(ctx, _pub_grid(), run_case, stop_after_violation=False)
    enumerate_run(ctx, _filter_grid(), run_case, stop_after_violation=False)
    enumerate_run(ctx, _hist_grid(), run_case, stop_after_violation=False)
    ctx.extra["filter_grid"] = f"all single and pair configurations over {len(NAMESPACES)} namespaces"
    if ctx.has_violation():
        return
    if ctx.thorough:
        ctx.shards(_shard, list(range(16)))
    else:
        hyp_run(ctx, PUB(), run_case, 1500, label="pub")
        hyp_run(ctx, PUB(allow_during=True), run_case, 500, label="pub-during")
        hyp_run(ctx, FILTER, run_case, 1500, label="filter")
        hyp_run(ctx, HIST, run_case, 500, label="hist")
