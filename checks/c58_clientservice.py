"""C58 — ClientService: one connection, retry delays, every waiter resolved, no rejected event.

The real ``ClientService`` is driven by a generated history of operations over a
fake endpoint / fake transports / ``task.Clock`` in lockstep with a reference
model written from the documentation of ``ClientService`` (not from the automat
transition table).  After every operation the observable effects are compared:
endpoint.connect calls, retry-policy calls and the time of the retry timer,
whenConnected results, stopService results, close requests on transports,
cancellation of the attempt, plus the invariants of the statement.
"""
from hypothesis import strategies as st

from lib.core import hyp_run, enumerate_run, HarnessError
from lib import harness

META = dict(
    property="C58",
    level="exploration",
    technique="lockstep reference model over generated operation histories (fake endpoint, fake transports, task.Clock): breadth-first complete enumeration of short histories with state hashing over the real service + Hypothesis random long histories",
    level_text="Every history over the op alphabet (start, stop, whenConnected(None/1/2), attempt ok with prepare ok/raise/deferred, attempt fail, connection lost, (also with an application protocol whose own connectionLost raises), prepare Deferred ok/fail, clock advance to the timer / by 0.5, synchronous connect outcome) is enumerated breadth first up to the stated depth, extending only histories that reach a new (real machine state, counters, waiters, transports, timer) fingerprint; random histories up to 40 ops add failure limits up to 3, user cancellation of waiters, startService made from inside whenConnected/stopService callbacks (modelled: it takes effect right after the step), other service calls made from such callbacks, and odd clock steps. Exhaustive only to that depth; beyond it sampled.",
    level_note="Reference model written from the ClientService/whenConnected/stopService/prepareConnection docstrings; trusted. Readings fixed by the model: a dropped established connection counts as failure #1 for the retry policy; the consecutive-failure count survives stop/start; a rejected (prepareConnection) connection must be closed by the service and its later loss is a non-event; a stopService Deferred may fire while a *rejected* connection is still closing. Histories are truncated (invariants only) after points where the documentation does not determine the behaviour (loss or stop while a prepareConnection Deferred is pending once that no longer raises; service calls made re-entrantly from callbacks). automat, Deferred and task.Clock are trusted.",
    design_ref="§5 C58",
    rule="case = {hook: bool, ops: [...]}; ops that are not applicable in the current harness state are skipped. non-trivial = at least 4 effective ops including a start, a connection outcome and one of stop / loss / whenConnected-pending / retry timer firing; distinct by the effective op list.",
)

PREPS = ("ok", "raise", "faild", "defer")


def policy(n):
    return float(2 ** (min(max(n, 0), 6) - 1)) if n >= 1 else 0.25


class _AttemptFailed(Exception):
    pass


class _PrepFailed(Exception):
    pass


class _AppLostError(Exception):
    """Raised by the application protocol's own connectionLost."""


# --------------------------------------------------------------------------
# harness world: the real service and its doubles


class _Transport:
    disconnecting = False

    def __init__(self, world, cid):
        self.world = world
        self.cid = cid
        self.closing = False
        self.lost = False

    def loseConnection(self):
        if not self.closing and not self.lost:
            self.world.close_requests.append(self.cid)
        self.closing = True
        self.disconnecting = True

    abortConnection = loseConnection

    def write(self, data):
        pass

    def getPeer(self):
        return None

    getHost = getPeer


class World:
    def __init__(self, hook):
        from twisted.application.internet import ClientService
        from twisted.internet import task, defer
        from twisted.internet.protocol import Factory, Protocol

        self.defer = defer
        self.clock = task.Clock()
        self.transports = []       # index = cid
        self.protocols = []        # app protocols, index = cid
        self.proxies = []
        self.attempt = None        # dict(d=, factory=, status=)
        self.attempts = []
        self.prep = None           # (Deferred, cid) pending prepareConnection
        self.next_prep = "ok"
        self.armed = None
        self.waiters = []          # dict(d=, status=None|tuple, action=)
        self.stops = []            # dict(d=, fired=bool)
        self.connect_calls = 0
        self.policy_calls = []
        self.close_requests = []
        self.cancelled_attempts = 0
        self.cancelled_preps = 0
        self.hook_calls = 0
        self.two_live = None
        self.reentrant_errors = []
        self.reentrant_done = 0
        self.step_actions = []     # service calls made from callbacks during the current step
        self.failures_by_id = {}
        world = self

        class AppProtocol(Protocol):
            cid = None
            raise_on_lost = False

            def connectionLost(self, reason):
                if self.raise_on_lost:
                    raise _AppLostError()

        class AppFactory(Factory):
            protocol = AppProtocol

        class Endpoint:
            def connect(self, factory):
                return world._connect(factory)

        def _policy(n):
            world.policy_calls.append(n)
            return policy(n)

        def _hook(proto):
            return world._hook(proto)

        self.AppProtocol = AppProtocol
        self.service = ClientService(Endpoint(), AppFactory(), retryPolicy=_policy,
                                     clock=self.clock,
                                     prepareConnection=_hook if hook else None)

    # -- doubles ------------------------------------------------------------
    def live_open(self):
        return [t.cid for t in self.transports if not t.lost and not t.closing]

    def not_lost(self):
        return [t.cid for t in self.transports if not t.lost]

    def _connect(self, factory):
        self.connect_calls += 1
        others = self.live_open()
        if self.attempt is not None and self.attempt["status"] == "pending":
            others = others + ["attempt"]
        if others and self.two_live is None:
            self.two_live = others

        def cancelled(d):
            att["status"] = "cancelled"
            self.cancelled_attempts += 1

        d = self.defer.Deferred(cancelled)
        att = dict(d=d, factory=factory, status="pending", tailed=False)
        self.attempt = att
        self.attempts.append(att)
        if self.armed is not None:
            armed, self.armed = self.armed, None
            if armed[0] == "fail":
                self.resolve_fail()
            else:
                self.resolve_ok(armed[1])
        return d

    def resolve_fail(self):
        att = self.attempt
        att["status"] = "failed"
        exc = _AttemptFailed(len(self.attempts))
        att["exc"] = exc
        att["d"].errback(exc)

    def resolve_ok(self, prep):
        att = self.attempt
        att["status"] = "connected"
        cid = len(self.transports)
        proxy = att["factory"].buildProtocol(None)
        t = _Transport(self, cid)
        self.transports.append(t)
        app = getattr(proxy, "_protocol", None)
        if app is not None:
            app.cid = cid
        self.protocols.append(app)
        self.proxies.append(proxy)
        self.next_prep = prep
        proxy.makeConnection(t)
        att["d"].callback(proxy)

    def _hook(self, proto):
        self.hook_calls += 1
        kind = self.next_prep
        if kind == "ok":
            return None
        if kind == "raise":
            raise _PrepFailed()
        if kind == "faild":
            return self.defer.fail(_PrepFailed())
        cid = len(self.transports) - 1

        def cancelled(d):
            self.cancelled_preps += 1
            if self.prep is not None and self.prep[0] is d:
                self.prep = None

        d = self.defer.Deferred(cancelled)
        self.prep = (d, cid)
        return d

    def lose(self, cid, app_raises=False):
        from twisted.python.failure import Failure
        from twisted.internet.error import ConnectionDone
        t = self.transports[cid]
        t.lost = True
        if app_raises and self.protocols[cid] is not None:
            self.protocols[cid].raise_on_lost = True
        try:
            self.proxies[cid].connectionLost(Failure(ConnectionDone()))
        except _AppLostError:
            pass        # the application's own error may come out; the service must have been told anyway

    # -- service calls ---------------------------------------------------------
    def when(self, n, action=None):
        rec = dict(status=None, action=action, n=n)
        self.waiters.append(rec)
        d = self.service.whenConnected(failAfterFailures=n)
        rec["d"] = d

        def fired(result):
            rec["status"] = self.classify(result)
            if rec["action"] is not None:
                self.reenter(rec["action"])
            return None
        d.addBoth(fired)
        return rec

    def stop(self, action=None):
        rec = dict(fired=False, action=action)
        self.stops.append(rec)
        d = self.service.stopService()
        rec["d"] = d

        def fired(result):
            from twisted.python.failure import Failure
            rec["fired"] = True
            if isinstance(result, Failure) or result is not None:
                rec["bad"] = repr(result)
            if rec["action"] is not None:
                self.reenter(rec["action"])
            return None
        d.addBoth(fired)
        return rec

    def reenter(self, action):
        """A service call made from inside a user callback."""
        self.reentrant_done += 1
        self.step_actions.append(action)
        try:
            if action == "stop":
                self.stop()
            elif action == "start":
                self.service.startService()
            elif action == "when":
                self.when(None)
        except RuntimeError as e:
            if "reentrantly" not in str(e):
                raise
            self.reentrant_errors.append((action, str(e)))

    def classify(self, result):
        from twisted.python.failure import Failure
        from twisted.internet.defer import CancelledError
        if isinstance(result, Failure):
            if result.check(CancelledError):
                return ("cancelled",)
            if isinstance(result.value, _AttemptFailed):
                return ("failure", result.value.args[0])
            if isinstance(result.value, _PrepFailed):
                return ("failure", "prep")
            return ("other", repr(result.value)[:80])
        if isinstance(result, self.AppProtocol):
            return ("proto", result.cid)
        return ("other", repr(result)[:80])

    def timer(self):
        calls = self.clock.getDelayedCalls()
        return sorted(c.getTime() for c in calls)

    def machine_state(self):
        try:
            return self.service._machine.__automat_transitioner__._state.name
        except AttributeError:
            return "?"

    def fingerprint(self):
        core = getattr(self.service._machine, "__automat_core__", None)
        now = self.clock.seconds()
        return (
            self.machine_state(), self.service.running,
            getattr(core, "failedAttempts", None),
            tuple(sorted(-1 if r is None else r for _, r in getattr(core, "awaitingConnected", ()))),
            len(getattr(core, "stopWaiters", ())),
            self.attempt is not None and self.attempt["status"] == "pending",
            self.prep is not None,
            tuple((t.closing,) for t in self.transports if not t.lost),
            tuple(round(x - now, 6) for x in self.timer()),
            self.armed,
            tuple(sorted(str(x["action"]) for x in self.waiters if x["status"] is None)),
            tuple(sorted(str(x["action"]) for x in self.stops if not x["fired"])),
            sum(1 for w in self.waiters if w["status"] is None),
        )

    def finish(self):
        """Swallow whatever is left so nothing is reported at garbage collection."""
        for att in self.attempts:
            if not att["tailed"]:
                att["tailed"] = True
                att["d"].addErrback(lambda f: None)
        for c in self.clock.getDelayedCalls():
            c.cancel()


# --------------------------------------------------------------------------
# reference model (from the documentation)


class Model:
    def __init__(self, hook):
        self.hook = hook
        self.mode = "init"       # init stopped attempt prepare up wait closing
        self.running = False
        self.restart = False
        self.failures = 0
        self.waiters = []        # [wid, remaining]
        self.wstat = []          # wid -> status tuple or None
        self.stops_pending = []
        self.sstat = []          # sid -> fired
        self.timer = None
        self.conn = None
        self.nconn = 0
        self.nattempt = 0
        self.armed = None
        self.rejected = set()
        self.now = 0.0
        self.begin_step()

    def begin_step(self):
        self.e_connects = 0
        self.e_policy = []
        self.e_close = []
        self.e_cancel_attempt = 0
        self.e_cancel_prep = 0
        self.e_hook = 0

    # -- helpers -----------------------------------------------------------
    def _fire_all(self, status):
        for wid, _ in self.waiters:
            if self.wstat[wid] is None:
                self.wstat[wid] = status
        self.waiters = []

    def _fire_stops(self):
        for sid in self.stops_pending:
            self.sstat[sid] = True
        self.stops_pending = []

    def _begin_attempt(self):
        self.mode = "attempt"
        self.e_connects += 1
        self.nattempt += 1
        if self.armed is not None:
            armed, self.armed = self.armed, None
            if armed[0] == "fail":
                self.attempt_failed()
            else:
                self.attempt_connected(armed[1])

    def _failure(self, status):
        self.failures += 1
        self.e_policy.append(self.failures)
        self.timer = self.now + policy(self.failures)
        keep = []
        for wid, rem in self.waiters:
            if rem is None:
                keep.append([wid, rem])
            elif rem <= 1:
                if self.wstat[wid] is None:
                    self.wstat[wid] = status
            else:
                keep.append([wid, rem - 1])
        self.waiters = keep
        self.mode = "wait"

    def _made(self):
        self.failures = 0
        self._fire_all(("proto", self.conn))
        self.mode = "up"

    def _rejected(self):
        cid, self.conn = self.conn, None
        self.rejected.add(cid)
        self.e_close.append(cid)
        self._failure(("failure", "prep"))

    # -- operations ----------------------------------------------------------
    def start(self):
        if self.running:
            return
        self.running = True
        if self.mode in ("init", "stopped"):
            self._begin_attempt()
        elif self.mode == "closing":
            self.restart = True
        else:
            raise HarnessError("model: start while not running in mode " + self.mode)

    def stop(self):
        self.running = False
        sid = len(self.sstat)
        self.sstat.append(False)
        m = self.mode
        if m in ("init", "stopped"):
            self._fire_all(("cancelled",))
            self.sstat[sid] = True
            self.mode = "stopped"
        elif m == "attempt":
            self.e_cancel_attempt += 1
            self._fire_all(("cancelled",))
            self.sstat[sid] = True
            self.mode = "stopped"
        elif m == "wait":
            self.timer = None
            self._fire_all(("cancelled",))
            self.sstat[sid] = True
            self.mode = "stopped"
        elif m == "up":
            self.e_close.append(self.conn)
            self.stops_pending.append(sid)
            self.mode = "closing"
        elif m == "closing":
            self.restart = False
            self.stops_pending.append(sid)
        elif m == "prepare":
            self.e_cancel_prep += 1
            self.e_close.append(self.conn)
            self.stops_pending.append(sid)
            self.mode = "closing"
        return sid

    def when(self, n):
        wid = len(self.wstat)
        if self.mode == "up":
            self.wstat.append(("proto", self.conn))
        elif self.mode == "stopped":
            self.wstat.append(("cancelled",))
        else:
            self.wstat.append(None)
            self.waiters.append([wid, n])
        return wid

    def wcancel(self, wid):
        self.wstat[wid] = ("cancelled",)

    def attempt_failed(self):
        self._failure(("failure", self.nattempt))

    def attempt_connected(self, prep):
        self.conn = self.nconn
        self.nconn += 1
        if not self.hook:
            self._made()
            return
        self.e_hook += 1
        if prep == "ok":
            self._made()
        elif prep in ("raise", "faild"):
            self._rejected()
        else:
            self.mode = "prepare"

    def prep_result(self, ok):
        if ok:
            self._made()
        else:
            self._rejected()

    def lose(self, cid):
        if cid != self.conn:
            return                      # a rejected connection: a non-event
        if self.mode == "up":
            self.conn = None
            self._failure(None)
        elif self.mode == "closing":
            self.conn = None
            if self.restart:
                self.restart = False
                self._fire_stops()
                self._begin_attempt()
            else:
                self._fire_all(("cancelled",))
                self._fire_stops()
                self.mode = "stopped"
        elif self.mode == "prepare":
            # a connection that dies before it was accepted is a failed attempt
            self.e_cancel_prep += 1
            self.conn = None
            self.rejected.add(cid)
            self._failure(("failure", "lost"))

    def advance(self, now):
        self.now = now
        if self.timer is not None and self.timer <= now:
            self.timer = None
            self._begin_attempt()


# --------------------------------------------------------------------------


def _applicable(w, op):
    k = op[0]
    if k in ("start", "stop", "when"):
        return True
    if k in ("ok", "fail"):
        return w.attempt is not None and w.attempt["status"] == "pending"
    if k == "arm":
        return w.armed is None and not (w.attempt is not None and w.attempt["status"] == "pending")
    if k == "lose":
        return op[1] < len(w.not_lost())
    if k == "prep":
        return w.prep is not None
    if k == "adv":
        return bool(w.timer()) if op[1] == "next" else True
    if k == "wcancel":
        return op[1] < len(w.waiters) and w.waiters[op[1]]["status"] is None
    raise HarnessError(f"unknown op {op!r}")


def _canon(op):
    return tuple("None" if x is None else x for x in op)


def run_case(ctx, case):
    import automat

    hook = bool(case["hook"])
    w = World(hook)
    m = Model(hook)
    eff = []
    kinds = set()
    orphans = set()
    truncated = None
    wact, sact = [], []         # action attached to each whenConnected / stopService Deferred
    ctx._c58_fp = None

    def viol(base, detail, op, target=None, prev_mode=None):
        sig = base
        live = set(w.live_open())
        if base == "reentrant-call-rejected":
            pass        # its own root cause, whatever state the service was in
        elif target is not None and target in orphans:
            sig = "rejected-connection-left-open"
        elif base in ("two-live", "stop-fired-with-open-connection") and (orphans & live):
            sig = "rejected-connection-left-open"
        elif op[0] == "lose" and prev_mode == "prepare" and target == prev_conn:
            sig = "connection-lost-during-prepare"
        elif op[0] == "stop" and prev_mode == "prepare":
            sig = "stop-during-prepare"
        w.finish()
        ctx.violation(sig, case, f"op #{len(eff)} {op!r} after {eff!r}: [{base}] {detail}")

    with harness.captured_log() as events:
        for op in case["ops"]:
            op = list(op)
            if not _applicable(w, op):
                ctx.count("op skipped (not applicable)")
                continue
            k = op[0]
            eff.append(_canon(op))
            kinds.add(k)
            if k in ("ok", "fail"):
                kinds.add("outcome")
            armed_before = m.armed
            ctx.count("op " + k)
            prev_mode, prev_conn = m.mode, m.conn
            target = None
            # baselines for the per-step observations
            c0, p0, q0 = w.connect_calls, len(w.policy_calls), len(w.close_requests)
            a0, pc0, h0 = w.cancelled_attempts, w.cancelled_preps, w.hook_calls
            nlog = len(events)
            ntr0 = len(w.transports)
            m.begin_step()
            reentrant = False
            w.step_actions = []
            wfired0 = [x is not None for x in m.wstat]
            sfired0 = list(m.sstat)
            try:
                if k == "start":
                    m.start()
                    w.service.startService()
                elif k == "stop":
                    m.stop()
                    sact.append(op[1] if len(op) > 1 else None)
                    w.stop(sact[-1])
                elif k == "when":
                    m.when(op[1])
                    wact.append(op[2] if len(op) > 2 else None)
                    w.when(op[1], wact[-1])
                elif k == "wcancel":
                    m.wcancel(op[1])
                    w.waiters[op[1]]["d"].cancel()
                elif k == "arm":
                    arm = ("fail",) if op[1] == "fail" else ("ok", op[2] if hook else "ok")
                    w.armed = arm
                    m.armed = arm
                elif k == "fail":
                    m.attempt_failed()
                    w.resolve_fail()
                elif k == "ok":
                    prep = op[1] if hook else "ok"
                    m.attempt_connected(prep)
                    w.resolve_ok(prep)
                elif k == "prep":
                    d, cid = w.prep
                    w.prep = None
                    m.prep_result(op[1] == "ok")
                    if op[1] == "ok":
                        d.callback(None)
                    else:
                        d.errback(_PrepFailed())
                elif k == "lose":
                    target = w.not_lost()[op[1]]
                    m.lose(target)
                    w.lose(target, app_raises=len(op) > 2 and op[2] == "raise")
                    if len(op) > 2:
                        ctx.count("op lose with a raising application connectionLost")
                elif k == "adv":
                    now = w.clock.seconds()
                    dt = (w.timer()[0] - now) if op[1] == "next" else float(op[1])
                    m.advance(now + dt)
                    w.clock.advance(dt)
            except automat.NoTransition as e:
                sym = getattr(e, "symbol", "?")
                stn = getattr(getattr(e, "state", None), "name", "?")
                viol(f"no-transition:{sym}@{stn}", f"automat rejected the event: {e}", op, target, prev_mode)
            if armed_before is not None and m.armed is None:
                kinds.add("outcome")
            # a rejected connection the service did not close is an orphan
            for cid in m.rejected:
                t = w.transports[cid]
                if not t.closing and not t.lost:
                    orphans.add(cid)
            if w.reentrant_errors:
                act, msg = w.reentrant_errors[0]
                viol("reentrant-call-rejected", f"a service call ({act}) made from a whenConnected/stopService callback was refused: {msg}", op, target, prev_mode)
            # A startService made from a callback is a valid event: the machine
            # postpones it until the transition that fired the callback is over, so it
            # acts like a startService right after this step (model: same).  Other
            # calls made from callbacks end the lockstep comparison (see below).
            if w.step_actions and all(a == "start" for a in w.step_actions):
                ctx.count("startService made from a callback")
            elif w.step_actions:
                reentrant = True
            for _round in range(8):
                fired_start = [i for i, x in enumerate(m.wstat)
                               if x is not None and not (i < len(wfired0) and wfired0[i]) and wact[i] == "start"]
                fired_start += [-1 - i for i, x in enumerate(m.sstat)
                                if x and not (i < len(sfired0) and sfired0[i]) and sact[i] == "start"]
                wfired0 = [x is not None for x in m.wstat]
                sfired0 = list(m.sstat)
                if not fired_start:
                    break
                if not m.running:
                    kinds.add("start-from-callback")
                m.start()
            # ---- errors that were logged instead of raised
            for ev in events[nlog:]:
                f = ev.get("log_failure")
                if f is not None:
                    name = getattr(f.type, "__name__", "?")
                    base = "logged-error:" + name
                    if f.check(automat.NoTransition):
                        base = f"no-transition:{f.value.symbol}@{getattr(f.value.state, 'name', '?')}"
                    viol(base, f"error logged: {f.getTraceback()[-1500:]}", op, target, prev_mode)
            for att in w.attempts:
                if not att["tailed"] and att["status"] != "pending":
                    att["tailed"] = True
                    seen = []
                    att["d"].addErrback(seen.append)
                    if seen:
                        f = seen[0]
                        base = "attempt-chain-error:" + getattr(f.type, "__name__", "?")
                        if f.check(automat.NoTransition):
                            base = f"no-transition:{f.value.symbol}@{getattr(f.value.state, 'name', '?')}"
                        viol(base, f"the connection attempt's callback chain ended in {f!r}", op, target, prev_mode)
            # ---- invariants of the statement
            if w.two_live is not None:
                viol("two-live", f"endpoint.connect called while {w.two_live!r} still open / in progress", op, target, prev_mode)
            live = w.live_open()
            pend = 1 if (w.attempt is not None and w.attempt["status"] == "pending") else 0
            if len(live) + pend > 1:
                viol("two-live", f"open connections {live!r} + {pend} attempt in progress", op, target, prev_mode)
            if reentrant:
                truncated = "reentrant call accepted"
                break
            # stop / loss while a prepareConnection Deferred is pending: the
            # documentation does not say what happens next; only the
            # invariants are judged and the history ends here
            ambiguous = prev_mode == "prepare" and (k == "stop" or (k == "lose" and target == prev_conn))
            for sid, s in enumerate(w.stops):
                if s.get("bad"):
                    viol("stop-result-not-none", s["bad"], op, target, prev_mode)
                if s["fired"] and not s.get("checked"):
                    s["checked"] = True
                    live_old = [c for c in live if c < ntr0 or (not m.running and not ambiguous)]
                    if live_old:
                        viol("stop-fired-with-open-connection",
                             f"stopService Deferred #{sid} fired while connection(s) {live_old!r} are open and were not asked to close", op, target, prev_mode)
                    closing = [c for c in w.not_lost() if c not in live and c not in m.rejected]
                    if closing and not ambiguous:
                        viol("stop-fired-before-connection-closed",
                             f"stopService Deferred #{sid} fired before connectionLost of {closing!r}", op, target, prev_mode)
                    if pend and not m.running and not ambiguous:
                        viol("stop-fired-with-attempt-in-progress", f"stopService Deferred #{sid}", op, target, prev_mode)
            if ambiguous:
                if k == "stop" and not w.transports[prev_conn].closing and not w.transports[prev_conn].lost:
                    viol("connection-left-open", "stopService while prepareConnection is pending did not close the connection", op, target, prev_mode)
                truncated = "undocumented: " + k + " while prepareConnection pending"
                break
            # ---- lockstep comparison
            if w.connect_calls - c0 != m.e_connects:
                viol("connect-calls-%s" % ("missing" if w.connect_calls - c0 < m.e_connects else "unexpected"),
                     f"endpoint.connect called {w.connect_calls - c0}x, model {m.e_connects}x", op, target, prev_mode)
            if w.policy_calls[p0:] != m.e_policy:
                viol("retry-policy-argument", f"policy called with {w.policy_calls[p0:]!r}, model {m.e_policy!r}", op, target, prev_mode)
            rt = w.timer()
            mt = [] if m.timer is None else [m.timer]
            if rt != mt:
                base = ("retry-timer-missing" if not rt else "retry-timer-unexpected" if not mt
                        else "retry-delay-wrong" if len(rt) == 1 else "retry-timer-duplicated")
                viol(base, f"delayed calls at {rt!r}, model {mt!r} (now {w.clock.seconds()})", op, target, prev_mode)
            for wid, rec in enumerate(w.waiters):
                ms = m.wstat[wid]
                if rec["status"] != ms:
                    rk = "pending" if rec["status"] is None else rec["status"][0]
                    mk = "pending" if ms is None else ms[0]
                    base = f"waiter-{mk}-but-{rk}" if rk != mk else f"waiter-wrong-{mk}"
                    if mk == "cancelled" and rk == "pending" and prev_mode == "init" and k == "stop":
                        base = "waiter-survives-stop-of-unstarted-service"
                    viol(base, f"whenConnected #{wid} (limit {rec['n']}): real {rec['status']!r}, model {ms!r}", op, target, prev_mode)
            for sid, s in enumerate(w.stops):
                if s["fired"] != m.sstat[sid]:
                    viol("stop-%s" % ("fired-early" if s["fired"] else "not-fired"),
                         f"stopService Deferred #{sid}: real fired={s['fired']}, model {m.sstat[sid]}", op, target, prev_mode)
            got_close = w.close_requests[q0:]
            if sorted(got_close) != sorted(m.e_close):
                missing = [c for c in m.e_close if c not in got_close]
                if missing and all(c in m.rejected for c in missing) and not [c for c in got_close if c not in m.e_close]:
                    pass        # rejected connection left open: judged by the invariants (orphan)
                else:
                    viol("close-%s" % ("missing" if missing else "unexpected"),
                         f"transports asked to close {got_close!r}, model {m.e_close!r}", op, target, prev_mode)
            if w.cancelled_attempts - a0 != m.e_cancel_attempt:
                viol("attempt-cancel", f"attempt cancelled {w.cancelled_attempts - a0}x, model {m.e_cancel_attempt}x", op, target, prev_mode)
            if w.hook_calls - h0 != m.e_hook:
                viol("prepare-hook-calls", f"prepareConnection called {w.hook_calls - h0}x, model {m.e_hook}x", op, target, prev_mode)
            if w.service.running != m.running:
                viol("running-flag", f"service.running={w.service.running}", op, target, prev_mode)
            if k == "adv" and m.mode == "attempt":
                kinds.add("retry")
            if k == "when" and m.wstat[-1] is None:
                kinds.add("when-pending")

    w.finish()
    if truncated:
        ctx.count("truncated: " + truncated)
    else:
        ctx._c58_fp = (hook, w.fingerprint())
    # bookkeeping
    ctx.count("final mode " + m.mode)
    if orphans:
        ctx.count("history with a rejected connection left open")
    nt = (len(eff) >= 4 and "start" in kinds and "outcome" in kinds
          and bool(kinds & {"stop", "lose", "when-pending", "retry"}))
    if nt:
        ctx.nontrivial(("h", hook, tuple(eff)))
        ctx.count("nontrivial")
        for tag in ("retry", "when-pending", "lose", "prep", "wcancel", "arm", "start-from-callback"):
            if tag in kinds:
                ctx.count("nontrivial with " + tag)
        if len(eff) >= 6 and len(kinds) >= 5:
            ctx.sample(case)
    ctx.count("effective ops", len(eff))


# --------------------------------------------------------------------------
# generation

def _alphabet(hook, wide=False):
    ops = [["start"], ["stop"], ["when", None], ["when", 1], ["when", 2],
           ["fail"], ["lose", 0], ["lose", 0, "raise"], ["adv", "next"], ["adv", 0.5], ["arm", "fail"],
           ["when", None, "start"], ["when", 1, "start"], ["stop", "start"]]
    if hook:
        ops += [["ok", "ok"], ["ok", "raise"], ["ok", "defer"], ["prep", "ok"], ["prep", "fail"],
                ["lose", 1], ["arm", "ok", "ok"], ["arm", "ok", "raise"]]
    else:
        ops += [["ok", "ok"], ["arm", "ok", "ok"]]
    if wide:
        ops += [["when", 3], ["wcancel", 0], ["wcancel", 1], ["adv", 1.0]]
        if hook:
            ops += [["ok", "faild"], ["arm", "ok", "defer"]]
    return ops


def _bfs_cases(ctx, hook, depth, wide=False):
    """Breadth-first histories; a history is extended only if the real service
    ended in a fingerprint not seen before (and the case ran to its end)."""
    alpha = _alphabet(hook, wide)
    cap = 3 if wide else 2
    seen = set()
    frontier = [[]]
    for d in range(depth):
        nxt = []
        for h in frontier:
            for op in alpha:
                ops = h + [op]
                ctx._c58_fp = None
                yield dict(hook=hook, ops=ops)
                fp = ctx._c58_fp
                if fp is None or fp in seen or fp[1][-1] > cap:
                    continue
                seen.add(fp)
                nxt.append(ops)
        frontier = nxt
        ctx.count(f"bfs hook={hook} depth {d + 1}: new states", len(nxt))
        if not frontier:
            break


def _bfs(ctx, arg):
    hook, depth, wide = arg
    enumerate_run(ctx, _bfs_cases(ctx, hook, depth, wide), run_case)


def _ops_strategy(hook):
    ops = [
        st.just(["start"]), st.just(["start"]),
        st.just(["stop"]),
        st.builds(lambda n: ["when", n], st.sampled_from([None, None, 1, 1, 2, 3])),
        st.builds(lambda n: ["when", n, "start"], st.sampled_from([None, 1, 2])),
        st.just(["stop", "start"]),
        st.just(["fail"]), st.just(["fail"]),
        st.builds(lambda k: ["lose", k], st.sampled_from([0, 0, 0, 1])),
        st.builds(lambda k: ["lose", k, "raise"], st.sampled_from([0, 0, 1])),
        st.builds(lambda x: ["adv", x], st.sampled_from(["next", "next", "next", 0.5, 1.0, 3.0, 0.0])),
        st.builds(lambda i: ["wcancel", i], st.integers(0, 4)),
        st.just(["arm", "fail"]),
    ]
    if hook:
        ops += [st.builds(lambda p: ["ok", p], st.sampled_from(PREPS + ("ok", "defer"))),
                st.builds(lambda p: ["ok", p], st.sampled_from(PREPS + ("ok", "defer"))),
                st.builds(lambda r: ["prep", r], st.sampled_from(["ok", "ok", "fail"])),
                st.builds(lambda p: ["arm", "ok", p], st.sampled_from(PREPS))]
    else:
        ops += [st.just(["ok", "ok"]), st.just(["ok", "ok"]), st.just(["arm", "ok", "ok"])]
    return st.one_of(*ops)


def _reentrant_ops():
    act = st.sampled_from(["stop", "start", "when"])
    return st.one_of(
        st.builds(lambda n, a: ["when", n, a], st.sampled_from([None, 1, 2]), act),
        st.builds(lambda a: ["stop", a], act),
    )


def _history(hook, reentrant):
    if hook is None:
        return st.booleans().flatmap(lambda h: _history(h, reentrant))
    op = _ops_strategy(hook)
    if reentrant:
        op = st.one_of(op, op, op, _reentrant_ops())
    return st.builds(lambda ops: dict(hook=hook, ops=ops), st.lists(op, min_size=3, max_size=40))


def _shard(ctx, i):
    hyp_run(ctx, _history(None, i % 4 == 3), run_case, 6000, label=f"shard{i}")


def run(ctx):
    depth = ctx.pick(8, 11)
    if ctx.thorough:
        ctx.shards(_bfs, [(False, depth - 1, True), (True, depth - 2, True), (False, depth + 3, False), (True, depth + 2, False)])
    else:
        _bfs(ctx, (False, depth + 1, False))
        if not ctx.has_violation():
            _bfs(ctx, (True, depth, False))
    ctx.extra["bfs_depth"] = {"no hook": depth + 1, "prepareConnection hook": depth}
    if ctx.thorough:
        ctx.extra["bfs_depth"] = {"no hook": depth + 3, "prepareConnection hook": depth + 2,
                                  "wide alphabet, no hook": depth - 1, "wide alphabet, hook": depth - 2}
    ctx.extra["bfs_scope"] = ("breadth-first over the op alphabet, extending one history per distinct fingerprint of the real "
                              "service (machine state, running, failure count, pending waiters (at most %d), stop waiters, attempt, "
                              "prepare, transports, timer remainder, armed outcome)" % (3 if ctx.thorough else 2))
    ctx.exhaustive = False
    if ctx.has_violation():
        return
    if ctx.thorough:
        ctx.shards(_shard, list(range(16)))
    else:
        hyp_run(ctx, _history(False, False), run_case, 500, label="plain")
        hyp_run(ctx, _history(True, False), run_case, 700, label="hook")
        hyp_run(ctx, _history(None, True), run_case, 300, label="reentrant")
