"""Shared runner machinery for the /verif checks.

A check module (checks/cNN_*.py) defines

    META = dict(property="C34", level="exploration", technique="...",
                level_text="...", level_note="...", design_ref="§5 C34",
                rule="how cases are generated and what is non-trivial")
    def run(ctx): ...                 # explore; uses ctx.* below
    def run_case(ctx, case): ...      # re-execute ONE plain-JSON case (replay)

Every divergence is reported through ctx.violation(signature, case, detail):
  * signature listed as status=known in known_findings.jsonl -> counted,
    KnownFindingSkip raised (the case ends, the search goes on);
  * otherwise PropertyViolation raised (Hypothesis shrinks; the smallest
    failing case seen is written as the replay file).
"""
from __future__ import annotations

import hashlib
import json
import math
import os
import sys
import time
import traceback

VERIF = os.path.dirname(os.path.dirname(os.path.abspath(__file__)))
REPO = os.environ.get("VERIF_REPO", "/repo")
REPO_SRC = os.path.join(REPO, "src")


class PropertyViolation(Exception):
    def __init__(self, signature, detail=""):
        super().__init__(f"{signature}: {detail}")
        self.signature = signature
        self.detail = detail


class KnownFindingSkip(Exception):
    pass


class HarnessError(Exception):
    pass


# --------------------------------------------------------------------------
# JSON that survives bytes / tuples / odd floats, so that every case is a
# plain file that replays without the generator library.

def to_jsonable(o):
    if isinstance(o, (bytes, bytearray)):
        return {"$b": bytes(o).hex()}
    if isinstance(o, tuple):
        return {"$t": [to_jsonable(x) for x in o]}
    if isinstance(o, list):
        return [to_jsonable(x) for x in o]
    if isinstance(o, dict):
        if all(isinstance(k, str) for k in o):
            return {k: to_jsonable(v) for k, v in o.items()}
        return {"$d": [[to_jsonable(k), to_jsonable(v)] for k, v in o.items()]}
    if isinstance(o, float):
        if math.isnan(o) or math.isinf(o):
            return {"$f": repr(o)}
        return o
    if isinstance(o, (set, frozenset)):
        return {"$s": sorted((to_jsonable(x) for x in o), key=repr)}
    if o is None or isinstance(o, (str, int, bool)):
        return o
    return {"$r": repr(o)}


def from_jsonable(o):
    if isinstance(o, list):
        return [from_jsonable(x) for x in o]
    if isinstance(o, dict):
        if len(o) == 1:
            (k, v), = o.items()
            if k == "$b":
                return bytes.fromhex(v)
            if k == "$t":
                return tuple(from_jsonable(x) for x in v)
            if k == "$d":
                return {from_jsonable(a): from_jsonable(b) for a, b in v}
            if k == "$f":
                return float(v)
            if k == "$s":
                return set(from_jsonable(x) for x in v)
            if k == "$r":
                return v
        return {k: from_jsonable(v) for k, v in o.items()}
    return o


def dumps(o, **kw):
    return json.dumps(to_jsonable(o), sort_keys=True, **kw)


def loads(s):
    return from_jsonable(json.loads(s))


def _h(o):
    if not isinstance(o, (bytes, str)):
        o = dumps(o)
    if isinstance(o, str):
        o = o.encode("utf-8", "surrogatepass")
    return hashlib.blake2b(o, digest_size=8).digest()


# --------------------------------------------------------------------------

def load_known(prop):
    paths = [os.path.join(VERIF, "known_findings.jsonl")]
    dd = os.path.join(VERIF, "known_findings.d")
    if os.path.isdir(dd):
        paths += [os.path.join(dd, n) for n in sorted(os.listdir(dd)) if n.endswith(".jsonl")]
    out = []
    for path in paths:
        if not os.path.exists(path):
            continue
        for line in open(path):
            line = line.strip()
            if not line or line.startswith("#"):
                continue
            e = json.loads(line)
            if e.get("property") == prop:
                out.append(e)
    return out


NT_CAP = 2_000_000


class Ctx:
    def __init__(self, prop, tier, seed, meta=None, worker=False):
        self.prop = prop
        self.tier = tier
        self.seed = seed
        self.meta = meta or {}
        self.worker = worker
        self.evaluations = 0
        self.classes = {}
        self._nt = set()
        self.nt_capped = False
        self.samples = []
        self.max_samples = 5
        self.excluded_known = {}
        self.violations = []          # [(sig, case, detail)] smallest per sig
        self._best = {}
        self.notes = []
        self.extra = {}
        self.exhaustive = None
        self.t0 = time.time()
        self.known = [e for e in load_known(prop) if e.get("status") == "known"]
        self.known_sigs = {e["signature"] for e in self.known}
        self.shrink_budget_s = 25.0 if tier == "quick" else 120.0
        self._first_fail_t = None
        self.replaying = False

    # -- counters ---------------------------------------------------------
    @property
    def thorough(self):
        return self.tier == "thorough"

    def pick(self, quick, thorough):
        return thorough if self.tier == "thorough" else quick

    def case(self, n=1):
        self.evaluations += n

    def count(self, label, n=1):
        self.classes[label] = self.classes.get(label, 0) + n

    def nontrivial(self, key):
        if len(self._nt) < NT_CAP:
            self._nt.add(_h(key))
        else:
            self.nt_capped = True

    def sample(self, obj, force=False):
        if len(self.samples) < self.max_samples or force:
            self.samples.append(to_jsonable(obj))

    def note(self, s):
        if s not in self.notes:
            self.notes.append(s)

    # -- violations -------------------------------------------------------
    def violation(self, signature, case, detail=""):
        signature = str(signature)
        if signature in self.known_sigs and not self.replaying:
            self.excluded_known[signature] = self.excluded_known.get(signature, 0) + 1
            raise KnownFindingSkip(signature)
        size = len(dumps(case))
        b = self._best.get(signature)
        if b is None or size < b[0]:
            self._best[signature] = (size, case, str(detail)[:4000])
        if self._first_fail_t is None:
            self._first_fail_t = time.time()
        raise PropertyViolation(signature, str(detail)[:2000])

    def check(self, cond, signature, case, detail=""):
        if not cond:
            self.violation(signature, case, detail() if callable(detail) else detail)

    def shrink_exhausted(self):
        return (self._first_fail_t is not None
                and time.time() - self._first_fail_t > self.shrink_budget_s)

    def has_violation(self):
        return bool(self._best)

    # -- worker merge ------------------------------------------------------
    def export(self):
        return dict(evaluations=self.evaluations, classes=self.classes,
                    nt=list(self._nt), nt_capped=self.nt_capped,
                    samples=self.samples, excluded_known=self.excluded_known,
                    best=self._best, notes=self.notes, extra=self.extra)

    def merge(self, d):
        self.evaluations += d["evaluations"]
        for k, v in d["classes"].items():
            self.classes[k] = self.classes.get(k, 0) + v
        for h in d["nt"]:
            if len(self._nt) < NT_CAP:
                self._nt.add(h)
            else:
                self.nt_capped = True
                break
        self.nt_capped = self.nt_capped or d["nt_capped"]
        for s in d["samples"]:
            if len(self.samples) < self.max_samples:
                self.samples.append(s)
        for k, v in d["excluded_known"].items():
            self.excluded_known[k] = self.excluded_known.get(k, 0) + v
        for sig, (size, case, detail) in d["best"].items():
            b = self._best.get(sig)
            if b is None or size < b[0]:
                self._best[sig] = (size, case, detail)
        for n in d["notes"]:
            self.note(n)
        for k, v in d.get("extra", {}).items():
            if isinstance(v, (int, float)) and isinstance(self.extra.get(k, 0), (int, float)):
                self.extra[k] = self.extra.get(k, 0) + v
            else:
                self.extra[k] = v

    # -- parallel map ------------------------------------------------------
    def shards(self, fn, shard_args, procs=None):
        """Run fn(subctx, arg) for each arg in worker processes (fork) and merge.

        fn must catch nothing: PropertyViolation / KnownFindingSkip are
        handled here; the first unknown violation in a shard ends that shard.
        """
        import multiprocessing as mp
        procs = procs or min(16, len(shard_args), os.cpu_count() or 1)
        if procs <= 1 or os.environ.get("VERIF_NOFORK"):
            for a in shard_args:
                d = _shard_entry((fn, self.prop, self.tier, self.seed, self.meta, a))
                self._merge_shard(d)
            return
        mpctx = mp.get_context("fork")
        with mpctx.Pool(procs) as pool:
            for d in pool.imap_unordered(
                    _shard_entry,
                    [(fn, self.prop, self.tier, self.seed, self.meta, a) for a in shard_args]):
                self._merge_shard(d)

    def _merge_shard(self, d):
        if d.get("error"):
            raise HarnessError("shard failed:\n" + d["error"])
        self.merge(d)


def _shard_entry(t):
    fn, prop, tier, seed, meta, arg = t
    sub = Ctx(prop, tier, seed, meta, worker=True)
    try:
        try:
            fn(sub, arg)
        except (PropertyViolation, KnownFindingSkip):
            pass
        return sub.export()
    except BaseException:
        d = sub.export()
        d["error"] = traceback.format_exc()
        return d


# --------------------------------------------------------------------------
# Hypothesis glue

def innermost_pkg_frame(exc):
    """(file, func) of the innermost traceback frame under /repo/src, or None."""
    tb = exc.__traceback__
    found = None
    last = None
    while tb is not None:
        fn = tb.tb_frame.f_code.co_filename
        last = (fn, tb.tb_frame.f_code.co_name)
        if fn.startswith(REPO_SRC) or "/src/twisted/" in fn:
            found = (os.path.relpath(fn, REPO_SRC) if fn.startswith(REPO_SRC) else fn,
                     tb.tb_frame.f_code.co_name)
        tb = tb.tb_next
    return found, last


def guarded(ctx, body, case):
    """Run body(ctx, case); classify stray exceptions.

    An exception whose innermost frame lies in twisted is a violation
    (signature exc:<Type>@<file>:<func>): the code under test blew up on a
    case the harness considers legal.  One raised from harness code is a
    harness error.
    """
    try:
        body(ctx, case)
    except (PropertyViolation, KnownFindingSkip, HarnessError):
        raise
    except (KeyboardInterrupt, SystemExit, MemoryError):
        raise
    except Exception as e:  # noqa
        found, last = innermost_pkg_frame(e)
        if found is not None and last is not None and (
                last[0].startswith(REPO_SRC) or "/src/twisted/" in last[0]):
            ctx.violation(f"exc:{type(e).__name__}@{found[0]}:{found[1]}", case,
                          "".join(traceback.format_exception(e))[-3000:])
        raise


def hyp_run(ctx, strategy, body, max_examples, label="main", stateful_steps=None):
    """Drive body(ctx, case) with Hypothesis; cases must be plain data."""
    import hypothesis
    from hypothesis import given, settings, HealthCheck, Phase, seed

    state = {"n": 0}

    def wrapped(case):
        if ctx.shrink_exhausted():
            # shrink budget used up: let Hypothesis wind down quickly; the
            # smallest failing case seen so far is what gets reported.
            return
        state["n"] += 1
        ctx.case()
        try:
            guarded(ctx, body, case)
        except KnownFindingSkip:
            return

    s = settings(max_examples=max_examples, database=None, deadline=None,
                 derandomize=False, report_multiple_bugs=False,
                 suppress_health_check=list(HealthCheck),
                 phases=(Phase.generate, Phase.shrink),
                 print_blob=False)
    sd = (int(ctx.seed) * 1_000_003 + int.from_bytes(_h(label), "big")) % (2 ** 63)
    test = seed(sd)(s(given(strategy)(wrapped)))
    try:
        test()
    except PropertyViolation:
        pass
    except hypothesis.errors.Flaky:
        if not ctx.has_violation():
            raise
    except BaseException:
        if not ctx.has_violation():
            raise
    ctx.count(f"hypothesis[{label}] examples", state["n"])
    return not ctx.has_violation()


def enumerate_run(ctx, cases, body, stop_after_violation=True):
    """Drive body over an explicit iterable of plain-data cases."""
    for case in cases:
        ctx.case()
        try:
            guarded(ctx, body, case)
        except KnownFindingSkip:
            continue
        except PropertyViolation:
            if stop_after_violation:
                return False
    return not ctx.has_violation()


# --------------------------------------------------------------------------

def write_evidence(ctx, wall, status):
    meta = ctx.meta
    cov = {
        "evaluations": ctx.evaluations,
        "distinct_nontrivial": len(ctx._nt),
        "rule": meta.get("rule", ""),
        "samples": ctx.samples[: ctx.max_samples + 3],
        "classes": dict(sorted(ctx.classes.items())),
        "excluded_known": ctx.excluded_known,
    }
    if ctx.exhaustive is not None:
        cov["exhaustive"] = bool(ctx.exhaustive)
    if ctx.nt_capped:
        cov["distinct_nontrivial_note"] = f"set capped at {NT_CAP} entries"
    cov.update(ctx.extra)
    ev = {
        "property_id": ctx.prop,
        "tier": ctx.tier,
        "seed": int(ctx.seed),
        "level": meta.get("level", "exploration"),
        "coverage": cov,
        "assumptions": list(meta.get("assumptions", [])) + ctx.notes,
        "wall_s": round(wall, 3),
        "violations": len(ctx._best),
        "status": status,
        "repo_head": _repo_head(),
    }
    os.makedirs(os.path.join(VERIF, "evidence"), exist_ok=True)
    path = os.path.join(VERIF, "evidence", f"{ctx.prop}.json")
    tmp = path + ".tmp"
    with open(tmp, "w") as f:
        json.dump(ev, f, indent=1, sort_keys=True)
        f.write("\n")
    os.replace(tmp, path)
    return path


def _repo_head():
    try:
        import subprocess
        return subprocess.run(["git", "-C", REPO, "rev-parse", "--short", "HEAD"],
                              capture_output=True, text=True, timeout=10).stdout.strip()
    except Exception:
        return ""


def write_replay(ctx, sig, case, detail):
    d = os.path.join(VERIF, "replays")
    os.makedirs(d, exist_ok=True)
    safe = "".join(c if c.isalnum() or c in "-_." else "_" for c in sig)[:60]
    name = f"{ctx.prop}-{safe}-{_h(dumps(case)).hex()}.json"
    path = os.path.join(d, name)
    with open(path, "w") as f:
        json.dump({"property": ctx.prop, "signature": sig, "seed": int(ctx.seed),
                   "tier": ctx.tier, "detail": detail,
                   "case": to_jsonable(case)}, f, indent=1, sort_keys=True)
        f.write("\n")
    return path


def corpus_cases(prop):
    """Committed regression cases: corpus/<ID>/*.json + canonical cases of
    known / fixed findings."""
    out = []
    d = os.path.join(VERIF, "corpus", prop)
    if os.path.isdir(d):
        for n in sorted(os.listdir(d)):
            if n.endswith(".json"):
                with open(os.path.join(d, n)) as f:
                    j = json.load(f)
                out.append((f"corpus/{prop}/{n}", j.get("signature"), from_jsonable(j["case"]), None))
    for e in load_known(prop):
        if "canonical" in e:
            out.append((f"known_findings:{e['id']}", e["signature"],
                        from_jsonable(e["canonical"]), e))
    return out


def run_replay_tier(ctx, mod):
    """Replay committed cases. Returns list of KNOWN-FINDING lines."""
    lines = []
    if not hasattr(mod, "run_case"):
        return lines
    n = 0
    for name, sig, case, entry in corpus_cases(ctx.prop):
        n += 1
        ctx.replaying = True
        try:
            try:
                guarded(ctx, mod.run_case, case)
            finally:
                ctx.replaying = False
        except PropertyViolation as v:
            if entry is not None and entry.get("status") == "known":
                if v.signature == entry["signature"]:
                    # listed finding, still present: not an alarm
                    ctx._best.pop(v.signature, None)
                    if not ctx._best:
                        ctx._first_fail_t = None
                    lines.append(f"KNOWN-FINDING: property={ctx.prop} {entry['what']}")
                    continue
            # fixed entry that fails again, corpus case that fails, or a
            # known case failing with a different signature: real alarm
            continue
        except KnownFindingSkip:
            continue
        if entry is not None and entry.get("status") == "known":
            ctx.note(f"known finding {entry['id']} no longer reproduces on this tree")
    ctx.count("replay-tier cases", n)
    return lines


def main(argv=None):
    import argparse
    import importlib
    ap = argparse.ArgumentParser()
    ap.add_argument("prop")
    ap.add_argument("--tier", default=os.environ.get("VERIF_TIER") or "quick")
    ap.add_argument("--replay")
    a = ap.parse_args(argv)
    if a.tier not in ("quick", "thorough"):
        a.tier = "quick"
    try:
        seed = int(os.environ.get("VERIF_SEED", "1") or "1")
    except ValueError:
        seed = int.from_bytes(_h(os.environ["VERIF_SEED"]), "big") % (2 ** 31)
    prop = a.prop.upper()
    sys.path.insert(0, VERIF)
    sys.path.insert(0, os.path.join(VERIF, "vendor"))
    deps = os.path.join(VERIF, ".deps")
    if os.path.isdir(deps):
        sys.path.append(deps)
    t0 = time.time()
    ctx = None
    try:
        names = [n[:-3] for n in os.listdir(os.path.join(VERIF, "checks"))
                 if n.lower().startswith(prop.lower() + "_") and n.endswith(".py")]
        if len(names) != 1:
            raise HarnessError(f"no unique check module for {prop}: {names}")
        mod = importlib.import_module("checks." + names[0])
        ctx = Ctx(prop, a.tier, seed, mod.META)
        _quiet_twisted_logging()
        if a.replay:
            with open(a.replay) as f:
                j = json.load(f)
            ctx.replaying = True
            ctx.case()
            try:
                guarded(ctx, mod.run_case, from_jsonable(j["case"]))
                print(f"replay {a.replay}: property held")
            except PropertyViolation as v:
                print(f"replay {a.replay}: {v}")
                print(f"VIOLATION property={prop} replay={a.replay}")
                return 1
            except KnownFindingSkip:
                pass
            return 0
        known_lines = run_replay_tier(ctx, mod)
        if not ctx.has_violation():
            try:
                mod.run(ctx)
            except (PropertyViolation, KnownFindingSkip):
                pass
        wall = time.time() - t0
        for line in known_lines:
            print(line)
        if ctx.has_violation():
            write_evidence(ctx, wall, "violation")
            for sig, (size, case, detail) in sorted(ctx._best.items()):
                path = write_replay(ctx, sig, case, detail)
                print(f"violation signature={sig}: {detail[:600]}")
                print(f"VIOLATION property={prop} replay={path}")
            return 1
        if ctx.evaluations < 1 or len(ctx._nt) < 2:
            write_evidence(ctx, wall, "inconclusive")
            print(f"harness: too few cases (evaluations={ctx.evaluations}, "
                  f"nontrivial={len(ctx._nt)})", file=sys.stderr)
            return 2
        write_evidence(ctx, wall, "held")
        print(f"OK property={prop} tier={a.tier} seed={seed} evaluations={ctx.evaluations} "
              f"distinct_nontrivial={len(ctx._nt)} excluded_known={sum(ctx.excluded_known.values())} "
              f"wall={wall:.1f}s")
        return 0
    except Exception:
        traceback.print_exc()
        print(f"harness error in check {prop} (exit 2)", file=sys.stderr)
        if ctx is not None:
            try:
                if ctx.has_violation():
                    write_evidence(ctx, time.time() - t0, "violation")
                    for sig, (size, case, detail) in sorted(ctx._best.items()):
                        path = write_replay(ctx, sig, case, detail)
                        print(f"VIOLATION property={prop} replay={path}")
                    return 1
            except Exception:
                pass
        return 2


def _quiet_twisted_logging():
    """Keep 'Unhandled error in Deferred' etc. off stdout/stderr; checks that
    use logged errors as part of their oracle install their own observer."""
    try:
        from twisted.logger import globalLogBeginner
        globalLogBeginner.beginLoggingTo([lambda e: None], redirectStandardIO=False,
                                         discardBuffer=True)
    except Exception:
        pass
    import warnings
    warnings.simplefilter("ignore")
