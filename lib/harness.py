"""Small shared helpers for checks (segmentation, log capture, scratch dirs)."""
from __future__ import annotations

import contextlib
import itertools
import os
import shutil
import tempfile

from hypothesis import strategies as st

from .core import VERIF


def split_at(data, cuts):
    """Split bytes at sorted cut offsets (0 < c < len) -> list of segments."""
    cuts = sorted(set(c for c in cuts if 0 < c < len(data)))
    out, prev = [], 0
    for c in cuts:
        out.append(data[prev:c])
        prev = c
    out.append(data[prev:])
    return out


def all_single_cuts(n):
    return [[i] for i in range(1, n)]


def all_double_cuts(n):
    return [[i, j] for i, j in itertools.combinations(range(1, n), 2)]


def cuts_strategy(max_len, max_cuts=8):
    """Hypothesis strategy: a list of cut offsets (filtered against the real
    length by split_at), plus the two extreme modes."""
    return st.one_of(
        st.just("whole"),
        st.just("bytewise"),
        st.lists(st.integers(1, max(1, max_len)), max_size=max_cuts),
    )


def apply_cuts(data, cuts):
    if cuts == "whole":
        return [data] if data else []
    if cuts == "bytewise":
        return [data[i:i + 1] for i in range(len(data))]
    return [s for s in split_at(data, cuts)]


@contextlib.contextmanager
def captured_log():
    """Collect every event published to twisted's global log publisher."""
    from twisted.logger import globalLogPublisher
    events = []
    obs = events.append
    globalLogPublisher.addObserver(obs)
    try:
        yield events
    finally:
        globalLogPublisher.removeObserver(obs)


def log_errors(events):
    """Events that represent an error (failure or level >= error)."""
    from twisted.logger import LogLevel
    return [e for e in events
            if e.get("log_failure") is not None or e.get("isError")
            or e.get("log_level") in (LogLevel.error, LogLevel.critical)]


@contextlib.contextmanager
def scratch_dir(prop):
    base = os.path.join(VERIF, ".work")
    os.makedirs(base, exist_ok=True)
    d = tempfile.mkdtemp(prefix=prop + "-", dir=base)
    try:
        yield d
    finally:
        shutil.rmtree(d, ignore_errors=True)


def consume_failure(d):
    """Swallow whatever a Deferred ends up holding (no 'Unhandled error')."""
    d.addErrback(lambda f: None)
    return d
