#!/bin/sh
# Idempotent, offline. Twisted is installed editable in /venv from /repo, so
# checks always import the current working tree; nothing to build.
set -e
cd "$(dirname "$0")"
mkdir -p evidence replays .work
if ! /venv/bin/python -c "import hypothesis" 2>/dev/null; then
  /venv/bin/pip install --no-index --find-links /opt/veriftools/wheels hypothesis
fi
if ! PYTHONPATH=.deps /venv/bin/python -c "import atheris" 2>/dev/null; then
  /venv/bin/pip install -q --no-index --find-links /opt/veriftools/wheels --target .deps atheris || echo "atheris unavailable (only the optional fuzz tier needs it)"
fi
/venv/bin/python -c "import twisted, hypothesis; print('twisted from', twisted.__file__, 'hypothesis', hypothesis.__version__)"
