#!/venv/bin/python
"""Sensitivity drill: run a check against a scratch copy of /repo/src with one
textual mutation (or a patch) applied.  Never touches /repo.

  tools/drill.py C34 --edit src/twisted/names/_rfc1982.py 'OLD' 'NEW' [--edit ...] [--tier quick] [--seed N]
  tools/drill.py C34 --patch /path/to/patch.diff

Prints the check's last lines and its exit status; removes the scratch copy.
"""
import os, shutil, subprocess, sys, tempfile, argparse

ap = argparse.ArgumentParser()
ap.add_argument("props")
ap.add_argument("--edit", nargs=3, action="append", default=[], metavar=("FILE", "OLD", "NEW"))
ap.add_argument("--patch", action="append", default=[])
ap.add_argument("--tier", default="quick")
ap.add_argument("--seed", default="1")
ap.add_argument("--keep", action="store_true")
ap.add_argument("--count", type=int, default=1, help="occurrence count that must match (default exactly 1)")
a = ap.parse_args()

VERIF = os.path.dirname(os.path.dirname(os.path.abspath(__file__)))
base = tempfile.mkdtemp(prefix="verif-mut-", dir="/var/tmp")
rc_all = 0
try:
    shutil.copytree("/repo/src", os.path.join(base, "src"), symlinks=True,
                    ignore=shutil.ignore_patterns("__pycache__", "*.pyc"))
    for f, old, new in a.edit:
        p = os.path.join(base, f)
        s = open(p).read()
        if s.count(old) != a.count and "\\n" in old:
            # legacy spelling: a literal backslash-n in the pattern stands for a newline
            old2 = old.encode().decode("unicode_escape")
            if s.count(old2) == a.count:
                old = old2
                new = new.encode().decode("unicode_escape") if "\\n" in new else new
        if s.count(old) != a.count:
            print(f"drill: {f}: pattern occurs {s.count(old)} times, expected {a.count}")
            sys.exit(3)
        cand = s.replace(old, new)
        if f.endswith(".py") and "\\n" in new:
            # legacy spelling in the replacement only: keep whichever reading still compiles
            try:
                compile(cand, p, "exec")
            except SyntaxError:
                cand2 = s.replace(old, new.encode().decode("unicode_escape"))
                try:
                    compile(cand2, p, "exec")
                    cand = cand2
                except SyntaxError:
                    pass
        open(p, "w").write(cand)
    for pt in a.patch:
        r = subprocess.run(["patch", "-p1", "-s", "-d", base, "-i", os.path.abspath(pt)])
        if r.returncode:
            print("drill: patch failed"); sys.exit(3)
    env = dict(os.environ, VERIF_REPO=base, VERIF_SEED=a.seed, VERIF_DRILL="1")
    for prop in a.props.split(","):
        r = subprocess.run([os.path.join(VERIF, "check"), prop, "--tier", a.tier], env=env,
                           capture_output=True, text=True)
        tail = (r.stdout + r.stderr).strip().splitlines()[-6:]
        print(f"--- {prop}: exit={r.returncode}")
        print("\n".join(l[:300] for l in tail))
        rc_all = max(rc_all, r.returncode)
finally:
    if not a.keep:
        shutil.rmtree(base, ignore_errors=True)
    else:
        print("kept", base)
sys.exit(0)
