#!/venv/bin/python
"""Regenerate MANIFEST.json from the META of every checks/cNN_*.py."""
import importlib, json, os, sys
VERIF = os.path.dirname(os.path.dirname(os.path.abspath(__file__)))
sys.path.insert(0, VERIF); sys.path.insert(0, os.path.join(VERIF, "vendor"))
props = [json.loads(l) for l in open(os.path.join(VERIF, "properties.jsonl"))]
ids = [p["id"] for p in props]
mods = {}
for n in sorted(os.listdir(os.path.join(VERIF, "checks"))):
    if n.endswith(".py") and n[0] == "c" and n[1:3].isdigit():
        m = importlib.import_module("checks." + n[:-3])
        mods[m.META["property"]] = m
na_path = os.path.join(VERIF, "not_applicable.json")
na = json.load(open(na_path)) if os.path.exists(na_path) else {}
checks = []
reg_path = os.path.join(VERIF, "registered.json")
registered = set(json.load(open(reg_path))) if os.path.exists(reg_path) else set(mods)
mods = {k: v for k, v in mods.items() if k in registered}
for i in ids:
    if i not in mods:
        continue
    M = mods[i].META
    checks.append({
        "property_id": i,
        "quick_cmd": f"./check {i} --tier quick",
        "thorough_cmd": f"./check {i} --tier thorough",
        "evidence_file": f"/verif/evidence/{i}.json",
        "replay_cmd_template": f"./check {i} --replay {{path}}",
        "engine": "pbt-runner",
        "level_claimed": {"category": M.get("level", "exploration"), "text": M["level_text"],
                          "design_ref": M.get("design_ref", f"DESIGN.md §5 {i}")},
        "level_note": M["level_note"],
        "technique": M["technique"],
    })
not_app = [{"property_id": i, "reason": na.get(i, "check not built yet in this session; no claim is made")}
           for i in ids if i not in mods]
hooks_path = os.path.join(VERIF, "hooks.json")
hooks = json.load(open(hooks_path)) if os.path.exists(hooks_path) else {}
man = {
    "version": 1,
    "setup_cmd": "./setup.sh",
    "hooks": {
        "guard": "TWISTED_VERIF",
        "enable": "no hooks are needed: Twisted is installed editable from /repo/src, the checks import the working tree directly and intercept module-level names from outside; the guard name is reserved and unused",
        "baseline_off_cmd": "cd /repo && /venv/bin/python -m pytest -ra -q -p no:cacheprovider --timeout=900 --continue-on-collection-errors",
        "source_commits": hooks.get("source_commits", []),
        "add_only": True,
    },
    "engines": [{"name": "pbt-runner", "path": "/verif/check",
                 "serves_properties": [c["property_id"] for c in checks],
                 "kind_free_text": "Hypothesis (random + stateful) and complete small-scope enumeration sharded over 16 processes, explicit oracle per property, shrink-to-JSON replay; optional atheris tier"}],
    "checks": checks,
    "notes": "See DESIGN.md. known_findings.jsonl lists genuine defects recorded or fixed; corpus/<ID>/ holds committed regression cases replayed first in every run.",
    "not_applicable": not_app,
}
json.dump(man, open(os.path.join(VERIF, "MANIFEST.json"), "w"), indent=1)
print(len(checks), "checks;", len(not_app), "not claimed")
try:
    import jsonschema
    jsonschema.validate(man, json.load(open("/root/.vp/MANIFEST.schema.json")))
    print("manifest validates")
except ImportError:
    pass
