#!/venv/bin/python
"""Regenerate the generated tables of DESIGN.md §0 (between the GENERATED markers)
from known_findings.jsonl, drills/, seeded/ and evidence/."""
import json, os, re
VERIF = os.path.dirname(os.path.dirname(os.path.abspath(__file__)))


def esc(s):
    return str(s).replace("|", "\\|").replace("\n", " ")


out = []
# ---- findings
ents = []
p = os.path.join(VERIF, "known_findings.jsonl")
if os.path.exists(p):
    ents = [json.loads(l) for l in open(p) if l.strip()]
dd = os.path.join(VERIF, "known_findings.d")
pend = []
if os.path.isdir(dd):
    for n in sorted(os.listdir(dd)):
        pend += [json.loads(l) for l in open(os.path.join(dd, n)) if l.strip()]
fixed = [e for e in ents if e["status"] == "fixed"]
known = [e for e in ents if e["status"] == "known"]
out.append(f"### 0.2 Genuine defects found on the unchanged tree ({len(fixed)} fixed signatures, {len(known)} recorded as known)\n")
out.append("Every entry was first reported by the registered check itself (exit 1 / KNOWN-FINDING with a shrunk canonical case, kept in `known_findings.jsonl` and replayed first in every run). "
           "`fixed` entries forgive nothing: the canonical case must pass. `known` entries forgive exactly their signature.\n")
out.append("| property | signature | disposition | what |")
out.append("|---|---|---|---|")
for e in sorted(ents, key=lambda e: (e["property"], e["status"], e["signature"])):
    disp = f"fixed in /repo `{e['commit']}`" if e["status"] == "fixed" else "**known finding**"
    out.append(f"| {e['property']} | `{esc(e['signature'])}` | {disp} | {esc(e['what'])[:260]} |")
if pend:
    out.append("\nNot yet adjudicated (still forgiven via `known_findings.d/`):\n")
    for e in pend:
        out.append(f"* {e['property']} `{esc(e['signature'])}` — {esc(e['what'])[:200]}")
out.append("")
# ---- seeded
sd = os.path.join(VERIF, "seeded")
rows = []
if os.path.isdir(sd):
    for n in sorted(os.listdir(sd)):
        mp = os.path.join(sd, n, "meta.json")
        if not os.path.exists(mp):
            continue
        m = json.load(open(mp))
        v = m.get("verified", {})
        caught = m.get("caught_after_strengthening", v.get("caught"))
        how = "; ".join(l for l in v.get("check_lines", []) if l.startswith("violation"))[:150]
        rows.append((n, m["property"], m.get("summary", ""), m.get("needs", ""), caught, how, m.get("note", "")))
nc = sum(1 for r in rows if r[4])
nadj = sum(1 for r in rows if not r[4] and json.load(open(os.path.join(sd, r[0], 'meta.json'))).get('adjudication'))
out.append(f"### 0.3 Seeded breakages written by independent sub-agents ({len(rows)} confirmed, {nc} caught by the quick tier, {nadj} adjudicated as outside the statement)\n")
out.append("Each was produced by a fresh sub-agent that saw only the property text and a scratch worktree, then confirmed by `tools/verify_seeded.py` "
           "(demo passes on the clean tree, fails with the patch; the existing tests of the touched packages still pass; then `./check <ID> --tier quick` against the patched tree).\n")
out.append("| seeded change | what it does | needs | caught by `./check` (quick) | first violation signature / note |")
out.append("|---|---|---|---|---|")
for n, prop, summ, needs, caught, how, note in rows:
    out.append(f"| {n} | {esc(summ)[:200]} | {esc(needs)[:160]} | {'yes' if caught else 'NO'} | {esc(how)} {esc(note)} |")
out.append("")
# ---- drills
dr = os.path.join(VERIF, "drills")
tot = 0
per = []
for n in sorted(os.listdir(dr)):
    if n.endswith(".json"):
        k = len(json.load(open(os.path.join(dr, n))))
        tot += k
        per.append(f"{n[:-5]}:{k}")
out.append(f"### 0.5 Sensitivity drills ({tot} recorded planted bugs, all caught by the quick tier when recorded)\n")
out.append("`tools/run_drills.py <ID>` re-runs them against scratch copies of /repo/src. Per property: " + ", ".join(per) + ".\n")

# ---- per-property summary
import importlib, sys
sys.path.insert(0, VERIF); sys.path.insert(0, os.path.join(VERIF, "vendor"))
out.append("### 0.6 Per-property summary of the registered checks (generated from each check's META and its last evidence file)\n")
out.append("| property | deciding method | what the quick tier covers (from META) | last evidence: evaluations / distinct non-trivial | drills | seeded caught |")
out.append("|---|---|---|---|---|---|")
seeded_by = {}
for n, prop, summ, needs, caught, how, note in rows:
    a = seeded_by.setdefault(prop, [0, 0]); a[1] += 1; a[0] += 1 if caught else 0
for n in sorted(os.listdir(os.path.join(VERIF, "checks"))):
    if not (n.endswith(".py") and n[0] == "c" and n[1:3].isdigit()):
        continue
    try:
        M = importlib.import_module("checks." + n[:-3]).META
    except Exception as e:
        continue
    pid = M["property"]
    ev = {}
    ep = os.path.join(VERIF, "evidence", pid + ".json")
    if os.path.exists(ep):
        ev = json.load(open(ep))
    cov = ev.get("coverage", {})
    nd = 0
    dp = os.path.join(VERIF, "drills", pid + ".json")
    if os.path.exists(dp):
        nd = len(json.load(open(dp)))
    sc = seeded_by.get(pid, [0, 0])
    out.append(f"| {pid} | {esc(M.get('technique',''))[:160]} | {esc(M.get('level_text',''))[:420]} | {ev.get('tier','?')}: {cov.get('evaluations','?')} / {cov.get('distinct_nontrivial','?')} | {nd} | {sc[0]}/{sc[1]} |")
out.append("")
text = "\n".join(out)
dp = os.path.join(VERIF, "DESIGN.md")
s = open(dp).read()
b, e = "<!-- BEGIN GENERATED -->", "<!-- END GENERATED -->"
if b in s:
    s = s[:s.index(b) + len(b)] + "\n" + text + "\n" + s[s.index(e):]
    open(dp, "w").write(s)
    print("DESIGN.md updated:", len(fixed), "fixed", len(known), "known", len(rows), "seeded", tot, "drills")
else:
    print(text)
