#!/venv/bin/python
"""tools/mark_fixed.py <PROP> <signature-or-id> <repo-commit>: move an entry from known_findings.d/<PROP>.jsonl
into known_findings.jsonl with status=fixed. tools/mark_known.py semantics with commit '-' (stays known)."""
import json, os, sys
VERIF = os.path.dirname(os.path.dirname(os.path.abspath(__file__)))
prop, key, commit = sys.argv[1:4]
src = os.path.join(VERIF, "known_findings.d", prop + ".jsonl")
main = os.path.join(VERIF, "known_findings.jsonl")
rest, moved = [], []
for line in open(src):
    if not line.strip():
        continue
    e = json.loads(line)
    if key in (e.get("signature"), e.get("id")) or key == "ALL":
        if commit != "-":
            e["status"] = "fixed"; e["commit"] = commit
            e["record"] = f"fixed: property={prop} {commit} {e['what']}"
        else:
            e["status"] = "known"
            e["record"] = f"known: property={prop} {e['what']}"
        moved.append(e)
    else:
        rest.append(line.rstrip("\n"))
if not moved:
    sys.exit(f"no entry {key} in {src}")
with open(main, "a") as f:
    for e in moved:
        f.write(json.dumps(e, sort_keys=True) + "\n")
if rest:
    open(src, "w").write("\n".join(rest) + "\n")
else:
    os.unlink(src)
print("moved", [e["id"] for e in moved])
