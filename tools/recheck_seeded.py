#!/venv/bin/python
"""Re-run ./check against kept seeded breakages (patch applied to a scratch copy of /repo/src) and record
the outcome in seeded/<NAME>/meta.json.   tools/recheck_seeded.py [--missed | NAME ...] [--seed N]"""
import json, os, shutil, subprocess, sys, tempfile
from concurrent.futures import ThreadPoolExecutor
VERIF = os.path.dirname(os.path.dirname(os.path.abspath(__file__)))
args = sys.argv[1:]
seed = "1"
if "--seed" in args:
    i = args.index("--seed"); seed = args[i + 1]; del args[i:i + 2]
names = [a for a in args if not a.startswith("--")]
alln = sorted(n for n in os.listdir(os.path.join(VERIF, "seeded")) if os.path.exists(os.path.join(VERIF, "seeded", n, "meta.json")))
def status(n):
    m = json.load(open(os.path.join(VERIF, "seeded", n, "meta.json")))
    return m.get("caught_after_strengthening", m.get("verified", {}).get("caught"))
if "--missed" in args:
    names = [n for n in alln if not status(n)]
elif not names:
    names = alln
head = subprocess.run(["git", "-C", "/repo", "rev-parse", "--short", "HEAD"], capture_output=True, text=True).stdout.strip()

def one(n):
    d = os.path.join(VERIF, "seeded", n)
    mp = os.path.join(d, "meta.json")
    m = json.load(open(mp))
    base = tempfile.mkdtemp(prefix="verif-rs-", dir="/var/tmp")
    try:
        shutil.copytree("/repo/src", os.path.join(base, "src"), symlinks=True, ignore=shutil.ignore_patterns("__pycache__", "*.pyc"))
        r = subprocess.run(["patch", "-p1", "-s", "-d", base, "-i", os.path.join(d, "patch.diff")], capture_output=True, text=True)
        if r.returncode:
            return n, None, "patch no longer applies: " + (r.stdout + r.stderr)[-200:]
        env = dict(os.environ, VERIF_REPO=base, VERIF_SEED=seed, VERIF_DRILL="1")
        r = subprocess.run([os.path.join(VERIF, "check"), m["property"], "--tier", "quick"], env=env, capture_output=True, text=True)
        lines = [l[:300] for l in r.stdout.splitlines() if l.startswith(("violation", "VIOLATION"))]
        caught = r.returncode == 1 and any(l.startswith("VIOLATION") for l in lines)
        was = m.get("verified", {}).get("caught")
        m["recheck"] = {"repo_head": head, "seed": int(seed), "check_exit": r.returncode, "caught": caught, "check_lines": lines[:4]}
        if caught and not was:
            m["caught_after_strengthening"] = True
            m["note"] = "missed by the first version of the check; caught after the generator/oracle was strengthened (DESIGN §0.3)"
        elif not caught and was:
            m["caught_after_strengthening"] = False
            m["note"] = "REGRESSION: was caught, now missed"
        json.dump(m, open(mp, "w"), indent=1)
        return n, caught, (lines[0] if lines else r.stdout[-200:] + r.stderr[-200:])
    finally:
        shutil.rmtree(base, ignore_errors=True)

with ThreadPoolExecutor(6) as ex:
    for n, caught, info in ex.map(one, names):
        print(n, "CAUGHT" if caught else ("MISSED" if caught is not None else "ERROR"), "::", info[:160])
