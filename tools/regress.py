#!/venv/bin/python
"""tools/regress.py <tree> <pytest paths...>: run repo tests in <tree> (cwd=<tree>, PYTHONPATH=<tree>/src)
and list failures that are in the baseline's stable_pass set."""
import json, os, subprocess, sys, tempfile, xml.etree.ElementTree as ET
tree = sys.argv[1]; paths = sys.argv[2:]
stable = set(json.load(open("/root/.vp/BASELINE.json"))["stable_pass"])
fd, xmlp = tempfile.mkstemp(suffix=".xml", dir="/var/tmp"); os.close(fd)
env = dict(os.environ, PYTHONPATH=os.path.join(tree, "src"))
r = subprocess.run(["/venv/bin/python", "-m", "pytest", "-q", "-p", "no:cacheprovider", "--timeout=900",
                    "--continue-on-collection-errors", "--junitxml=" + xmlp]
                   + (["-n", os.environ.get("REGRESS_N", "4")] if os.environ.get("REGRESS_N", "4") != "0" else []) + paths, cwd=tree, env=env,
                   capture_output=True, text=True)
print(r.stdout.strip().splitlines()[-1] if r.stdout.strip() else r.stderr[-500:])
bad = []; n = 0
for tc in ET.parse(xmlp).getroot().iter("testcase"):
    n += 1
    name = f"{tc.get('classname')}::{tc.get('name')}"
    if tc.find("failure") is not None or tc.find("error") is not None:
        if name in stable:
            bad.append(name)
os.unlink(xmlp)
bad = sorted(set(bad))
if bad and len(bad) <= 12:
    # process/timing tests flake under load: re-run each suspect alone once
    still = []
    for b in bad:
        cls, name = b.split("::")
        mod, _, klass = cls.rpartition(".")
        node = mod.replace(".", "/") + ".py::" + klass + "::" + name
        for attempt in range(3):
            r2 = subprocess.run(["/venv/bin/python", "-m", "pytest", "-q", "-p", "no:cacheprovider", "--timeout=900", node],
                                cwd=tree, env=env, capture_output=True, text=True)
            if r2.returncode == 0:
                break
        if r2.returncode != 0:
            still.append(b)
        else:
            print("  (flaky, passed when re-run alone)", b)
    bad = still
print(f"{n} testcases; stable-pass tests now failing: {len(bad)}")
for b in bad: print("  REGRESSION", b)
sys.exit(1 if bad else 0)
