#!/venv/bin/python
"""Run the recorded sensitivity drills of one or more properties.

drills/<ID>.json = [{"name": "...", "edits": [[file, old, new], ...], "tier": "quick", "count": 1}, ...]
Every drill is expected to be CAUGHT (check exits 1 with a VIOLATION line).
"""
import json, os, subprocess, sys
VERIF = os.path.dirname(os.path.dirname(os.path.abspath(__file__)))
ids = sys.argv[1:] or sorted(n[:-5] for n in os.listdir(os.path.join(VERIF, "drills")) if n.endswith(".json"))
bad = 0
for i in ids:
    p = os.path.join(VERIF, "drills", i + ".json")
    if not os.path.exists(p):
        print(i, "no drills"); continue
    for d in json.load(open(p)):
        cmd = [os.path.join(VERIF, "tools", "drill.py"), i, "--tier", d.get("tier", "quick"), "--count", str(d.get("count", 1))]
        for e in d["edits"]:
            cmd += ["--edit"] + list(e)
        r = subprocess.run(cmd, capture_output=True, text=True)
        caught = "exit=1" in r.stdout and "VIOLATION" in r.stdout
        print(f"{i} {d['name']}: {'CAUGHT' if caught else 'MISSED'}")
        if not caught:
            bad += 1
            print(r.stdout[-800:], r.stderr[-400:])
sys.exit(1 if bad else 0)
