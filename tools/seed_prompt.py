#!/venv/bin/python
"""Print the prompt for an independent 'seeded breakage' agent for one property and create its worktree."""
import json, os, subprocess, sys
pid = sys.argv[1]
rnd = int(sys.argv[2]) if len(sys.argv) > 2 else 1
n1, n2 = 2 * rnd - 1, 2 * rnd
p = next(json.loads(l) for l in open("/verif/properties.jsonl") if json.loads(l)["id"] == pid)
wt = f"/tmp/seed/{pid}" if rnd == 1 else f"/tmp/seed/{pid}r{rnd}"
if not os.path.isdir(wt):
    os.makedirs("/tmp/seed", exist_ok=True)
    subprocess.run(["git", "-C", "/repo", "worktree", "add", "-q", "--detach", wt, "HEAD"], check=True)
extra3 = " Two earlier rounds of this exercise have already covered the central functions named by the property, their boundary tests and their direct helpers. Look elsewhere: (a) collaborating code the property silently depends on but that is NOT listed under 'code involved' (base classes, shared utility functions, modules the listed files call into); (b) optional features and configuration: non-default constructor arguments and class attributes, alternative code paths such as bytes vs str, each variant of an algorithm/reactor/format the property quantifies over; (c) object lifecycle: reuse of one object for a second operation, state left behind by an earlier error or cancelled operation, re-entrant calls made from callbacks. Vary what is needed to expose the change (a different kind of input, history, schedule or fault than the obvious one)."
extra = extra3 if rnd >= 3 else "" if rnd == 1 else " Other people have already tried the most obvious sites (the central function named by the property, its main boundary test, its primary loop). Look further: helper functions and error/cleanup paths that the property relies on, rarely taken branches, state that must be reset between uses, behaviour shared with a base class or a sibling class, and pairs of sites that are each fine alone. Vary what is needed to expose the change (a different kind of input, history, schedule or fault than the obvious one)."
print(f"""You are helping to evaluate a verification effort for the Twisted networking framework (Python). Your job is to act as a realistic source of *subtle regressions*.

You have your own scratch git worktree of the Twisted repository at {wt} (work ONLY there; do not read or write /repo or /verif). Run code against it with:  cd {wt} && PYTHONPATH={wt}/src /venv/bin/python ...   (the /venv interpreter otherwise imports a different checkout, so the PYTHONPATH is essential; verify with `python -c "import twisted; print(twisted.__file__)"`). Run existing tests with e.g.  cd {wt} && PYTHONPATH={wt}/src /venv/bin/python -m pytest -q -p no:cacheprovider src/twisted/<pkg>/test/test_<x>.py  . The sandbox is offline.

Here is a semantic property that Twisted is supposed to satisfy:

  id: {p['id']}
  title: {p['title']}
  statement: {p['statement']}
  quantified over: {p['quantifier']['text']}
  code involved: {', '.join(p['anchors']['files'])}

Produce TWO different, independent changes to Twisted's source (under src/twisted/, not tests) that each BREAK this property while (a) the code still imports and (b) the existing test suite still passes (at the very least every test module of the touched package(s) and of src/twisted/test that exercises the touched code — run them and make sure none that passed before now fails). The two changes should attack different mechanisms/sites behind the property.{extra}

Make them the kind of mistake a competent developer could plausibly introduce in a refactor or "optimisation" (an off-by-one at a boundary, a dropped reset or re-check, a wrong branch order, a condition that is only wrong for a rarely used path, two sites that are each fine alone), and that needs something SPECIFIC to manifest — a particular interleaving or order of operations, a fault or disconnect at a particular point, a multi-step sequence, an unusual input or boundary size, a particular segmentation of a byte stream — NOT something that ordinary use or any simple smoke test would expose at once. Do not add dead code, backdoors keyed on magic constants, or anything keyed on environment variables; keep each change small (a few lines).

For each change N in ({n1}, {n2}) write into {wt}/seeded/{pid}-N/ :
  - patch.diff : `git diff` of the change against HEAD (only that change; it must apply with `git apply` to a clean checkout),
  - demo.py    : a small standalone program (no pytest needed) that exits 0 on the unmodified code and exits non-zero (with a short message saying what went wrong) when the change is applied; it should exercise the public behaviour the property talks about, and be deterministic,
  - meta.json  : {{"property": "{pid}", "summary": "<one sentence: what the change does>", "needs": "<what specific input/sequence/schedule/fault is needed for it to manifest>", "tests_run": ["<pytest paths you ran>"], "tests_result": "<e.g. 412 passed, same as before>"}}.
Between the two changes, restore the tree (`git checkout -- src`). Never use `git stash` (the stash is shared with other worktrees); keep your work as patch files. Before finishing, verify for each: clean tree -> demo exits 0; patched tree -> demo exits non-zero; the relevant existing tests pass on the patched tree exactly as on the clean tree. Leave the worktree clean (`git checkout -- src`; the seeded/ directory stays). If the property is already violated by the unmodified code in some way, do not reuse that existing defect: your change must introduce a new one.

Your final message: for each change, the summary, what it needs to manifest, and the test evidence. Be concise.""")
