#!/bin/bash
# tools/sweep.sh <seed> [ids...]: run quick checks, print one line each
seed=${1:-1}; shift
ids="$@"; [ -z "$ids" ] && ids=$(ls /verif/checks | grep -o '^c[0-9]*' | tr a-z A-Z | sort -u)
for i in $ids; do
  s=$(date +%s)
  out=$(VERIF_SEED=$seed timeout 900 /verif/check $i --tier quick 2>&1); rc=$?
  e=$(date +%s)
  echo "$i seed=$seed rc=$rc t=$((e-s))s :: $(echo "$out" | grep -E '^(OK|VIOLATION|KNOWN-FINDING|harness)' | head -4 | cut -c1-160 | tr '\n' '|')"
done
