#!/bin/bash
# tools/sweep_thorough.sh [parallel] : run every thorough tier, one line per property in /var/tmp/thorough/<ID>.txt
par=${1:-3}
mkdir -p /var/tmp/thorough
ls /verif/checks | grep -o '^c[0-9]*' | tr a-z A-Z | sort -u | xargs -P $par -I{} sh -c 's=$(date +%s); out=$(VERIF_SEED=1 timeout 3600 /verif/check {} --tier thorough 2>&1); rc=$?; e=$(date +%s); echo "{} rc=$rc t=$((e-s))s :: $(echo "$out" | grep -E "^(OK|VIOLATION|KNOWN-FINDING|harness)" | head -3 | cut -c1-200 | tr "\n" "|")" > /var/tmp/thorough/{}.txt'
