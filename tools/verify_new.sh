#!/bin/bash
# queue verification for every /tmp/seed/*/seeded/<NAME> (with meta.json) not yet kept in /verif/seeded and without a log
names=""
for d in /tmp/seed/*/seeded/C*-*; do
  [ -f "$d/meta.json" ] || continue
  n=$(basename $d)
  [ -d /verif/seeded/$n ] && continue
  [ -f /var/tmp/vs_$n.log ] && continue
  names="$names $n"
done
echo queue: $names
[ -n "$names" ] && /verif/tools/verify_queue.sh $names
