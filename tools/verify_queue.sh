#!/bin/bash
# tools/verify_queue.sh NAME...   (NAME like C03-1; source dir /tmp/seed/<ID>/seeded/<NAME>) ; 3 in parallel
printf "%s\n" "$@" | xargs -P 3 -I{} sh -c 'p=$(echo {} | cut -d- -f1); /verif/tools/verify_seeded.py /tmp/seed/$p/seeded/{} --keep-as {} > /var/tmp/vs_{}.log 2>&1'
