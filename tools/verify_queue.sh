#!/bin/bash
# tools/verify_queue.sh NAME...   (NAME like C03-1; source dir /tmp/seed/<ID>*/seeded/<NAME>) ; 3 in parallel
printf "%s\n" "$@" | xargs -P 3 -I{} sh -c 'p=$(echo {} | cut -d- -f1); d=$(ls -d /tmp/seed/${p}*/seeded/{} 2>/dev/null | head -1); /verif/tools/verify_seeded.py $d --keep-as {} > /var/tmp/vs_{}.log 2>&1'
