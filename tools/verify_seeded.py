#!/venv/bin/python
"""Confirm a seeded breakage independently and run our checks against it.

  tools/verify_seeded.py <dir with patch.diff demo.py meta.json> [--keep-as NAME] [--full] [--tier quick] [--no-tests]

Steps, all in a scratch git worktree of /repo under /var/tmp (removed afterwards):
  1. clean tree: demo.py must exit 0
  2. patch applies (git apply); demo.py must exit non-zero
  3. existing tests of the touched packages (+ paths named in meta.json) run on the
     patched tree: no test of the baseline's stable-pass set may fail (--full: whole suite)
  4. ./check <property> --tier <tier> against the patched tree (VERIF_REPO): caught = exit 1
With --keep-as NAME the directory is copied to /verif/seeded/NAME/ and meta.json is extended
with what was run and the outcome.
"""
import argparse, json, os, re, shutil, subprocess, sys, time

ap = argparse.ArgumentParser()
ap.add_argument("dir")
ap.add_argument("--keep-as")
ap.add_argument("--full", action="store_true")
ap.add_argument("--tier", default="quick")
ap.add_argument("--no-tests", action="store_true")
ap.add_argument("--seed", default="1")
a = ap.parse_args()
VERIF = os.path.dirname(os.path.dirname(os.path.abspath(__file__)))
d = os.path.abspath(a.dir)
meta = json.load(open(os.path.join(d, "meta.json")))
prop = meta["property"]
wt = f"/var/tmp/vs-{os.getpid()}"
out = {"repo_head": subprocess.run(["git", "-C", "/repo", "rev-parse", "--short", "HEAD"], capture_output=True, text=True).stdout.strip()}


def sh(cmd, **kw):
    return subprocess.run(cmd, capture_output=True, text=True, **kw)


def demo():
    env = dict(os.environ, PYTHONPATH=os.path.join(wt, "src") + ":/verif/vendor", PYTHONDONTWRITEBYTECODE="1")
    r = sh(["/venv/bin/python", os.path.join(d, "demo.py")], env=env, cwd=wt, timeout=600)
    return r.returncode, (r.stdout + r.stderr)[-400:]


ok = True
try:
    subprocess.run(["git", "-C", "/repo", "worktree", "add", "-q", "--detach", wt, "HEAD"], check=True)
    rc, o = demo()
    out["demo_clean_exit"] = rc
    if rc != 0:
        ok = False
        print("FAIL: demo does not pass on the clean tree:", o)
    r = sh(["git", "-C", wt, "apply", os.path.join(d, "patch.diff")])
    if r.returncode:
        ok = False
        print("FAIL: patch does not apply:", r.stderr[-300:])
    else:
        rc, o = demo()
        out["demo_patched_exit"] = rc
        out["demo_patched_tail"] = o[-200:]
        if rc == 0:
            ok = False
            print("FAIL: demo passes on the patched tree")
        touched = re.findall(r"^\+\+\+ b/(\S+)", open(os.path.join(d, "patch.diff")).read(), re.M)
        out["touched"] = touched
        if any("/test/" in t for t in touched):
            ok = False
            print("FAIL: patch touches tests")
        if ok and not a.no_tests:
            paths = set()
            if a.full:
                paths = {"src/twisted"}
            else:
                for t in touched:
                    pkg = os.path.dirname(t)
                    if os.path.isdir(os.path.join(wt, pkg, "test")):
                        paths.add(os.path.join(pkg, "test"))
                    if pkg.startswith("src/twisted/internet") or pkg.startswith("src/twisted/python") or pkg.startswith("src/twisted/protocols") or pkg.startswith("src/twisted/persisted") or pkg.startswith("src/twisted/spread") or pkg.startswith("src/twisted/cred") or pkg.startswith("src/twisted/application") or pkg.startswith("src/twisted/_threads"):
                        paths.add("src/twisted/test")
                for t in meta.get("tests_run", []):
                    t = t.split("::")[0]
                    if os.path.exists(os.path.join(wt, t)):
                        paths.add(t)
            t0 = time.time()
            r = sh([os.path.join(VERIF, "tools", "regress.py"), wt] + sorted(paths))
            out["tests_paths"] = sorted(paths)
            out["tests_summary"] = r.stdout.strip().splitlines()[-6:]
            out["tests_wall_s"] = round(time.time() - t0)
            if r.returncode:
                ok = False
                print("FAIL: existing tests regress:\n" + r.stdout[-1500:])
        if ok:
            env = dict(os.environ, VERIF_REPO=wt, VERIF_SEED=a.seed)
            t0 = time.time()
            r = sh([os.path.join(VERIF, "check"), prop, "--tier", a.tier], env=env)
            out["check_exit"] = r.returncode
            out["check_wall_s"] = round(time.time() - t0)
            lines = [l for l in r.stdout.splitlines() if l.startswith(("VIOLATION", "violation", "OK ", "KNOWN"))]
            out["check_lines"] = [l[:300] for l in lines[:6]]
            out["caught"] = r.returncode == 1 and any(l.startswith("VIOLATION") for l in lines)
            if r.returncode not in (0, 1):
                out["check_stderr_tail"] = r.stderr[-600:]
finally:
    subprocess.run(["git", "-C", "/repo", "worktree", "remove", "--force", wt], capture_output=True)
    shutil.rmtree(wt, ignore_errors=True)
    subprocess.run(["git", "-C", "/repo", "worktree", "prune"], capture_output=True)
out["confirmed"] = ok
print(json.dumps(out, indent=1))
if ok and a.keep_as:
    dest = os.path.join(VERIF, "seeded", a.keep_as)
    os.makedirs(dest, exist_ok=True)
    for n in ("patch.diff", "demo.py"):
        shutil.copy(os.path.join(d, n), os.path.join(dest, n))
    meta["verified"] = {k: out[k] for k in out if k not in ("demo_patched_tail",)}
    meta["what_was_run"] = ("tools/verify_seeded.py: scratch worktree of /repo; demo.py exit 0 on clean tree, non-zero with "
                            "patch.diff applied; existing tests of the touched packages compared with the baseline stable-pass set; "
                            f"then ./check {prop} --tier {a.tier} against the patched tree")
    json.dump(meta, open(os.path.join(dest, "meta.json"), "w"), indent=1)
    print("kept as", dest)
sys.exit(0 if ok else 1)
